"""Fork server: run the real meson (from common.REPO, current working tree) in a forked child.

The driver process imports mesonbuild once (preload()); every case forks, installs the monitors
asked for, calls mesonbuild.mesonmain.run(argv, <repo>/meson.py) and _exit()s.  Monitors write
JSON lines to a side file through `rec(event)`; they never raise through meson.
A per-case wall-clock watchdog kills the child's process group; its firing is reported as
timed_out (the caller counts it as inconclusive, never as a violation).
"""
from __future__ import annotations

import json
import os
import signal
import subprocess
import sys
import tempfile
import time
import typing as T

from . import common

MESON_PY = os.path.join(common.REPO, 'meson.py')
NINJA_SHIM = os.path.join(common.VERIF, 'tools', 'ninja')
INJECT_DIR = os.path.join(common.VERIF, 'vf', 'inject')

_PRELOADED = False


def preload(extra: T.Sequence[str] = ()) -> None:
    """Import the repository's modules once in the driver so that forked children start warm."""
    global _PRELOADED
    common.use_repo()
    import importlib
    mods = ['mesonbuild.mesonmain', 'mesonbuild.msetup', 'mesonbuild.mconf', 'mesonbuild.mintro',
            'mesonbuild.interpreter', 'mesonbuild.backend.ninjabackend', 'mesonbuild.backend.nonebackend',
            'mesonbuild.compilers.detect', 'mesonbuild.compilers.c', 'mesonbuild.linkers.detect',
            'mesonbuild.dependencies.pkgconfig', 'mesonbuild.modules', 'mesonbuild.wrap.wrap',
            'mesonbuild.cmdline', 'mesonbuild.optinterpreter', 'mesonbuild.mformat', 'mesonbuild.rewriter',
            'mesonbuild.minstall', 'mesonbuild.mtest', 'mesonbuild.msubprojects',
            'mesonbuild.scripts.meson_exe', 'mesonbuild.modules.pkgconfig', 'mesonbuild.modules.fs',
            ] + list(extra)
    for m in mods:
        try:
            importlib.import_module(m)
        except Exception:  # a broken tree shows up in the cases themselves
            pass
    _PRELOADED = True


def base_env() -> T.Dict[str, str]:
    """Environment for meson runs: minimal, deterministic, with the mini-ninja shim."""
    env = {
        'PATH': os.environ.get('PATH', '/usr/local/bin:/usr/bin:/bin'),
        'HOME': os.environ.get('HOME', '/root'),
        'LANG': 'C.UTF-8', 'LC_ALL': 'C.UTF-8',
        'NINJA': NINJA_SHIM,
        'PYTHONDONTWRITEBYTECODE': '1',
        'PYTHONHASHSEED': os.environ.get('PYTHONHASHSEED', '0'),
    }
    if 'TMPDIR' in os.environ:
        env['TMPDIR'] = os.environ['TMPDIR']
    return env


class Result:
    __slots__ = ('rc', 'out', 'err', 'records', 'timed_out', 'wall', 'signal')

    def __init__(self) -> None:
        self.rc: int = -1
        self.out = ''
        self.err = ''
        self.records: T.List[dict] = []
        self.timed_out = False
        self.wall = 0.0
        self.signal = 0

    @property
    def traceback(self) -> bool:
        return 'Traceback (most recent call last)' in self.out or 'Traceback (most recent call last)' in self.err

    def brief(self) -> dict:
        return {'rc': self.rc, 'signal': self.signal, 'timed_out': self.timed_out,
                'out_tail': self.out[-1500:], 'err_tail': self.err[-1500:]}


Monitor = T.Callable[[T.Callable[[dict], None]], None]


def meson(argv: T.Sequence[str], cwd: T.Optional[str] = None, env: T.Optional[T.Mapping[str, str]] = None,
          monitors: T.Sequence[Monitor] = (), timeout: float = 120.0, stdin: T.Optional[str] = None,
          replace_env: bool = True) -> Result:
    """Run `meson <argv>` from the repository under test in a forked child of this process."""
    if not _PRELOADED:
        preload()
    res = Result()
    tmpd = tempfile.mkdtemp(prefix='vfrun-')
    outp, errp, recp = (os.path.join(tmpd, n) for n in ('out', 'err', 'rec'))
    full_env = base_env() if replace_env else dict(os.environ)
    if env:
        full_env.update(env)
    t0 = time.time()
    pid = os.fork()
    if pid == 0:
        rc = 120
        try:
            os.setsid()
            fo = os.open(outp, os.O_WRONLY | os.O_CREAT | os.O_TRUNC, 0o600)
            fe = os.open(errp, os.O_WRONLY | os.O_CREAT | os.O_TRUNC, 0o600)
            fr = os.open(recp, os.O_WRONLY | os.O_CREAT | os.O_APPEND, 0o600)
            if stdin is not None:
                r, w = os.pipe()
                os.write(w, stdin.encode())
                os.close(w)
                os.dup2(r, 0)
            else:
                dn = os.open(os.devnull, os.O_RDONLY)
                os.dup2(dn, 0)
            os.dup2(fo, 1)
            os.dup2(fe, 2)
            sys.stdout = open(1, 'w', encoding='utf-8', errors='backslashreplace', closefd=False, buffering=1)
            sys.stderr = open(2, 'w', encoding='utf-8', errors='backslashreplace', closefd=False, buffering=1)
            os.environ.clear()
            os.environ.update(full_env)
            if cwd:
                os.chdir(cwd)

            def rec(ev: dict) -> None:
                try:
                    os.write(fr, (json.dumps(ev, default=repr, ensure_ascii=True) + '\n').encode())
                except Exception:
                    pass
            for m in monitors:
                m(rec)
            from mesonbuild import mesonmain
            try:
                rc = mesonmain.run(list(argv), MESON_PY)
            except SystemExit as e:
                rc = e.code if isinstance(e.code, int) else (0 if e.code is None else 1)
            except BaseException:
                import traceback
                traceback.print_exc()
                rc = 121
            for h in _AT_CHILD_EXIT:
                try:
                    h(rec)
                except Exception:
                    pass
        finally:
            try:
                sys.stdout.flush()
                sys.stderr.flush()
            except Exception:
                pass
            os._exit(rc if isinstance(rc, int) and 0 <= rc < 256 else 1)
    # parent
    deadline = t0 + timeout
    status = None
    while True:
        wpid, st = os.waitpid(pid, os.WNOHANG)
        if wpid == pid:
            status = st
            break
        if time.time() > deadline:
            res.timed_out = True
            try:
                os.killpg(pid, signal.SIGKILL)
            except (ProcessLookupError, PermissionError):
                try:
                    os.kill(pid, signal.SIGKILL)
                except ProcessLookupError:
                    pass
            _, status = os.waitpid(pid, 0)
            break
        time.sleep(0.005)
    res.wall = time.time() - t0
    if os.WIFEXITED(status):
        res.rc = os.WEXITSTATUS(status)
    elif os.WIFSIGNALED(status):
        res.signal = os.WTERMSIG(status)
        res.rc = -res.signal
    try:
        with open(outp, encoding='utf-8', errors='backslashreplace') as f:
            res.out = f.read()
        with open(errp, encoding='utf-8', errors='backslashreplace') as f:
            res.err = f.read()
        with open(recp, encoding='utf-8') as f:
            for line in f:
                try:
                    res.records.append(json.loads(line))
                except ValueError:
                    pass
    except FileNotFoundError:
        pass
    import shutil
    shutil.rmtree(tmpd, ignore_errors=True)
    return res


_AT_CHILD_EXIT: T.List[T.Callable[[T.Callable[[dict], None]], None]] = []


def at_child_exit(fn: T.Callable[[T.Callable[[dict], None]], None]) -> None:
    """Called by a monitor (inside the child) to flush counters when meson returns normally."""
    _AT_CHILD_EXIT.append(fn)


def meson_cold(argv: T.Sequence[str], cwd: T.Optional[str] = None, env: T.Optional[T.Mapping[str, str]] = None,
               timeout: float = 180.0, python: str = '/venv/bin/python') -> Result:
    """Run meson in a fresh interpreter (needed when PYTHONHASHSEED or sitecustomize must differ)."""
    res = Result()
    full_env = base_env()
    if env:
        full_env.update(env)
    t0 = time.time()
    try:
        p = subprocess.run([python, MESON_PY] + list(argv), cwd=cwd, env=full_env, timeout=timeout,
                           stdin=subprocess.DEVNULL, stdout=subprocess.PIPE, stderr=subprocess.PIPE,
                           start_new_session=True)
        res.rc = p.returncode
        res.out = p.stdout.decode('utf-8', 'backslashreplace')
        res.err = p.stderr.decode('utf-8', 'backslashreplace')
    except subprocess.TimeoutExpired as e:
        res.timed_out = True
        res.out = (e.stdout or b'').decode('utf-8', 'backslashreplace')
        res.err = (e.stderr or b'').decode('utf-8', 'backslashreplace')
    res.wall = time.time() - t0
    return res


def write_tree(root: str, files: T.Mapping[str, T.Union[str, bytes]]) -> None:
    for rel, content in files.items():
        p = os.path.join(root, rel)
        os.makedirs(os.path.dirname(p), exist_ok=True)
        if isinstance(content, bytes):
            with open(p, 'wb') as f:
                f.write(content)
        else:
            with open(p, 'w', encoding='utf-8', newline='') as f:
                f.write(content)
