"""Read the effective option values persisted in a build directory with the REAL code:
a forked child calls mesonbuild.coredata.load(bdir) and optstore.get_value_for(key) for each requested key.
This reads exactly what was persisted and resolves augments / yielding with the real resolver."""
from __future__ import annotations

import json
import os
import typing as T

from . import common


def read_options(bdir: str, keys: T.Sequence[T.Tuple[str, T.Optional[str]]], timeout: float = 60.0) -> T.Dict[str, T.Any]:
    """keys: (name, subproject or None; '' = top-level project option).  Returns {'sub:name' | 'name': value | {'error': ...}}
    plus '__load_error__' when coredata cannot be loaded."""
    common.use_repo()
    r, w = os.pipe()
    pid = os.fork()
    if pid == 0:
        os.close(r)
        out: T.Dict[str, T.Any] = {}
        try:
            import io
            import sys
            sys.stdout = io.StringIO()
            sys.stderr = io.StringIO()
            from mesonbuild import coredata
            from mesonbuild.options import OptionKey
            try:
                cd = coredata.load(bdir)
            except BaseException as e:
                out['__load_error__'] = f'{type(e).__name__}: {e}'
                cd = None
            if cd is not None:
                try:
                    # every project option the store holds (so that options nobody asked about are seen too)
                    out['__project_options__'] = sorted((f'{k.subproject}:{k.name}' if k.subproject else k.name)
                                                        for k in cd.optstore.options if cd.optstore.is_project_option(k))
                except BaseException as e:
                    out['__project_options__'] = {'error': f'{type(e).__name__}: {e}'}
                for name, sub in keys:
                    label = f'{sub}:{name}' if sub else name
                    try:
                        k = OptionKey(name, sub)
                        v = cd.optstore.get_value_for(k)
                        out[label] = v
                    except BaseException as e:
                        out[label] = {'error': f'{type(e).__name__}: {e}'}
        except BaseException as e:
            out['__load_error__'] = f'{type(e).__name__}: {e}'
        try:
            os.write(w, json.dumps(out, default=repr).encode())
        finally:
            os._exit(0)
    os.close(w)
    chunks = []
    while True:
        b = os.read(r, 65536)
        if not b:
            break
        chunks.append(b)
    os.close(r)
    os.waitpid(pid, 0)
    try:
        return json.loads(b''.join(chunks).decode())
    except ValueError:
        return {'__load_error__': 'probe produced no output'}
