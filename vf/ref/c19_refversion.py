"""Reference for C19: RPM-style version order, constraint parsing, interval membership.

Independent of mesonbuild (never imports it).  Written from the wording of property C19
("numeric components compare numerically and rank above alphabetic ones, a longer version with an
equal prefix is greater"), from docs/yaml/elementary/str.yml (operators '>', '<', '>=', '<=', '!=',
'==', '=' ; '3.6' vs '>=3.6.0' is false) and from the comment "implements the same version ordering
as RPM" (alphabetic components compare like strcmp).

Scope: ASCII version strings.  Anything that is not an ASCII digit or an ASCII letter separates
components and carries no meaning of its own.
"""
from __future__ import annotations

import typing as T

Token = T.Union[int, str]

_DIGITS = '0123456789'
_LETTERS = 'abcdefghijklmnopqrstuvwxyzABCDEFGHIJKLMNOPQRSTUVWXYZ'


def tokens(s: str) -> T.Tuple[Token, ...]:
    """Maximal runs of digits (as numbers) and maximal runs of letters; everything else separates."""
    out: T.List[Token] = []
    i, n = 0, len(s)
    while i < n:
        ch = s[i]
        if ch in _DIGITS:
            j = i
            while j < n and s[j] in _DIGITS:
                j += 1
            out.append(int(s[i:j]))
            i = j
        elif ch in _LETTERS:
            j = i
            while j < n and s[j] in _LETTERS:
                j += 1
            out.append(s[i:j])
            i = j
        else:
            i += 1
    return tuple(out)


def cmp_tokens(ta: T.Sequence[Token], tb: T.Sequence[Token]) -> int:
    for x, y in zip(ta, tb):
        xn, yn = isinstance(x, int), isinstance(y, int)
        if xn and not yn:
            return 1            # a number ranks above a word
        if yn and not xn:
            return -1
        if x != y:
            return -1 if x < y else 1   # numbers numerically, words like strcmp (code points)
    if len(ta) == len(tb):
        return 0
    return -1 if len(ta) < len(tb) else 1   # equal prefix: the longer one is greater


def cmp(a: str, b: str) -> int:
    return cmp_tokens(tokens(a), tokens(b))


def first_difference(a: str, b: str) -> str:
    """Structural reason why a and b are ordered the way they are (classifier for mismatches)."""
    ta, tb = tokens(a), tokens(b)
    for x, y in zip(ta, tb):
        xn, yn = isinstance(x, int), isinstance(y, int)
        if xn != yn:
            return 'numeric-vs-alphabetic'
        if x != y:
            return 'numeric-value' if xn else 'alphabetic-order'
    if len(ta) != len(tb):
        return 'longer-with-equal-prefix'
    return 'equal-components'


OPS: T.Dict[str, T.Callable[[int], bool]] = {
    '>=': lambda c: c >= 0,
    '<=': lambda c: c <= 0,
    '!=': lambda c: c != 0,
    '==': lambda c: c == 0,
    '>': lambda c: c > 0,
    '<': lambda c: c < 0,
}

# documented operator spellings, longest first; '=' and "no operator" mean '=='
_SPELLINGS = [('>=', '>='), ('<=', '<='), ('!=', '!='), ('==', '=='), ('=', '=='), ('>', '>'), ('<', '<')]


def parse_constraint(c: str) -> T.Optional[T.Tuple[str, str]]:
    """(canonical operator, version text) — None when the text starts with white space before the
    operator (the documents do not say what that means; the check treats it as consistency-only)."""
    if c[:1].isspace() and c.strip()[:1] in ('>', '<', '=', '!'):
        return None
    for spell, op in _SPELLINGS:
        if c.startswith(spell):
            return op, c[len(spell):].strip()
    return '==', c.strip()


def satisfies(v: str, constraint: str) -> T.Optional[bool]:
    p = parse_constraint(constraint)
    if p is None:
        return None
    op, w = p
    return OPS[op](cmp(v, w))


# ---- intervals -----------------------------------------------------------------------------
# A spec is (min|None, min_eq, max|None, max_eq) with version *strings*.
Spec = T.Tuple[T.Optional[str], bool, T.Optional[str], bool]


def in_spec(spec: Spec, v: str) -> bool:
    lo, lo_eq, hi, hi_eq = spec
    if lo is not None:
        c = cmp(v, lo)
        if c < 0 or (c == 0 and not lo_eq):
            return False
    if hi is not None:
        c = cmp(v, hi)
        if c > 0 or (c == 0 and not hi_eq):
            return False
    return True


def spec_closed(spec: Spec) -> bool:
    lo, lo_eq, hi, hi_eq = spec
    return (lo is None or lo_eq) and (hi is None or hi_eq)


def closed_always(outer: Spec, inner: Spec) -> T.Optional[bool]:
    """For two closed, non-empty intervals whose bounds are not the least version: is every / no
    version of `outer` inside `inner`?  Exact (below a non-least version and above any version there
    is always another version, and a closed bound belongs to its interval).  None = some but not all."""
    a, _, b, _ = outer
    c, _, d, _ = inner
    lo_ok = c is None or (a is not None and cmp(c, a) <= 0)
    hi_ok = d is None or (b is not None and cmp(b, d) <= 0)
    if lo_ok and hi_ok:
        return True
    # disjoint: greatest lower bound above least upper bound
    los = [x for x in (a, c) if x is not None]
    his = [x for x in (b, d) if x is not None]
    if los and his:
        lo = los[0] if len(los) == 1 or cmp(los[0], los[1]) >= 0 else los[1]
        hi = his[0] if len(his) == 1 or cmp(his[0], his[1]) <= 0 else his[1]
        if cmp(lo, hi) > 0:
            return False
    return None
