"""Reference tokenizer for GCC/binutils response files (`@file`), written from libiberty's argv.c
(buildargv/expandargv) — independent of mesonbuild.

Rules (argv.c): arguments are separated by ISSPACE characters (space \\t \\n \\v \\f \\r) outside quotes;
a backslash ALWAYS makes the next character literal (inside single quotes, double quotes or bare) and is
dropped itself (a trailing lone backslash is dropped); '...' and "..." group and are removed; quotes of
the other kind inside a quoted run are literal; adjacent pieces concatenate; '' yields an empty argument.
A file consisting only of whitespace yields no arguments (expandargv's only_whitespace guard).

Works on str where each character is one byte (latin-1 view of the file), or on any str.
`calibrate()` compares this reading with the real gcc driver (`gcc -###`) on the -D class.
"""
from __future__ import annotations

import re
import subprocess
import typing as T

_SPACE = ' \t\n\v\f\r'


def buildargv_spans(text: str) -> T.List[T.Tuple[str, int, int]]:
    """[(argument, start, end)]: text[start:end] is the raw (still quoted) spelling of the argument."""
    nul = text.find('\0')
    if nul >= 0:
        text = text[:nul]
    n = len(text)
    i = 0
    while i < n and text[i] in _SPACE:
        i += 1
    if i >= n:
        return []
    out: T.List[T.Tuple[str, int, int]] = []
    while True:
        while i < n and text[i] in _SPACE:
            i += 1
        start = i
        arg: T.List[str] = []
        squote = dquote = bsquote = False
        while i < n:
            c = text[i]
            if c in _SPACE and not squote and not dquote and not bsquote:
                break
            if bsquote:
                bsquote = False
                arg.append(c)
            elif c == '\\':
                bsquote = True
            elif squote:
                if c == "'":
                    squote = False
                else:
                    arg.append(c)
            elif dquote:
                if c == '"':
                    dquote = False
                else:
                    arg.append(c)
            else:
                if c == "'":
                    squote = True
                elif c == '"':
                    dquote = True
                else:
                    arg.append(c)
            i += 1
        out.append((''.join(arg), start, i))
        while i < n and text[i] in _SPACE:
            i += 1
        if i >= n:
            break
    return out


def buildargv(text: str) -> T.List[str]:
    return [a for a, _, _ in buildargv_spans(text)]


# ---- calibration against the real driver -------------------------------------------------------

def parse_hash3(stderr: str) -> T.List[T.List[str]]:
    """Decode the command lines `gcc -###` prints: one per line starting with a blank; each argument is
    either bare or in double quotes with `"`, `\\` and `$` backslash-escaped (gcc.cc, execute())."""
    cmds: T.List[T.List[str]] = []
    i, n = 0, len(stderr)
    # command lines begin with ' ' at the start of a line; quoted args may contain raw newlines
    while i < n:
        # find start of line
        if stderr[i] != ' ':
            j = stderr.find('\n', i)
            i = n if j < 0 else j + 1
            continue
        args: T.List[str] = []
        while i < n and stderr[i] != '\n':
            if stderr[i] == ' ':
                i += 1
                continue
            if stderr[i] == '"':
                i += 1
                buf = []
                while i < n and stderr[i] != '"':
                    if stderr[i] == '\\' and i + 1 < n:
                        i += 1
                    buf.append(stderr[i])
                    i += 1
                i += 1
                args.append(''.join(buf))
            else:
                j = i
                while j < n and stderr[j] not in ' \n':
                    j += 1
                args.append(stderr[i:j])
                i = j
        i += 1
        if args:
            cmds.append(args)
    return cmds


def gcc_defines_seen(rsp_path: str, gcc: str = 'gcc', timeout: float = 20.0) -> T.Optional[T.List[str]]:
    """What the real gcc driver passes to cc1 as -D values when given @rsp_path (order kept).
    None when the driver could not be run / printed nothing recognisable."""
    try:
        p = subprocess.run([gcc, '-###', '-E', '-x', 'c', '/dev/null', '@' + rsp_path], stdin=subprocess.DEVNULL,
                           stdout=subprocess.PIPE, stderr=subprocess.PIPE, timeout=timeout)
    except (OSError, subprocess.TimeoutExpired):
        return None
    cmds = parse_hash3(p.stderr.decode('latin-1'))
    cc1 = [c for c in cmds if c and re.search(r'(^|/)cc1(plus)?$', c[0])]
    if not cc1:
        return None
    a = cc1[0]
    return [a[k + 1] for k in range(len(a) - 1) if a[k] == '-D']


def defines_of(argv: T.Sequence[str]) -> T.List[str]:
    """The -D values in an argv as the gcc driver would forward them (`-DX=1` and `-D X=1`)."""
    out: T.List[str] = []
    k = 0
    while k < len(argv):
        a = argv[k]
        if a == '-D' and k + 1 < len(argv):
            out.append(argv[k + 1])
            k += 2
            continue
        if a.startswith('-D') and len(a) > 2:
            out.append(a[2:])
        k += 1
    return out


def calibrate_text(text: str, workdir: str, gcc: str = 'gcc') -> T.Tuple[str, dict]:
    """Compare this module's reading of one response-file text with the real libiberty inside the gcc
    driver.  Every raw argument spelling found by buildargv_spans is re-issued as `-DC<i>=<raw spelling>`
    (textual concatenation keeps the quoting under test intact and makes any argument acceptable to the
    driver); `gcc -###` then shows the value the driver really decoded for each.
    Returns ('agree'|'disagree'|'unavailable', detail).  `text` is the latin-1 view of the file bytes."""
    import os
    import tempfile
    spans = buildargv_spans(text)
    if not spans:
        return 'agree', {'n': 0}
    body = '\n'.join(f'-DC{i}=' + text[s:e] for i, (_, s, e) in enumerate(spans))
    fd, path = tempfile.mkstemp(prefix='calib-', suffix='.rsp', dir=workdir)
    try:
        with os.fdopen(fd, 'wb') as f:
            f.write(body.encode('latin-1'))
        seen = gcc_defines_seen(path, gcc)
    finally:
        try:
            os.unlink(path)
        except OSError:
            pass
    if seen is None:
        return 'unavailable', {}
    mine = [f'C{i}=' + a for i, (a, _, _) in enumerate(spans)]
    if seen == mine:
        return 'agree', {'n': len(mine)}
    k = next((j for j in range(min(len(seen), len(mine))) if seen[j] != mine[j]), min(len(seen), len(mine)))
    return 'disagree', {'index': k, 'gcc': seen[k:k + 2], 'buildargv': mine[k:k + 2], 'n_gcc': len(seen), 'n_mine': len(mine)}
