"""C12 reference oracle and offline checker (imports nothing from mesonbuild).

Inputs of check_run(): the generated project + invocation (vf/gen/gen_c12.py), the probes' event log, the lines of
meson-logs/testlog.json, stdout / exit status of `meson test`, the records of the in-process monitors and the
post-return liveness of the probes' pids.  Output: violations [(mechanism, detail)], inconclusive reasons, counters.

Only load-independent conclusions are verdicts:
  * an overlap of two probe intervals is an overlap of two live processes (intervals lie inside lifetimes);
  * a count of START events per (test, iteration);
  * classification by the scripted exit status / TAP stream, where a TIMEOUT of a test that is not a scripted
    victim (or a non-TIMEOUT of a victim that managed to write END) is counted inconclusive, never a violation;
  * a probe that is still alive after `meson test` has returned.
"""
from __future__ import annotations

import json
import re
import typing as T

BAD = {'FAIL', 'ERROR', 'TIMEOUT', 'UNEXPECTEDPASS', 'INTERRUPT'}
ALL_RESULTS = {'OK', 'TIMEOUT', 'INTERRUPT', 'SKIP', 'FAIL', 'EXPECTEDFAIL', 'UNEXPECTEDPASS', 'ERROR', 'IGNORED'}
SUMMARY_ROWS = {'Ok': {'OK'}, 'Expected Fail': {'EXPECTEDFAIL'}, 'Fail': {'FAIL', 'ERROR', 'INTERRUPT'},
                'Unexpected Pass': {'UNEXPECTEDPASS'}, 'Skipped': {'SKIP'}, 'Ignored': {'IGNORED'},
                'Timeout': {'TIMEOUT'}}
DEFAULT_TIMEOUT = 30


# ---- selection -----------------------------------------------------------------------------------
def _in_suites(t: dict, sels: T.Sequence[str], project: str = 'p') -> bool:
    """Unit-tests.md: `--suite name`, `--suite project:name`; project may be omitted (`:name`)."""
    mine = [(project, s) for s in t['suites']] or [(project, '')]
    for sel in sels:
        if ':' in sel:
            prj, st = sel.split(':', 1)
        else:
            prj, st = sel, ''
        for mp, ms in mine:
            if not st:
                if prj in (mp, ms):
                    return True
            elif not prj:
                if ms == st:
                    return True
            elif mp == prj and ms == st:
                return True
    return False


def selected(proj: dict, inv: dict) -> T.List[str]:
    """Names selected by --suite/--no-suite (before --slice), in any order."""
    out = []
    for t in proj['tests']:
        if inv['no_suites'] and _in_suites(t, inv['no_suites']):
            continue
        if inv['suites'] and not _in_suites(t, inv['suites']):
            continue
        out.append(t['name'])
    return out


# ---- classification ------------------------------------------------------------------------------
def _pick(vals: T.Sequence[int], it: int) -> int:
    return vals[min(max(it, 1), len(vals)) - 1]


def effective_timeout(t: dict, inv: dict) -> T.Optional[float]:
    to = DEFAULT_TIMEOUT if t['timeout'] is None else t['timeout']
    if to <= 0:
        return None
    m = inv.get('tmult')
    if m is None:
        return float(to)
    if m <= 0:
        return None
    return to * m


def is_active_victim(t: dict, inv: dict, it: int) -> bool:
    et = effective_timeout(t, inv)
    # a victim outlives its limit either itself (dur) or through a leaked helper holding its stdout (leak)
    return bool(t['victim']) and et is not None and et * 1000 * 4 <= max(_pick(t['dur'], it), t.get('leak', 0))


def exit_of(t: dict, it: int) -> int:
    """What the harness must see as returncode: 0..255, or -N for a scripted death by signal N."""
    rc = _pick(t['rc'], it)
    return rc if rc < 0 else rc & 0xFF


def tap_has_result_line(t: dict) -> bool:
    """Does the scripted TAP stream contain at least one subtest line that is not a skip?"""
    return any(x in ('ok', 'notok', 'todo') for x in (t['tap'] or '').split(','))


def xml_mode(t: dict, it: int) -> str:
    """(gtest) what the program does to the XML report in this iteration."""
    return _pick((t.get('xml') or 'none').split('/'), it)


def rust_shape(t: dict) -> str:
    """(rust) the scripted libtest lines as a whole; which names carry the FAILED lines."""
    items = [x.partition('.') for x in (t.get('rust') or [])]
    failed = [k for k, _, r in items if r == 'fail']
    if failed:
        return 'fail-on-decorated-name-only' if all(k in ('p', 'dp', 'dc', 'dn') for k in failed) else 'fail-on-plain-name'
    if not items:
        return 'no-tests'
    if all(r.startswith('ign') for _, _, r in items):
        return 'all-ignored'
    return 'all-ok-some-decorated' if any(k in ('p', 'dp', 'dc', 'dn') for k, _, _ in items) else 'all-ok-plain'


def expected_results(t: dict, it: int) -> T.Set[str]:
    """Acceptable classifications of a run that ran to completion (no timeout, no interrupt)."""
    rc = exit_of(t, it)
    if t['protocol'] in ('exitcode', 'gtest'):
        # gtest: Unit-tests.md only says that the program's XML report is folded into the junit log - the
        # classification is the exit-status rule of the property, whatever the report looks like
        if rc == 0:
            base = 'OK'
        elif rc == 77:
            base = 'SKIP'
        elif rc == 99:
            base = 'ERROR'
        else:
            base = 'FAIL'        # any other status, a death by signal included
        bases = {base}
    elif t['protocol'] == 'rust':
        # the documents only name the protocol ("for native rust tests").  The generator scripts what libtest itself
        # produces: a FAILED line for some test <=> exit status 101, so lines and exit-status rule agree on good/bad;
        # FAIL or ERROR is not fixed, nor is OK or SKIP for a binary that ran nothing
        shape = rust_shape(t)
        if shape.startswith('fail'):
            return {'FAIL', 'ERROR', 'EXPECTEDFAIL'} if t['should_fail'] else {'FAIL', 'ERROR'}
        if shape in ('no-tests', 'all-ignored'):
            return {'SKIP', 'UNEXPECTEDPASS'} if t['should_fail'] else {'SKIP', 'OK'}
        bases = {'OK'}
    else:
        items = (t['tap'] or '').split(',')
        if rc != 0:
            # a TAP test whose program exits non-zero or is killed by a signal - whatever it printed before, also
            # nothing at all or only skips: the documents do not say FAIL or ERROR; it must be bad
            if t['should_fail']:
                return {'FAIL', 'ERROR', 'EXPECTEDFAIL'}
            return {'FAIL', 'ERROR'}
        if 'bail' in items:
            base = 'ERROR'
        elif 'notok' in items:
            base = 'FAIL'
        elif t['tap'] == 'skipall':
            base = 'SKIP'
        elif not tap_has_result_line(t):
            # exit 0 with no output / only skipped subtests: not fixed by the documents (never generated)
            return {'SKIP', 'OK', 'ERROR'}
        else:
            base = 'OK'
        bases = {base}
    out = set()
    for b in bases:
        if t['should_fail'] and b == 'OK':
            out.add('UNEXPECTEDPASS')
        elif t['should_fail'] and b == 'FAIL':
            out.add('EXPECTEDFAIL')
        else:
            out.add(b)
    return out


def rc_class(t: dict, it: int) -> str:
    rc = exit_of(t, it)
    k = 'signal' if rc < 0 else {0: 'exit0', 77: 'exit77', 99: 'exit99'}.get(rc, 'exitother')
    if t['protocol'] == 'tap':
        k = 'tap-' + (t['tap'] or 'none').replace(',', '+') + '-' + k
    elif t['protocol'] == 'gtest':
        m = xml_mode(t, it)
        if m == 'none' and '/' in (t.get('xml') or ''):
            m = 'left-by-other-iteration'
        k = 'gtest-report-' + m + '-' + k
    elif t['protocol'] == 'rust':
        k = 'rust-' + rust_shape(t) + '-' + k
    if t['should_fail']:
        k += '-should_fail'
    return k


# ---- parsing -------------------------------------------------------------------------------------
_SUMMARY_RE = re.compile(r'^(Ok|Expected Fail|Fail|Unexpected Pass|Skipped|Ignored|Timeout):\s+(\d+)\s*$', re.M)


def parse_summary(out: str) -> T.Optional[T.Dict[str, int]]:
    found = _SUMMARY_RE.findall(out)
    if not found:
        return None
    res = {k: 0 for k in SUMMARY_ROWS}
    seen = set()
    for k, v in found:
        if k in seen:
            return None     # printed twice: let the caller flag it
        seen.add(k)
        res[k] = int(v)
    return res


def parse_events(text: str) -> T.Tuple[T.List[dict], int]:
    evs, bad = [], 0
    for line in text.splitlines():
        if not line.strip():
            continue
        try:
            e = json.loads(line)
            evs.append(e)
        except ValueError:
            bad += 1
    return evs, bad


def entry_id(e: dict) -> T.Tuple[T.Optional[str], int]:
    """(test id, iteration) of a testlog.json entry: from its command line (the probe's first argument)."""
    tid = None
    cmd = e.get('command') or []
    for i, a in enumerate(cmd):
        if isinstance(a, str) and a.endswith('c12_probe.py') and i + 1 < len(cmd):
            tid = cmd[i + 1]
            break
    if tid is None:
        n = e.get('name', '')
        tid = n.rsplit(':', 1)[-1] if ':' in n else None
    try:
        it = int((e.get('env') or {}).get('MESON_TEST_ITERATION', '1'))
    except ValueError:
        it = 1
    return tid, it


# ---- intervals -----------------------------------------------------------------------------------
def intervals(evs: T.Sequence[dict]) -> T.Tuple[T.Dict[int, dict], T.List[str]]:
    """pid -> {'id','it','pid','s','e','ended','term'}; anomalies of the log itself."""
    runs: T.Dict[int, dict] = {}
    anomalies = []
    for e in evs:
        pid = e['pid']
        if e['ev'] == 'START':
            if pid in runs:
                # pid reuse inside one run: keep both under distinct keys
                pid = -len(runs) - 1
            runs[pid] = {'id': e['id'], 'it': e['it'], 'pid': e['pid'], 's': e['t'], 'e': e['t'], 'ended': False,
                         'term': False}
        else:
            r = None
            for k, v in runs.items():
                if v['pid'] == e['pid'] and v['id'] == e['id'] and v['it'] == e['it'] and not v['ended']:
                    r = v
            if r is None:
                anomalies.append(f"{e['ev']} without START for {e['id']} pid {e['pid']}")
                continue
            r['e'] = max(r['e'], e['t'])
            if e['ev'] == 'END':
                r['ended'] = True
            elif e['ev'] == 'TERM':
                r['term'] = True
    return runs, anomalies


def max_concurrency(runs: T.Iterable[dict]) -> T.Tuple[int, T.List[str]]:
    pts = []
    for r in runs:
        if r['s'] == r['e']:     # a probe that was killed: known alive only at the instant of START
            pts.append((r['s'], 1, r['id']))
            pts.append((r['e'], 2, r['id']))
        else:
            pts.append((r['s'], 3, r['id']))
            pts.append((r['e'], 0, r['id']))
    # at equal time: ends first, then point intervals, then starts: only strict overlap counts
    pts.sort(key=lambda p: (p[0], p[1]))
    cur: T.List[str] = []
    best = 0
    best_set: T.List[str] = []
    for _, kind, tid in pts:
        if kind in (1, 3):
            cur.append(tid)
            if len(cur) > best:
                best = len(cur)
                best_set = list(cur)
        else:
            cur.remove(tid)
    return best, best_set


def overlaps(a: dict, b: dict) -> bool:
    return a['s'] < b['e'] and b['s'] < a['e']


def _probe_crashed(es: T.Optional[T.Sequence[dict]]) -> bool:
    """The probe itself died with a Python traceback before it could log (disk full, fd limit...): environment."""
    for e in es or []:
        if 'Traceback (most recent call last)' in str(e.get('stderr', '')) + str(e.get('stdout', '')):
            return True
    return False


# ---- the checker ---------------------------------------------------------------------------------
def check_run(proj: dict, inv: dict, evs: T.Sequence[dict], testlog: T.Optional[T.Sequence[dict]], out: str,
              rc: int, records: T.Sequence[dict], alive: T.Sequence[dict], traceback: bool) -> dict:
    V: T.List[T.Tuple[str, dict]] = []
    inc: T.List[str] = []
    C: T.Dict[str, int] = {}

    def cnt(k: str, n: int = 1) -> None:
        C[k] = C.get(k, 0) + n

    by = {t['name']: t for t in proj['tests']}
    sel = selected(proj, inv)
    selset = set(sel)
    repeat = inv['repeat']
    j = inv['j']

    # --slice i/n with 1 <= i <= n <= number of selected tests names a non-empty slice: the invocation has to be
    # accepted.  Rejected = ended with a non-zero status without starting any test and without a test log.
    sl = inv.get('slice')
    slice_rejected = False
    if sl and 1 <= sl[0] <= sl[1] <= len(sel):
        cnt('monitor:slice_accepted')
        cnt('cov:slice_digits_i%d_n%d' % (len(str(sl[0])), len(str(sl[1]))))
        if rc != 0 and testlog is None and not any(e.get('ev') == 'START' for e in evs) \
                and not any(r.get('ev') == 'h_start' for r in records):
            slice_rejected = True
            kind = 'usage-error' if rc == 2 else ('traceback' if traceback else 'rc%d' % rc)
            V.append(('valid-slice-rejected:' + kind,
                      {'slice': list(sl), 'selected': len(sel), 'rc': rc, 'out_tail': out[-400:]}))
    if (traceback or rc not in (0, 1)) and not (slice_rejected and not traceback):
        V.append(('internal-error', {'rc': rc, 'out_tail': out[-800:]}))

    # leaked helpers (probe mode leak=) log C* events under their own pid; they are kept out of the interval sweeps
    helpers: T.Dict[int, dict] = {}
    for e in evs:
        if str(e.get('ev', '')).startswith('C'):
            h = helpers.setdefault(e['pid'], {'pid': e['pid'], 'ppid': e.get('ppid'), 'id': e['id'], 'it': e['it'],
                                              'ended': False, 'term': False})
            if e['ev'] == 'CEND':
                h['ended'] = True
            elif e['ev'] == 'CTERM':
                h['term'] = True
    evs = [e for e in evs if not str(e.get('ev', '')).startswith('C')]
    cnt('monitor:helpers_seen', len(helpers))
    runs, anomalies = intervals(evs)
    if anomalies:
        inc.append('probe-log-anomaly')
    rl = list(runs.values())

    # --- harness-side records
    h_start = [r for r in records if r.get('ev') == 'h_start']
    h_result = [r for r in records if r.get('ev') == 'h_result']
    h_final = [r for r in records if r.get('ev') == 'h_final']
    h_started = {(r['name'], r['it']) for r in h_start}
    cnt('monitor:harness_run', len(h_start))
    cnt('monitor:harness_result', len(h_result))
    cnt('diag:harness_overlap', sum(1 for r in records if r.get('ev') == 'h_overlap'))
    cnt('diag:shake_sleeps', sum(r.get('n', 0) for r in records if r.get('ev') == 'h_shake'))
    sigrecs = [r for r in records if r.get('ev') == 'h_signal']

    def signals_for(name: T.Any, it: T.Any, pid: T.Any) -> T.List[dict]:
        """Signals the harness sent to this run's process (group).  Pids are recycled quickly on a busy machine, also
        inside one `meson test`: only signals sent after this run's run() was entered belong to it."""
        st = next((h for h in h_start if h['name'] == name and h['it'] == it), None)
        since = st['t'] if st is not None else 0
        return [x for x in sigrecs if x.get('pid') == pid and x.get('t', 0) >= since]
    for r in records:
        if r.get('ev') != 'h_reported':
            continue
        # the harness reports a test as timed out / interrupted: it must have tried to terminate the process and
        # the process must not be running any more.  Both are facts about calls made, not about clocks.
        cnt('monitor:kill_reported')
        srecs = signals_for(r.get('name'), r.get('it'), r.get('pid'))
        sigs = [x['sig'] for x in srecs]
        gave_up = 'could not be killed' in str(r.get('additional_error'))
        if r.get('res') == 'TIMEOUT':
            # the limit can be observed late (load) but never early: time from run() entry to the first signal
            t = by.get(r.get('name'))
            st = next((h for h in h_start if h['name'] == r.get('name') and h['it'] == r.get('it')), None)
            fs = srecs[0] if srecs else None
            if t is not None and st is not None and fs is not None:
                et = effective_timeout(t, inv)
                cnt('monitor:timeout_not_early')
                if et is not None and (fs['t'] - st['t']) < 0.9 * et * 1e9:
                    V.append(('timeout-fired-before-limit', {'test': r.get('name'), 'effective_timeout_s': et,
                                                             'elapsed_s': (fs['t'] - st['t']) / 1e9}))
            if not sigs:
                V.append(('timeout-reported-but-process-never-signalled', {'record': r}))
            if r.get('alive') and not gave_up:
                V.append(('timeout-reported-while-process-still-running', {'record': r, 'signals': sigs}))
        else:
            if not sigs:
                cnt('diag:interrupt_reported_but_never_signalled')
            if r.get('alive'):
                cnt('diag:interrupt_reported_while_still_running')

    limit_passed = [r for r in records if r.get('ev') == 'h_limit_passed']

    # --- testlog entries
    entries: T.Dict[T.Tuple[str, int], T.List[dict]] = {}
    for e in testlog or []:
        tid, it = entry_id(e)
        entries.setdefault((tid, it), []).append(e)
    results: T.Dict[T.Tuple[str, int], str] = {k: v[0].get('result') for k, v in entries.items()}

    # --- the harness itself found the limit passed with the process or its pipes still pending: then the run must be
    #     reported TIMEOUT and the process group must have been signalled (facts about calls, not about clocks)
    maxfail_hit_possible = inv['maxfail'] > 0
    for r in limit_passed:
        cnt('monitor:limit_passed')
        k = (r.get('name'), r.get('it'))
        res = results.get(k)
        if res != 'TIMEOUT':
            if maxfail_hit_possible and res in (None, 'INTERRUPT'):
                cnt('diag:limit_passed_then_cut_short')
            else:
                t = by.get(k[0]) or {}
                V.append(('limit-passed-but-not-reported-TIMEOUT:' + str(res) +
                          (':pipe-held-by-descendant' if t.get('leak') else ''),
                          {'test': k[0], 'iteration': k[1], 'result': res, 'limit_s': r.get('timeout'),
                           'signals_sent': [x['sig'] for x in signals_for(k[0], k[1], r.get('pid'))]}))
        if not signals_for(k[0], k[1], r.get('pid')):
            if not (maxfail_hit_possible and res in (None, 'INTERRUPT')):
                V.append(('limit-passed-but-process-group-never-signalled', {'test': k[0], 'iteration': k[1],
                                                                             'result': res}))

    # --- A. start counts
    starts: T.Dict[T.Tuple[str, int], int] = {}
    for r in rl:
        starts[(r['id'], r['it'])] = starts.get((r['id'], r['it']), 0) + 1
    cnt('monitor:probe_starts', len(rl))
    for (tid, it), n in sorted(starts.items()):
        if n > 1:
            V.append(('test-started-twice', {'test': tid, 'iteration': it, 'starts': n}))
        if tid not in selset:
            V.append(('unselected-test-started', {'test': tid, 'selected': sel}))
    # may the run have been cut short?  decided from the SCRIPT of what did start (oracle), not from meson's word
    bad_started = 0      # runs that MAY legitimately be classified bad
    surely_bad = 0       # runs that MUST be classified bad
    for (tid, it) in set(starts) | set(results):
        t = by.get(tid)
        if t is None:
            continue
        if is_active_victim(t, inv, it):
            bad_started += 1
            surely_bad += 1
            continue
        exp = expected_results(t, it)
        if exp & BAD:
            bad_started += 1
            if exp <= BAD:
                surely_bad += 1
    cut_allowed = (inv['maxfail'] > 0 and bad_started >= inv['maxfail']) or (repeat > 1 and bad_started > 0)
    if cut_allowed:
        cnt('cov:cut_short_allowed')
    # repetition labels (MESON_TEST_ITERATION) are treated as opaque: at most `repeat` of them, each complete
    labels = sorted({it for (_, it) in starts} | {it for (_, it) in results})
    if len(labels) > repeat:
        V.append(('more-repetitions-than-requested', {'labels': labels, 'repeat': repeat}))
    if inv['slice'] is None:
        missing = [(n, it) for it in labels for n in sel if (n, it) not in starts]
        whole = max(0, repeat - len(labels)) if sel else 0
        if cut_allowed:
            if missing or whole:
                cnt('cov:cut_short_observed')
        else:
            if whole:
                V.append(('repetition-missing', {'labels': labels, 'repeat': repeat, 'selected': len(sel)}))
            for p in missing:
                res = results.get(p)
                if res in ('TIMEOUT', 'INTERRUPT') and p in h_started:
                    cnt('inconclusive:killed-before-START')
                    continue
                if _probe_crashed(entries.get(p)):
                    inc.append('probe-crashed')
                    continue
                V.append(('selected-test-not-started', {'test': p[0], 'iteration': p[1], 'result': res,
                                                        'harness_started': p in h_started}))
        cnt('monitor:exactly_once', len(sel) * repeat)
    # harness-side: run() at most once per (test, iteration)
    seen_h: T.Set[T.Tuple[str, int]] = set()
    for r in h_start:
        k = (r['name'], r['it'])
        if k in seen_h:
            V.append(('harness-ran-test-twice', {'test': k[0], 'iteration': k[1]}))
        seen_h.add(k)

    # --- B. serial isolation,  C. job bound  (probe intervals only)
    cnt('monitor:overlap_sweep')
    ser = [r for r in rl if r['id'] in by and not by[r['id']]['parallel']]
    cnt('monitor:serial_intervals', len(ser))
    reported = set()
    for s in ser:
        for o in rl:
            if o is s or not overlaps(s, o):
                continue
            key = tuple(sorted((s['pid'], o['pid'])))
            if key in reported:
                continue
            reported.add(key)
            if s['s'] < o['s']:
                mech = 'serial-overlap:other-started-during-serial-test'
            else:
                mech = 'serial-overlap:serial-test-started-while-other-running'
            if not by.get(o['id'], {'parallel': True})['parallel']:
                mech += ':both-serial'
            V.append((mech, {'serial': s, 'other': o, 'overlap_ns': min(s['e'], o['e']) - max(s['s'], o['s'])}))
    mc, mset = max_concurrency(rl)
    if mc > j:
        V.append(('job-bound-exceeded', {'num_processes': j, 'observed': mc, 'tests': mset}))
    cnt('cov:max_concurrency_%d' % min(mc, 9))
    if j > 1 and mc >= j:
        cnt('cov:job_bound_saturated')
        cnt('cov:job_bound_saturated_j%d' % j)

    # --- D. classification
    timeouts_inconclusive = False
    if testlog is None:
        if sel and not (inv['slice'] and inv['slice'][1] > len(sel)) and not slice_rejected:
            V.append(('testlog-missing', {'selected': len(sel)}))
    else:
        for (tid, it), es in sorted(entries.items(), key=lambda kv: (str(kv[0][0]), kv[0][1])):
            t = by.get(tid)
            if t is None:
                V.append(('testlog-unknown-test', {'entry': es[0].get('name')}))
                continue
            if len(es) > 1:
                V.append(('testlog-duplicate-entry', {'test': tid, 'iteration': it, 'n': len(es)}))
            e = es[0]
            res = e.get('result')
            cnt('monitor:classification')
            if res not in ALL_RESULTS:
                V.append(('testlog-unknown-result', {'test': tid, 'result': res}))
                continue
            if bool(e.get('is_fail')) != (res in BAD):
                V.append(('testlog-is_fail-inconsistent', {'test': tid, 'result': res, 'is_fail': e.get('is_fail')}))
            run = next((r for r in rl if r['id'] == tid and r['it'] == it), None)
            victim = is_active_victim(t, inv, it)
            if res == 'INTERRUPT':
                if inv['maxfail'] > 0 and bad_started >= inv['maxfail']:
                    cnt('cov:result_INTERRUPT')
                    if exit_of(t, it) != 0 or t['should_fail'] or t['protocol'] == 'tap':
                        cnt('cov:interrupted_in_flight_test_not_plain_exit0')
                    if run is not None and run['ended'] and not victim:
                        cnt('diag:interrupt_after_END')
                else:
                    V.append(('interrupt-without-maxfail', {'test': tid, 'iteration': it}))
                continue
            if victim:
                leaky = t.get('leak', 0) > 0 and _pick(t['dur'], it) < t.get('leak', 0)
                if leaky:
                    hl = [h for h in helpers.values() if h['id'] == tid and h['it'] == it]
                    finished = bool(hl) and all(h['ended'] for h in hl)
                else:
                    finished = run is not None and run['ended']
                if res == 'TIMEOUT':
                    cnt('cov:result_TIMEOUT')
                    cnt('cov:leaky_victim_TIMEOUT' if leaky else 'cov:victim_term_' + t['term'])
                    if t['protocol'] == 'gtest':
                        cnt('cov:gtest_victim_TIMEOUT_report_' +
                            ('half-written' if xml_mode(t, it) in ('cut', 'full', 'lie') else 'absent'))
                    if leaky and t.get('leakterm') == 'ignore':
                        cnt('cov:leaky_sigterm_ignoring_helper_probe')
                    if finished:
                        cnt('diag:timeout_but_END_logged')
                elif finished or (leaky and run is None):
                    timeouts_inconclusive = True
                    cnt('inconclusive:victim-finished-before-timeout-fired')
                else:
                    V.append(('timeout-misclassified:' + str(res), {'test': tid, 'iteration': it, 'result': res,
                                                                    'effective_timeout': effective_timeout(t, inv),
                                                                    'scripted_ms': _pick(t['dur'], it)}))
                continue
            exp = expected_results(t, it)
            if res == 'TIMEOUT' and effective_timeout(t, inv) is None:
                V.append(('timeout-although-timeouts-disabled', {'test': tid, 'timeout': t['timeout'],
                                                                 'multiplier': inv.get('tmult')}))
                continue
            if run is None and _probe_crashed(es):
                if 'probe-crashed' not in inc:
                    inc.append('probe-crashed')
                timeouts_inconclusive = True
                continue
            if res == 'TIMEOUT':
                # a non-victim hit its (generous) limit: machine load, not a verdict
                timeouts_inconclusive = True
                cnt('inconclusive:load-timeout')
                if 'load-timeout' not in inc:
                    inc.append('load-timeout')
                continue
            cnt('cov:result_' + res)
            cnt('cov:class_' + rc_class(t, it))
            # how the limit was declared (0 and negative mean "no limit") x multiplier given or not
            to = t['timeout']
            kind = 'default' if to is None else 'zero' if to == 0 else 'negative' if to < 0 else 'positive'
            cnt('cov:timeout_kw_' + kind + ('_with_multiplier' if inv.get('tmult') is not None else ''))
            if to is not None and to <= 0 and res in ('FAIL', 'ERROR', 'EXPECTEDFAIL', 'UNEXPECTEDPASS', 'SKIP'):
                cnt('cov:nolimit_test_non_OK_classification')
            if t['suites']:
                cnt('cov:classified_tests_in_suites')
            if res not in exp:
                V.append((f'misclassified:{rc_class(t, it)}:expected-{"|".join(sorted(exp))}:got-{res}',
                          {'test': tid, 'iteration': it, 'spec': t, 'result': res, 'returncode': e.get('returncode')}))
            if max(t.get('out', 0), t.get('err', 0)) > 65536:
                cnt('cov:output_over_64KiB_without_newline_' + ('stdout' if t.get('out') else 'stderr'))
            if t['protocol'] == 'tap' and t.get('desc') in ('hash', 'sharp') and tap_has_result_line(t):
                cnt('cov:tap_description_with_hash_' + ('failing' if 'notok' in (t['tap'] or '') else 'passing'))
            if exit_of(t, it) < 0:
                cnt('cov:death_by_signal_' + t['protocol'])
            if t['protocol'] == 'gtest':
                m = xml_mode(t, it)
                cnt('cov:gtest_report_' + m)
                ek = rc_class(dict(t, protocol='exitcode', should_fail=False), it)
                if m in ('cut', 'empty', 'garbage'):
                    cnt('cov:gtest_unreadable_report_' + ek)
                elif m == 'lie':
                    cnt('cov:gtest_contradicting_report_' + ek)
                if t['should_fail'] and m in ('cut', 'empty', 'garbage'):
                    cnt('cov:gtest_unreadable_report_should_fail')
            elif t['protocol'] == 'rust':
                cnt('cov:rust_' + rust_shape(t) + ('_should_fail' if t['should_fail'] else ''))
                nsub = next((h.get('nsub') for h in h_result if h.get('name') == tid and h.get('it') == it), None)
                if nsub is not None and run is not None and run['ended']:
                    cnt('monitor:rust_subtests_seen')
                    if nsub != len(t.get('rust') or []):
                        # not part of the property (subtests are not in the totals): diagnostics only
                        cnt('diag:rust_subtests_differ_from_result_lines')
            if t['protocol'] == 'tap' and exit_of(t, it) != 0 and not tap_has_result_line(t):
                cnt('cov:tap_no_result_line_but_bad_exit')
            if run is not None and run['ended'] and e.get('returncode') != exit_of(t, it):
                V.append(('returncode-mismatch', {'test': tid, 'scripted': _pick(t['rc'], it),
                                                  'logged': e.get('returncode')}))

        # --- E. tallies: testlog vs printed summary vs harness monitor
        tally = {k: 0 for k in SUMMARY_ROWS}
        for k, res in results.items():
            for row, members in SUMMARY_ROWS.items():
                if res in members:
                    tally[row] += len(entries[k])
        summ = parse_summary(out)
        cnt('monitor:summary_compare')
        if summ is None:
            if entries:
                V.append(('summary-missing', {'out_tail': out[-600:]}))
        elif summ != tally:
            diff = {k: [tally[k], summ[k]] for k in tally if tally[k] != summ[k]}
            V.append(('summary-mismatch:' + '+'.join(sorted(diff)), {'testlog_vs_printed': diff}))
        htally = {k: 0 for k in SUMMARY_ROWS}
        for r in h_result:
            for row, members in SUMMARY_ROWS.items():
                if r.get('res') in members:
                    htally[row] += 1
        if h_result or entries:
            cnt('monitor:tally_crosscheck')
            if htally != tally:
                V.append(('testlog-vs-harness-results-mismatch', {'testlog': tally, 'harness': htally}))
        if h_final:
            f = h_final[-1]
            cmap = {'Ok': 'success_count', 'Expected Fail': 'expectedfail_count', 'Fail': 'fail_count',
                    'Unexpected Pass': 'unexpectedpass_count', 'Skipped': 'skip_count', 'Ignored': 'ignored_count',
                    'Timeout': 'timeout_count'}
            hc = {row: f['counts'].get(attr) for row, attr in cmap.items()}
            if hc != tally:
                V.append(('harness-counters-vs-testlog-mismatch', {'testlog': tally, 'counters': hc}))
        # every probe that started has an entry and vice versa
        for k in starts:
            if k not in entries and k[0] in by:
                if inv['maxfail'] > 0 and bad_started >= inv['maxfail']:
                    cnt('diag:started-but-unreported-after-maxfail')   # in flight when the run was cut short
                else:
                    V.append(('started-test-missing-from-testlog', {'test': k[0], 'iteration': k[1]}))
        for k in entries:
            if k not in starts and k[0] in by:
                if results[k] in ('TIMEOUT', 'INTERRUPT'):
                    cnt('inconclusive:killed-before-START')
                elif _probe_crashed(entries[k]):
                    inc.append('probe-crashed')
                else:
                    V.append(('testlog-entry-without-process', {'test': k[0], 'iteration': k[1], 'result': results[k]}))

        # --- F. exit status
        cnt('monitor:exit_status')
        any_bad_logged = any(res in BAD for res in results.values())
        if any_bad_logged and rc == 0:
            V.append(('exit-status-zero-despite-bad-result',
                      {'bad': sorted({r for r in results.values() if r in BAD})}))
        if not any_bad_logged and rc != 0 and rc in (0, 1):
            V.append(('exit-status-nonzero-without-bad-result',
                      {'results': sorted(set(results.values())), 'rc': rc}))
        # against the script (independent of meson's own classification)
        if not timeouts_inconclusive:
            if surely_bad and rc == 0:
                V.append(('exit-status-zero-despite-scripted-failure', {'surely_bad': surely_bad}))
            if not bad_started and rc == 1 and not any(r == 'INTERRUPT' for r in results.values()):
                V.append(('exit-status-nonzero-all-scripted-good',
                          {'results': sorted(set(results.values()))}))
            if not bad_started:
                cnt('cov:all_good_run')
    if testlog is None and not sel:
        cnt('cov:empty_selection')
        if rc != 0:
            V.append(('exit-status-nonzero-empty-selection', {'rc': rc}))

    # --- G. nothing left running
    cnt('monitor:pids_gone', len(rl))
    for a in alive:
        res = results.get((a.get('id'), a.get('it')))
        if a.get('helper'):
            # a leaked descendant of the test (same process group) survived `meson test`
            t = by.get(a.get('id'), {})
            if res == 'TIMEOUT':
                V.append(('descendant-left-running-after-TIMEOUT:sigterm-' + str(t.get('leakterm', 'default')),
                          {'pid': a['pid'], 'test': a.get('id'), 'helper': helpers.get(a['pid'])}))
            else:
                cnt('diag:descendant_left_running:' + str(res))
            continue
        if res in (None, 'INTERRUPT'):
            # in flight when the run was cut short by --maxfail: the property does not speak about it
            cnt('diag:process_left_running_after_interrupt')
            continue
        V.append(('process-left-running:' + str(res), {'pid': a['pid'], 'test': a.get('id'), 'result': res,
                                                        'term': by.get(a.get('id'), {}).get('term')}))

    # --- H. priority order (Unit-tests.md: higher priority is started first), harness side, per iteration
    last: T.Dict[int, T.Tuple[int, str]] = {}
    cnt('monitor:priority_order')
    for r in h_start:
        t = by.get(r['name'])
        if t is None:
            continue
        p = last.get(r['it'])
        if p is not None and t['priority'] > p[0]:
            V.append(('priority-order', {'started': r['name'], 'priority': t['priority'], 'after': p[1],
                                         'after_priority': p[0]}))
        last[r['it']] = (t['priority'], r['name'])

    order = [r['id'] for r in sorted(rl, key=lambda r: r['s'])]
    # how often did the processes come to life in another order than the one they were launched in?
    pos = {t['name']: i for i, t in enumerate(proj['tests'])}
    seq = [(r['it'], pos.get(r['id'], -1)) for r in sorted(rl, key=lambda r: r['s'])]
    if any(a > b for a, b in zip(seq, seq[1:])):
        cnt('cov:runs_START_order_differs_from_launch_order')
    return {'violations': V, 'inconclusive': inc, 'counters': C, 'order': order, 'started': sorted(starts),
            'selected': sel, 'max_conc': mc}


def check_slice_group(proj: dict, invs: T.Sequence[dict], started_sets: T.Sequence[T.Sequence[str]],
                      partial: bool = False, rejected: T.Optional[T.Sequence[bool]] = None
                      ) -> T.List[T.Tuple[str, dict]]:
    """--slice i/n for i = 1..n partitions the selected tests.
    partial: only some i of 1..n were run - the slices seen must be disjoint and inside the selection (the union is
    not judged).  rejected[k]: invocation k ended non-zero without starting a test; for n <= number of selected tests
    check_run reports that per invocation.  For n > number of selected tests the documents do not say whether the
    slicing is refused or yields empty slices: demanded is one answer for all i - refused for every i, or accepted
    for every i and then a partition."""
    V: T.List[T.Tuple[str, dict]] = []
    sel = set(selected(proj, invs[0]))
    n_sl = invs[0]['slice'][1]
    if rejected is not None and n_sl > len(sel):
        if all(rejected):
            return V
        if any(rejected):
            V.append(('slice-oversized-n:refused-for-some-i-only',
                      {'n': n_sl, 'selected': len(sel),
                       'refused_i': [inv['slice'][0] for inv, r in zip(invs, rejected) if r],
                       'accepted_i': [inv['slice'][0] for inv, r in zip(invs, rejected) if not r]}))
            return V
    seen: T.Dict[str, int] = {}
    for inv, st in zip(invs, started_sets):
        for n in set(st):
            if n in seen:
                V.append(('slice-overlap', {'test': n, 'slices': [seen[n], inv['slice'][0]], 'n': inv['slice'][1]}))
            seen[n] = inv['slice'][0]
    miss = sorted(sel - set(seen)) if not partial else []
    if miss:
        V.append(('slice-union-misses-tests', {'missing': miss, 'n': invs[0]['slice'][1], 'selected': len(sel)}))
    extra = sorted(set(seen) - sel)
    if extra:
        V.append(('slice-runs-unselected', {'extra': extra}))
    return V
