"""refoptions -- reference model of Meson option resolution (C07 precedence part).

Written from the documentation only; imports nothing from mesonbuild:

  * docs/markdown/Builtin-options.md   "Universal options" (directory defaults that depend on the
    prefix), "Core options" (defaults, choices, the "Per subproject" column), "Details for
    buildtype" (buildtype -> debug/optimization table), "Specifying options per subproject"
    (the eight-step order), "Module options".
  * docs/markdown/Machine-files.md     precedence "1) Command line 2) Machine file 3) Build system
    definitions"; sections [built-in options] / [project options] / [<sub>:...].
  * docs/markdown/Build-options.md     option kinds, their defaults when `value` is omitted,
    "Yielding to superproject option" (incl. "Since 1.8.0 -Dsub:opt sets the value separately").
  * the statement of property C07.

Cells the documents do not order are returned with documented=False and a set of admissible
values (consistency-only).  The C08 lifecycle model is to be added to this file by another builder;
everything here is in plain functions prefixed resolve_* / valid_* / render*.
"""
from __future__ import annotations

import typing as T

Value = T.Union[str, int, bool, T.List[str]]

# ---------------------------------------------------------------------------------------------
# Sources, in increasing priority.

# top-level project:  declared default < project(default_options) < machine file < command line
TOP_SOURCES: T.Tuple[str, ...] = ('proj', 'mfile', 'cmd')

# subproject, Builtin-options.md "Specifying options per subproject" ("overridden in this order"):
SUB_SOURCES: T.Tuple[str, ...] = (
    'parent_opt',     # 1  opt=value       parent project(default_options)
    'sub_own',        # 2  opt=value       subproject's own project(default_options)
    'mfile_opt',      # 3  opt=value       machine file
    'cmd_opt',        # 4  opt=value       command line
    'parent_subopt',  # 5  subp:opt=value  parent project(default_options)
    'subcall',        # 6  opt=value       subproject(default_options:)
    'mfile_subopt',   # 7  subp:opt=value  machine file
    'cmd_subopt',     # 8  subp:opt=value  command line
)
# the three sources that address the *global / parent* option; mapping to the top-level names
GLOBAL_OF_SUB = {'parent_opt': 'proj', 'mfile_opt': 'mfile', 'cmd_opt': 'cmd'}
SUB_SPECIFIC: T.Tuple[str, ...] = ('sub_own', 'parent_subopt', 'subcall', 'mfile_subopt', 'cmd_subopt')


class Resolution(T.NamedTuple):
    value: T.Any                 # expected effective value (None when not documented)
    winner: T.Optional[str]      # name of the winning source, 'default', or 'parent' (yielding)
    documented: bool             # False: the documents do not decide this cell
    allowed: T.Optional[T.List[T.Any]]   # for undocumented cells: values that would be consistent


def _last_present(order: T.Sequence[str], present: T.Mapping[str, T.Any]) -> T.Optional[str]:
    win = None
    for s in order:
        if s in present:
            win = s
    return win


def resolve_top(present: T.Mapping[str, T.Any], default: T.Any) -> Resolution:
    """Top-level project: command line > machine file > project(default_options) > declared default.
    `present` maps a subset of TOP_SOURCES (or of the SUB_SOURCES names that address the global
    option) to the value that source sets."""
    norm: T.Dict[str, T.Any] = {}
    for k, v in present.items():
        k = GLOBAL_OF_SUB.get(k, k)
        if k in TOP_SOURCES:
            norm[k] = v
    win = _last_present(TOP_SOURCES, norm)
    if win is None:
        return Resolution(default, 'default', True, None)
    return Resolution(norm[win], win, True, None)


def resolve_sub(scope: str, present: T.Mapping[str, T.Any], default: T.Any,
                parent_default: T.Any = None) -> Resolution:
    """Effective value seen by get_option() inside the subproject.

    scope:
      'builtin_persub'  built-in option the table marks "Per subproject" (and compiler options):
                        the eight-step order applies; with no source the global default.
      'builtin_global'  built-in option marked "Per subproject: no": a single global value, so the
                        subproject sees what the top level sees; subproject-specific sources are
                        not documented (consistency-only).
      'project'         the subproject's own option from its meson.options (the parent may have an
                        option of the same name: without `yield` the two are separate values, so
                        the three sources that say plain `opt=value` outside the subproject address
                        the parent's option, not this one).
      'project_yield'   same, declared `yield: true`, parent has an option of that name and type:
                        the parent's value; `-Dsub:opt=` sets it separately (since 1.8.0).  What
                        the other subproject-specific sources do to a yielding option is not
                        documented (consistency-only).
    """
    if scope == 'builtin_persub':
        win = _last_present(SUB_SOURCES, present)
        if win is None:
            return Resolution(default, 'default', True, None)
        return Resolution(present[win], win, True, None)
    if scope == 'builtin_global':
        top = resolve_top(present, default)
        specific = [s for s in SUB_SPECIFIC if s in present]
        if not specific:
            return Resolution(top.value, top.winner, True, None)
        return Resolution(None, None, False, [top.value] + [present[s] for s in specific])
    if scope == 'project':
        sub_only = {s: v for s, v in present.items() if s in SUB_SPECIFIC}
        win = _last_present(SUB_SOURCES, sub_only)
        if win is None:
            return Resolution(default, 'default', True, None)
        return Resolution(sub_only[win], win, True, None)
    if scope == 'project_yield':
        parent = resolve_top(present, parent_default)
        specific = [s for s in SUB_SPECIFIC if s in present]
        if not specific:
            return Resolution(parent.value, 'parent', True, None)
        if 'cmd_subopt' in present:
            return Resolution(present['cmd_subopt'], 'cmd_subopt', True, None)
        own = resolve_sub('project', present, default)
        return Resolution(None, None, False, [parent.value, own.value])
    raise ValueError(scope)


# ---------------------------------------------------------------------------------------------
# buildtype <-> debug / optimization  (Builtin-options.md "Details for buildtype")

BUILDTYPE_TABLE: T.Dict[str, T.Tuple[bool, str]] = {
    # buildtype        debug  optimization
    'plain':          (False, 'plain'),
    'debug':          (True,  '0'),
    'debugoptimized': (True,  '2'),
    'release':        (False, '3'),
    'minsize':        (True,  's'),
}
BUILDTYPE_DEFAULTS = {'buildtype': 'debug', 'debug': True, 'optimization': '0'}


def resolve_buildtype(order: T.Sequence[str],
                      present: T.Mapping[str, T.Mapping[str, T.Any]]) -> T.Dict[str, Resolution]:
    """Joint resolution of buildtype / debug / optimization.

    `present[source]` maps a subset of {'buildtype','debug','optimization'} to the value that
    source gives.  "-Dbuildtype=X is the same as -Ddebug=.. -Doptimization=.." (documented), and the
    property adds "unless they are given explicitly": inside one source an explicit debug /
    optimization beats the pair implied by that source's buildtype; across sources the normal
    priority decides.  `order` is TOP_SOURCES or SUB_SOURCES (increasing priority).
    The value of `buildtype` itself is only decided when nothing sets debug/optimization explicitly
    at a priority at or above the winning buildtype (the documented reverse mapping to 'custom'
    is not part of C07's statement)."""
    out_val = dict(BUILDTYPE_DEFAULTS)
    out_win = {'buildtype': 'default', 'debug': 'default', 'optimization': 'default'}
    for s in order:
        given = present.get(s)
        if not given:
            continue
        bt = given.get('buildtype')
        if bt is not None:
            out_val['buildtype'], out_win['buildtype'] = bt, s
            if bt in BUILDTYPE_TABLE:
                out_val['debug'], out_val['optimization'] = BUILDTYPE_TABLE[bt]
                out_win['debug'] = out_win['optimization'] = s + ':buildtype'
        for k in ('debug', 'optimization'):
            if k in given:
                out_val[k], out_win[k] = given[k], s
    res: T.Dict[str, Resolution] = {}
    for k in ('debug', 'optimization'):
        res[k] = Resolution(out_val[k], out_win[k], True, None)
    # buildtype: documented only when it is consistent with the table for the resolved pair
    bt = out_val['buildtype']
    pair_ok = bt in BUILDTYPE_TABLE and BUILDTYPE_TABLE[bt] == (out_val['debug'], out_val['optimization'])
    if pair_ok:
        res['buildtype'] = Resolution(bt, out_win['buildtype'], True, None)
    else:
        res['buildtype'] = Resolution(None, None, False, [bt, 'custom'])
    return res


# ---------------------------------------------------------------------------------------------
# Directory options whose default depends on the prefix (Builtin-options.md "Universal options")

DIR_DEFAULTS: T.Dict[str, str] = {
    'bindir': 'bin', 'datadir': 'share', 'includedir': 'include', 'infodir': 'share/info',
    'libexecdir': 'libexec', 'localedir': 'share/locale', 'localstatedir': 'var',
    'mandir': 'share/man', 'sbindir': 'sbin', 'sharedstatedir': 'com', 'sysconfdir': 'etc',
    'licensedir': '',
}
PREFIX_DEPENDENT: T.Dict[str, T.Dict[str, str]] = {
    'sysconfdir':     {'/usr': '/etc'},
    'localstatedir':  {'/usr': '/var', '/usr/local': '/var/local'},
    'sharedstatedir': {'/usr': '/var/lib', '/usr/local': '/var/local/lib'},
}
DEFAULT_PREFIX = '/usr/local'   # "defaults to C:/ on Windows, and /usr/local otherwise"


def dir_default(name: str, prefix: str) -> str:
    return PREFIX_DEPENDENT.get(name, {}).get(prefix, DIR_DEFAULTS[name])


def resolve_dirs(prefix_present: T.Mapping[str, str],
                 dirs_present: T.Mapping[str, T.Mapping[str, str]]) -> T.Dict[str, Resolution]:
    """prefix by the top-level order; every directory option: explicit value by the top-level
    order, else the default that belongs to the *effective* prefix."""
    p = resolve_top(prefix_present, DEFAULT_PREFIX)
    out = {'prefix': p}
    for name in DIR_DEFAULTS:
        out[name] = resolve_top(dirs_present.get(name, {}), dir_default(name, p.value))
    return out


# ---------------------------------------------------------------------------------------------
# Built-in options used by the C07 workloads: (kind, default, choices/range, per-subproject?)
# transcribed from the tables of Builtin-options.md.

class Spec(T.NamedTuple):
    kind: str                               # string|boolean|integer|combo|array|feature|umask
    default: T.Any
    choices: T.Optional[T.List[str]] = None
    min: T.Optional[int] = None
    max: T.Optional[int] = None
    per_subproject: bool = False


BUILTINS: T.Dict[str, Spec] = {
    'buildtype': Spec('combo', 'debug', ['plain', 'debug', 'debugoptimized', 'release', 'minsize', 'custom'], per_subproject=True),
    'debug': Spec('boolean', True, per_subproject=True),
    'optimization': Spec('combo', '0', ['plain', '0', 'g', '1', '2', '3', 's'], per_subproject=True),
    'default_both_libraries': Spec('combo', 'shared', ['shared', 'static', 'auto'], per_subproject=True),
    'default_library': Spec('combo', 'shared', ['shared', 'static', 'both'], per_subproject=True),
    'namingscheme': Spec('combo', 'classic', ['platform', 'classic'], per_subproject=True),
    'strip': Spec('boolean', False, per_subproject=True),
    'unity': Spec('combo', 'off', ['on', 'off', 'subprojects'], per_subproject=True),
    'unity_size': Spec('integer', 4, min=2, per_subproject=True),
    'warning_level': Spec('combo', '1', ['0', '1', '2', '3', 'everything'], per_subproject=True),
    'werror': Spec('boolean', False, per_subproject=True),
    # "Per subproject: no"
    'auto_features': Spec('feature', 'auto', ['enabled', 'disabled', 'auto']),
    'errorlogs': Spec('boolean', True),
    'install_umask': Spec('umask', 0o022, min=0, max=0o777),
    'layout': Spec('combo', 'mirror', ['mirror', 'flat']),
    'pkg_config_path': Spec('array', []),
    'cmake_prefix_path': Spec('array', []),
    'prefer_static': Spec('boolean', False),
    'stdsplit': Spec('boolean', True),
    'wrap_mode': Spec('combo', 'default', ['default', 'nofallback', 'nodownload', 'forcefallback', 'nopromote']),
    'force_fallback_for': Spec('array', []),
    # module options
    'pkgconfig.relocatable': Spec('boolean', False),
    'python.bytecompile': Spec('integer', 0, min=-1, max=2),
    'python.install_env': Spec('combo', 'prefix', ['auto', 'prefix', 'system', 'venv']),
    'python.platlibdir': Spec('string', ''),
    'python.purelibdir': Spec('string', ''),
    'python.allow_limited_api': Spec('boolean', True),
    # directories (string, default depends on prefix for three of them)
    'prefix': Spec('string', DEFAULT_PREFIX),
    **{d: Spec('string', v) for d, v in DIR_DEFAULTS.items()},
}

# defaults of project options declared without `value:` (Build-options.md)
def kind_default(kind: str, choices: T.Optional[T.Sequence[str]] = None) -> T.Tuple[T.Any, bool]:
    """(default, documented?) when option() gives no value."""
    if kind == 'string':
        return '', True                      # "an empty string will be used as the default"
    if kind == 'boolean':
        return True, True                    # "then true will be used as the default"
    if kind == 'combo':
        return (choices or [None])[0], True  # "the first value will be the default"
    if kind == 'array':
        return list(choices or []), True     # "the values of choices will be used as the default"
    if kind == 'feature':
        return 'auto', False                 # not stated in Build-options.md
    return None, False                       # integer: not stated


# ---------------------------------------------------------------------------------------------
# Validity of a value for an option (type, choices, range) -- "always rejected" half of C07.

def canon(spec: Spec, raw: T.Any) -> T.Tuple[bool, T.Any]:
    """(valid, canonical value).  `raw` is what a source hands over: a str from the command line
    / default_options strings, or a typed value from a machine file (str, int, bool, list)."""
    k = spec.kind
    if k == 'string':
        return (isinstance(raw, str), raw)
    if k == 'boolean':
        if isinstance(raw, bool):
            return True, raw
        if isinstance(raw, str) and raw.lower() in ('true', 'false'):
            return True, raw.lower() == 'true'
        return False, None
    if k in ('integer', 'umask'):
        v: T.Any = raw
        if k == 'umask' and raw == 'preserve':
            return True, 'preserve'
        if isinstance(raw, bool):
            return False, None
        if isinstance(raw, str):
            try:
                v = int(raw, 8) if k == 'umask' else int(raw)
            except ValueError:
                return False, None
        if not isinstance(v, int):
            return False, None
        if spec.min is not None and v < spec.min:
            return False, None
        if spec.max is not None and v > spec.max:
            return False, None
        return True, v
    if k in ('combo', 'feature'):
        ch = spec.choices if k == 'combo' else ['enabled', 'disabled', 'auto']
        return (isinstance(raw, str) and raw in (ch or []), raw)
    if k == 'array':
        if isinstance(raw, str):
            if raw.startswith('['):
                return True, None            # bracket syntax: not modelled here (caller gives lists)
            lst = [x for x in raw.split(',')] if raw else []
        elif isinstance(raw, list):
            lst = raw
        else:
            return False, None
        if not all(isinstance(x, str) for x in lst):
            return False, None
        if spec.choices and any(x not in spec.choices for x in lst):
            return False, None
        return True, lst
    raise ValueError(k)


# ---------------------------------------------------------------------------------------------
# How message('@0@'.format(get_option(x))) prints an elementary value (Syntax.md / A.1)

def render(v: T.Any) -> str:
    if isinstance(v, bool):
        return 'true' if v else 'false'
    if isinstance(v, int):
        return str(v)
    if isinstance(v, list):
        return '[' + ', '.join("'" + x + "'" for x in v) + ']'
    return str(v)
