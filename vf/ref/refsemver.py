"""Reference oracle for C20: SemVer 2.0.0 precedence (section 11) and the comparator rules of
Cargo's `semver` crate (VersionReq::matches), written independently of mesonbuild.

Sources: https://semver.org/#spec-item-11, the Cargo book ("Specifying Dependencies": caret,
tilde, wildcard, comparison, multiple requirements) and the matcher of the `semver` crate that
Cargo uses (eval.rs: matches_exact / matches_greater / matches_less / matches_tilde /
matches_caret / pre_is_compatible), transcribed as rules, not as code from mesonbuild.

Two deviations are pinned by the project's own tests (unittests/cargotests.py) and are
switchable here (both default to the pinned behaviour):

  pad_partial   a partial `=` / `>` comparator pads missing components with zero
                (`= 1` accepts only 1.0.0; `> 1` accepts 1.0.1).  Cargo: `= 1` is 1.x.y, `> 1` is >= 2.0.0.
  zero_caret    an all-zero caret requirement (`0`, `0.0`, `0.0.0`, with or without `^`) means < 1.0.0.
                Cargo: `^0.0` is 0.0.x and `^0.0.0` is exactly 0.0.0.

The pre-release gate has three modes:
  'cargo'  a pre-release version is accepted only if some comparator with the same
           major.minor.patch names a pre-release (semver crate),
  'any'    ... only if some comparator names a pre-release (the rule the code under test documents),
  'none'   no gate (pure ranges).
The property demands only: "a pre-release never satisfies a requirement that names no
pre-release" - which all gated modes imply.

This module must not import mesonbuild.
"""
from __future__ import annotations

import re
import typing as T

Ident = T.Union[int, str]


class RefError(ValueError):
    pass


class Version(T.NamedTuple):
    major: int
    minor: int
    patch: int
    pre: T.Tuple[Ident, ...]
    build: str

    @property
    def is_prerelease(self) -> bool:
        return bool(self.pre)


_NUM = r'(?:0|[1-9][0-9]*)'
_IDENT = r'[0-9A-Za-z-]+'
_VERSION_RE = re.compile(
    rf'^({_NUM})(?:\.({_NUM}))?(?:\.({_NUM}))?(?:-({_IDENT}(?:\.{_IDENT})*))?(?:\+({_IDENT}(?:\.{_IDENT})*))?$')


def _pre_idents(text: T.Optional[str]) -> T.Tuple[Ident, ...]:
    if not text:
        return ()
    out: T.List[Ident] = []
    for part in text.split('.'):
        if part.isdigit() and part.isascii():
            out.append(int(part))
        else:
            out.append(part)
    return tuple(out)


def parse_version(text: str, allow_partial: bool = True) -> Version:
    """x.y.z[-pre][+build]; with allow_partial also x and x.y (missing components are zero,
    as the pinned tests treat '1' == '1.0' == '1.0.0')."""
    m = _VERSION_RE.match(text.strip())
    if not m:
        raise RefError(f'not a version: {text!r}')
    if not allow_partial and (m.group(2) is None or m.group(3) is None):
        raise RefError(f'partial version: {text!r}')
    return Version(int(m.group(1)), int(m.group(2) or 0), int(m.group(3) or 0),
                   _pre_idents(m.group(4)), m.group(5) or '')


def _cmp(a: T.Any, b: T.Any) -> int:
    return (a > b) - (a < b)


def cmp_ident(a: Ident, b: Ident) -> int:
    """SemVer 11.4: numeric identifiers compare numerically, alphanumeric ones in ASCII order,
    numeric identifiers are below alphanumeric ones."""
    an, bn = isinstance(a, int), isinstance(b, int)
    if an and bn:
        return _cmp(a, b)
    if an:
        return -1
    if bn:
        return 1
    return _cmp(a, b)


def cmp_pre(a: T.Tuple[Ident, ...], b: T.Tuple[Ident, ...]) -> int:
    """Empty (a release) is above every pre-release; otherwise field by field, a larger set of
    fields wins when all preceding ones are equal."""
    if not a and not b:
        return 0
    if not a:
        return 1
    if not b:
        return -1
    for x, y in zip(a, b):
        c = cmp_ident(x, y)
        if c:
            return c
    return _cmp(len(a), len(b))


def cmp_version(a: Version, b: Version) -> int:
    """SemVer section 11 precedence; build metadata is ignored."""
    c = _cmp((a.major, a.minor, a.patch), (b.major, b.minor, b.patch))
    if c:
        return c
    return cmp_pre(a.pre, b.pre)


def cmp_str(a: str, b: str) -> int:
    return cmp_version(parse_version(a), parse_version(b))


# ---------------------------------------------------------------------------------------------
# requirements

class Comparator(T.NamedTuple):
    op: str                      # '^' '~' '=' '<' '<=' '>' '>=' '*'(wildcard)
    major: int
    minor: T.Optional[int]
    patch: T.Optional[int]
    pre: T.Tuple[Ident, ...]

    @property
    def partial(self) -> bool:
        return self.minor is None or self.patch is None


_OPS = ('>=', '<=', '>', '<', '=', '^', '~')
_COMP_RE = re.compile(
    rf'^({_NUM})(?:\.({_NUM}|\*))?(?:\.({_NUM}|\*))?(?:-({_IDENT}(?:\.{_IDENT})*))?(?:\+({_IDENT}(?:\.{_IDENT})*))?$')


def parse_comparator(text: str) -> T.Optional[Comparator]:
    """One comparator; None for the bare `*` (matches any release)."""
    s = text.strip()
    if s == '*':
        return None
    op = '^'
    explicit = False
    for o in _OPS:
        if s.startswith(o):
            op, s, explicit = o, s[len(o):].strip(), True
            break
    m = _COMP_RE.match(s)
    if not m:
        raise RefError(f'not a comparator: {text!r}')
    major = int(m.group(1))
    g2, g3 = m.group(2), m.group(3)
    wildcard = g2 == '*' or g3 == '*'
    if wildcard:
        if explicit:
            raise RefError(f'operator with wildcard not modelled: {text!r}')
        if g2 == '*' and g3 not in (None, '*'):
            raise RefError(f'number after wildcard: {text!r}')
        if m.group(4):
            raise RefError(f'pre-release with wildcard: {text!r}')
        return Comparator('*', major, None if g2 == '*' else int(g2), None, ())
    minor = int(g2) if g2 is not None else None
    patch = int(g3) if g3 is not None else None
    pre = _pre_idents(m.group(4))
    if pre and patch is None:
        raise RefError(f'pre-release on a partial version: {text!r}')
    return Comparator(op, major, minor, patch, pre)


def parse_req(text: str) -> T.List[Comparator]:
    """Comma list of comparators.  The empty list means "any release"."""
    s = text.strip()
    if not s:
        raise RefError('empty requirement')
    out: T.List[Comparator] = []
    parts = s.split(',')
    for p in parts:
        c = parse_comparator(p)
        if c is None:
            if len(parts) != 1:
                raise RefError('`*` must be the only comparator')
            return []
        out.append(c)
    return out


def names_prerelease(req: T.Sequence[Comparator]) -> bool:
    return any(c.pre for c in req)


# --- the semver crate's matcher (rules) --------------------------------------------------------

def _exact(c: Comparator, v: Version) -> bool:
    if v.major != c.major:
        return False
    if c.minor is not None and v.minor != c.minor:
        return False
    if c.patch is not None and v.patch != c.patch:
        return False
    return v.pre == c.pre


def _greater(c: Comparator, v: Version) -> bool:
    if v.major != c.major:
        return v.major > c.major
    if c.minor is None:
        return False
    if v.minor != c.minor:
        return v.minor > c.minor
    if c.patch is None:
        return False
    if v.patch != c.patch:
        return v.patch > c.patch
    return cmp_pre(v.pre, c.pre) > 0


def _less(c: Comparator, v: Version) -> bool:
    if v.major != c.major:
        return v.major < c.major
    if c.minor is None:
        return False
    if v.minor != c.minor:
        return v.minor < c.minor
    if c.patch is None:
        return False
    if v.patch != c.patch:
        return v.patch < c.patch
    return cmp_pre(v.pre, c.pre) < 0


def _tilde(c: Comparator, v: Version) -> bool:
    if v.major != c.major:
        return False
    if c.minor is not None and v.minor != c.minor:
        return False
    if c.patch is not None and v.patch != c.patch:
        return v.patch > c.patch
    return cmp_pre(v.pre, c.pre) >= 0


def _caret(c: Comparator, v: Version) -> bool:
    if v.major != c.major:
        return False
    if c.minor is None:
        return True
    if c.patch is None:
        if c.major > 0:
            return v.minor >= c.minor
        return v.minor == c.minor
    if c.major > 0:
        if v.minor != c.minor:
            return v.minor > c.minor
        if v.patch != c.patch:
            return v.patch > c.patch
    elif c.minor > 0:
        if v.minor != c.minor:
            return False
        if v.patch != c.patch:
            return v.patch > c.patch
    elif v.minor != c.minor or v.patch != c.patch:
        return False
    return cmp_pre(v.pre, c.pre) >= 0


def _is_zero_caret(c: Comparator) -> bool:
    return c.op == '^' and c.major == 0 and not c.minor and not c.patch


def comparator_matches(c: Comparator, v: Version, pad_partial: bool = True, zero_caret: bool = True) -> bool:
    if pad_partial and c.op in ('=', '>') and c.partial:
        c = c._replace(minor=c.minor or 0, patch=c.patch or 0)
    if zero_caret and _is_zero_caret(c):
        # deviation: >= 0.0.0[-pre], < 1.0.0
        low = Version(0, 0, 0, c.pre, '')
        return cmp_version(v, low) >= 0 and cmp_version(v, Version(1, 0, 0, (), '')) < 0
    if c.op in ('=', '*'):
        return _exact(c, v)
    if c.op == '>':
        return _greater(c, v)
    if c.op == '>=':
        return _exact(c, v) or _greater(c, v)
    if c.op == '<':
        return _less(c, v)
    if c.op == '<=':
        return _exact(c, v) or _less(c, v)
    if c.op == '~':
        return _tilde(c, v)
    if c.op == '^':
        return _caret(c, v)
    raise RefError(f'unknown operator {c.op!r}')


def gate_open(req: T.Sequence[Comparator], v: Version, gate: str = 'cargo') -> bool:
    if not v.pre or gate == 'none':
        return True
    if gate == 'any':
        return names_prerelease(req)
    if gate == 'cargo':
        return any(c.pre and c.major == v.major and c.minor == v.minor and c.patch == v.patch for c in req)
    raise RefError(f'unknown gate {gate!r}')


def matches(req: T.Union[str, T.Sequence[Comparator]], ver: T.Union[str, Version], *,
            pad_partial: bool = True, zero_caret: bool = True, gate: str = 'cargo') -> bool:
    r = parse_req(req) if isinstance(req, str) else req
    v = parse_version(ver) if isinstance(ver, str) else ver
    for c in r:
        if not comparator_matches(c, v, pad_partial, zero_caret):
            return False
    return gate_open(r, v, gate)


# --- second reading: requirements as intervals of the section-11 order -----------------------------
# The Cargo book describes every comparator as a range (`^1.2.3 := >=1.2.3, <2.0.0`, ...).  Evaluating
# those ranges in SemVer order is the other natural reading (and the one the code under test documents).
# For release versions it coincides with the matcher above (selftest checks that); for pre-release
# versions the two readings differ (e.g. `<2.0.0` vs `2.0.0-alpha`), which is why the check only
# demands an outcome for pre-release versions where both agree.

_INF = Version(10 ** 9, 0, 0, (), '')


def comparator_interval(c: Comparator, pad_partial: bool = True, zero_caret: bool = True
                        ) -> T.Tuple[Version, bool, Version, bool]:
    """(low, low_inclusive, high, high_inclusive) of one comparator."""
    M, m, p = c.major, c.minor, c.patch
    m0, p0 = m or 0, p or 0
    low = Version(M, m0, p0, c.pre, '')
    zero = Version(0, 0, 0, (), '')

    def rel(a: int, b: int, cc: int) -> Version:
        return Version(a, b, cc, (), '')
    if pad_partial and c.op in ('=', '>') and c.partial:
        m, p = m0, p0
    if c.op == '^':
        if zero_caret and _is_zero_caret(c):
            return low, True, rel(1, 0, 0), False
        if M > 0 or m is None:
            return low, True, rel(M + 1, 0, 0), False
        if m > 0 or p is None:
            return low, True, rel(0, m + 1, 0), False
        return low, True, rel(0, 0, p + 1), False
    if c.op == '~':
        return low, True, (rel(M + 1, 0, 0) if m is None else rel(M, m + 1, 0)), False
    if c.op == '*':
        return low, True, (rel(M + 1, 0, 0) if m is None else rel(M, m + 1, 0)), False
    if c.op == '=':
        if m is None:
            return low, True, rel(M + 1, 0, 0), False
        if p is None:
            return low, True, rel(M, m + 1, 0), False
        return low, True, low, True
    if c.op == '>':
        if m is None:
            return rel(M + 1, 0, 0), True, _INF, False
        if p is None:
            return rel(M, m + 1, 0), True, _INF, False
        return low, False, _INF, False
    if c.op == '>=':
        return low, True, _INF, False
    if c.op == '<':
        return zero._replace(pre=(0,)), True, low, False      # 0.0.0-0 is the least version
    if c.op == '<=':
        least = zero._replace(pre=(0,))
        if m is None:
            return least, True, rel(M + 1, 0, 0), False
        if p is None:
            return least, True, rel(M, m + 1, 0), False
        return least, True, low, True
    raise RefError(f'unknown operator {c.op!r}')


def range_matches(req: T.Union[str, T.Sequence[Comparator]], ver: T.Union[str, Version], *,
                  pad_partial: bool = True, zero_caret: bool = True, gate: str = 'any') -> bool:
    r = parse_req(req) if isinstance(req, str) else req
    v = parse_version(ver) if isinstance(ver, str) else ver
    for c in r:
        lo, lo_inc, hi, hi_inc = comparator_interval(c, pad_partial, zero_caret)
        a = cmp_version(v, lo)
        b = cmp_version(v, hi)
        if a < 0 or (a == 0 and not lo_inc) or b > 0 or (b == 0 and not hi_inc):
            return False
    return gate_open(r, v, gate)


# ---------------------------------------------------------------------------------------------
# The expectations of unittests/cargotests.py::CargoVersionTest.test_cargo_parse, transcribed:
# (requirement, accepted, rejected).  selftest() must pass before the oracle is trusted.

PINNED_CASES: T.List[T.Tuple[str, T.List[str], T.List[str]]] = [
    ('>= 1', ['1', '1.0', '1.5', '2'], ['0.9']),
    ('> 1', ['1.0.1', '1.5', '2'], ['0.9', '1']),
    ('= 1', ['1', '1.0', '1.0.0'], ['0.9', '1.0.1', '2']),
    ('< 1', ['0.9'], ['1', '1.0', '2']),
    ('>= 1.0', ['1', '1.0', '1.0.0', '1.5'], ['0.9']),
    ('>= 1.0.0', ['1', '1.0', '1.0.0', '1.5'], ['0.9']),
    ('> 1.0', ['1.0.1', '1.5', '2'], ['0.9', '1', '1.0']),
    ('> 1.0.0', ['1.0.1', '1.5', '2'], ['0.9', '1', '1.0', '1.0.0']),
    ('<= 1', ['0.9', '1', '1.0', '1.5', '1.99'], ['2', '2.0']),
    ('<= 1.1', ['1.0', '1.1', '1.1.5'], ['1.2', '2']),
    ('<= 1.1.1', ['1.0', '1.1', '1.1.1'], ['1.1.2', '1.2']),
    ('~1', ['1', '1.5', '1.99'], ['0.9', '2']),
    ('~1.1', ['1.1', '1.1.5'], ['1.0', '1.2', '2']),
    ('~1.1.2', ['1.1.2', '1.1.5'], ['1.1.1', '1.2.0']),
    ('*', ['0.1', '1', '99.99'], []),
    ('1.*', ['1', '1.5'], ['0.9', '2']),
    ('2.3.*', ['2.3', '2.3.5'], ['2.2', '2.4']),
    ('2', ['2', '2.5'], ['1', '3']),
    ('2.4', ['2.4', '2.5'], ['2.3', '3']),
    ('2.4.5', ['2.4.5', '2.6'], ['2.4.4', '3']),
    ('0.0.0', ['0', '0.0.0', '0.0.5', '0.5'], ['1']),
    ('0.0', ['0', '0.5', '0.999'], ['1']),
    ('0', ['0', '0.5'], ['1']),
    ('0.0.5', ['0.0.5'], ['0.0.4', '0.0.6']),
    ('0.5.0', ['0.5.0', '0.5.5'], ['0.4.0', '0.6']),
    ('0.5', ['0.5', '0.5.5'], ['0.4', '0.6']),
    ('1.0.45', ['1.0.45', '1.5'], ['1.0.44', '2']),
    ('^2', ['2', '2.5'], ['1', '3']),
    ('^2.4', ['2.4', '2.5'], ['2.3', '3']),
    ('^2.4.5', ['2.4.5', '2.6'], ['2.4.4', '3']),
    ('^1.0', ['1', '1.0', '1.0.0', '1.5'], ['0.9', '2']),
    ('^1.0.0', ['1', '1.0', '1.0.0', '1.5'], ['0.9', '2']),
    ('^0.0.0', ['0', '0.0.5'], ['1']),
    ('^0.0', ['0', '0.5'], ['1']),
    ('^0', ['0', '0.5'], ['1']),
    ('^0.0.5', ['0.0.5'], ['0.0.4', '0.0.6']),
    ('^0.5.0', ['0.5.0', '0.5.5'], ['0.4.0', '0.6']),
    ('^0.5', ['0.5', '0.5.5'], ['0.4', '0.6']),
    ('>= 1.2.3, < 1.4.7', ['1.2.3', '1.3.0'], ['1.2.2', '1.4.7', '1.5']),
    ('>= 1.0', ['1.0', '1.5', '2'], ['2.0-pre1', '1.5-pre1']),
    ('^1', ['1', '1.5'], ['1.5.0-pre', '2.0-pre']),
    ('>= 1.0.0-alpha',
     ['1.0.0-alpha', '1.0.0-alpha.1', '1.0.0-beta', '1.0.0', '1.5'],
     ['1.0.0-alph', '0.9']),
    ('>= 1.0.0-alpha, < 1.0.0',
     ['1.0.0-alpha', '1.0.0-beta', '1.0.0-rc.1'],
     ['1.0.0', '0.9']),
]

# SemVer.org section 11 example chain
ORDER_CHAIN = ['1.0.0-alpha', '1.0.0-alpha.1', '1.0.0-alpha.beta', '1.0.0-beta',
               '1.0.0-beta.2', '1.0.0-beta.11', '1.0.0-rc.1', '1.0.0']

# What Cargo itself does where the project deviates (documented in the Cargo book / semver crate docs);
# used by selftest() to make sure the flags really switch between the two readings.
CARGO_STRICT = [
    ('=1', '1.0.1', True), ('=1.2', '1.2.9', True), ('=1.2', '1.3.0', False),
    ('>1', '1.0.1', False), ('>1', '2.0.0', True), ('>1.2', '1.2.1', False), ('>1.2', '1.3.0', True),
    ('^0.0', '0.0.9', True), ('^0.0', '0.1.0', False), ('^0.0.0', '0.0.0', True), ('^0.0.0', '0.0.1', False),
    ('0.0', '0.5.0', False), ('^0', '0.5.0', True),
]


def check_cases(cases: T.Iterable[T.Tuple[str, T.Sequence[str], T.Sequence[str]]], **kw: T.Any) -> T.List[str]:
    bad: T.List[str] = []
    for req, acc, rej in cases:
        for v in acc:
            if not matches(req, v, **kw):
                bad.append(f'{req!r} should accept {v!r}')
        for v in rej:
            if matches(req, v, **kw):
                bad.append(f'{req!r} should reject {v!r}')
    return bad


def selftest() -> T.List[str]:
    """Calibration: the pinned expectations (both gated modes), the semver.org order chain and
    the documented Cargo behaviour with the deviation flags off."""
    bad = check_cases(PINNED_CASES, gate='cargo') + check_cases(PINNED_CASES, gate='any')
    for lo, hi in zip(ORDER_CHAIN, ORDER_CHAIN[1:]):
        if not (cmp_str(lo, hi) < 0 and cmp_str(hi, lo) > 0):
            bad.append(f'order {lo} < {hi}')
    if cmp_str('1.0.0+a', '1.0.0') != 0 or cmp_str('1.0.0-2', '1.0.0-10') >= 0 or cmp_str('1.0.0-rc.1a', '1.0.0-rc.2') <= 0:
        bad.append('order: build metadata / numeric / alphanumeric identifiers')
    for req, v, want in CARGO_STRICT:
        if matches(req, v, pad_partial=False, zero_caret=False) != want:
            bad.append(f'cargo-strict {req!r} {v!r} want {want}')
    # Cargo book tables
    book = [('1.2.3', '1.2.3', True), ('1.2.3', '1.9.0', True), ('1.2.3', '2.0.0', False),
            ('0.2.3', '0.2.9', True), ('0.2.3', '0.3.0', False), ('0.0.3', '0.0.3', True), ('0.0.3', '0.0.4', False),
            ('~1.2.3', '1.2.9', True), ('~1.2.3', '1.3.0', False), ('~1.2', '1.2.0', True), ('~1.2', '1.3.0', False),
            ('~1', '1.9.9', True), ('~1', '2.0.0', False), ('1.*', '1.9.9', True), ('1.2.*', '1.3.0', False),
            ('>= 1.2.0', '1.2.0', True), ('> 1', '2.0.0', True), ('< 2', '1.9.9', True), ('= 1.2.3', '1.2.3', True),
            ('>= 1.2, < 1.5', '1.4.9', True), ('>= 1.2, < 1.5', '1.5.0', False),
            ('<=1.2', '1.2.9', True), ('<=1.2', '1.3.0', False), ('<=1', '1.9.9', True),
            ('<=1.0.0-alpha', '1.0.0', False), ('<=1.0.0-alpha', '0.9.9', True), ('*', '1.0.0-alpha', False),
            ('>=1.0.0-alpha', '1.0.1-beta', False), ('^1.2.3-alpha', '1.2.3', True), ('1.2.3', '1.2.3+b', True)]
    for req, v, want in book:
        if matches(req, v, pad_partial=False, zero_caret=False) != want:
            bad.append(f'cargo-book {req!r} {v!r} want {want}')
    # the two readings coincide on release versions (both flag settings)
    import itertools
    reqs = [op + v for op in ('', '^', '~', '=', '<', '<=', '>', '>=')
            for v in ('0', '1', '0.0', '0.2', '1.0', '1.2', '0.0.0', '0.0.2', '0.2.0', '0.2.1', '1.0.0', '1.2.3', '1.2.3-alpha')]
    reqs += ['1.*', '0.*', '1.2.*', '0.0.*', '>=1.2.3-alpha, <1.3', '>0.2, <=1.2']
    vers = ['%d.%d.%d' % t for t in itertools.product(range(4), repeat=3)]
    for flags in ((True, True), (False, False)):
        for req in reqs:
            for ver in vers:
                if matches(req, ver, pad_partial=flags[0], zero_caret=flags[1]) != \
                        range_matches(req, ver, pad_partial=flags[0], zero_caret=flags[1]):
                    bad.append(f'matcher and interval reading differ on a release: {req!r} {ver!r} flags={flags}')
    if range_matches('^1.2.3-alpha', '2.0.0-alpha') is not True or matches('^1.2.3-alpha', '2.0.0-alpha') is not False:
        bad.append('readings should differ on ^1.2.3-alpha vs 2.0.0-alpha')
    if not (range_matches('^1.2.3-alpha', '1.2.3-beta') and matches('^1.2.3-alpha', '1.2.3-beta')):
        bad.append('readings should both accept ^1.2.3-alpha vs 1.2.3-beta')
    return bad


if __name__ == '__main__':
    problems = selftest()
    print('\n'.join(problems) or 'refsemver selftest ok')
    raise SystemExit(1 if problems else 0)
