"""Reference oracle for C20: Cargo/Rust cfg() predicates, written independently of mesonbuild.

Grammar (Rust reference, "Conditional compilation"; Cargo's cargo-platform crate):

    predicate := IDENT | IDENT '=' STRING | 'all' '(' list? ')' | 'any' '(' list? ')' | 'not' '(' predicate ')'
    list      := predicate (',' predicate)*          -- trailing comma: see below
    IDENT     := [A-Za-z_][A-Za-z0-9_]*
    STRING    := '"' [^"]* '"'                        -- no escapes modelled
    blanks between tokens are insignificant

classify(text) is three-valued:
  ('ok', ast)            well-formed: the value is the Boolean value of the structure
  ('malformed', why)     must be rejected
  ('unspecified', why)   the documents this oracle is written from do not settle it (or the project's
                         tests pin a stricter reading): only the exception-type policy applies.
Unspecified on purpose:
  * `all` / `any` / `not` used as a plain name (rustc accepts `cfg(all)` as a name, Cargo rejects it),
  * characters outside the token alphabet above (`a-b`, `a.b`, backslash escapes, raw strings, `'`).
A trailing comma in an argument list is legal for rustc and Cargo but unittests/cargotests.py
(test_parse_invalid: 'all(unix,)') pins it as rejected; `trailing_comma='reject'` (default) follows
the pinned test, 'accept' follows Cargo, 'unspecified' demands nothing.

Evaluation against cfgs (name -> value; a bare `--cfg name` is stored with value ''):
  name            true iff name is a key
  name = "value"  true iff cfgs.get(name) == value
  all(...) / any(...) / not(x) as in Boolean logic; all() is true, any() is false.

This module must not import mesonbuild.
"""
from __future__ import annotations

import typing as T

KEYWORDS = ('all', 'any', 'not')

# AST: ('name', n) | ('eq', n, v) | ('all', [..]) | ('any', [..]) | ('not', x)
Ast = T.Tuple[T.Any, ...]


class Malformed(Exception):
    pass


class Unspecified(Exception):
    pass


def _is_ident_start(ch: str) -> bool:
    return ch.isascii() and (ch.isalpha() or ch == '_')


def _is_ident_rest(ch: str) -> bool:
    return ch.isascii() and (ch.isalnum() or ch == '_')


def tokenize(text: str) -> T.List[T.Tuple[str, str]]:
    """[(kind, text)] with kind in ident, str, '(', ')', ',', '='."""
    out: T.List[T.Tuple[str, str]] = []
    i, n = 0, len(text)
    while i < n:
        ch = text[i]
        if ch in ' \t\n\r':
            i += 1
        elif ch in '(),=':
            out.append((ch, ch))
            i += 1
        elif ch == '"':
            j = text.find('"', i + 1)
            if j < 0:
                raise Malformed('unterminated string')
            body = text[i + 1:j]
            if '\\' in body:
                raise Unspecified('escape in string')
            out.append(('str', body))
            i = j + 1
        elif _is_ident_start(ch):
            j = i + 1
            while j < n and _is_ident_rest(text[j]):
                j += 1
            out.append(('ident', text[i:j]))
            i = j
        else:
            raise Unspecified(f'character {ch!r} outside the cfg token alphabet')
    return out


class _Parser:
    def __init__(self, toks: T.List[T.Tuple[str, str]], trailing_comma: str) -> None:
        self.toks = toks
        self.i = 0
        self.trailing_comma = trailing_comma
        self.saw_trailing_comma = False

    def peek(self) -> T.Optional[T.Tuple[str, str]]:
        return self.toks[self.i] if self.i < len(self.toks) else None

    def take(self) -> T.Tuple[str, str]:
        if self.i >= len(self.toks):
            raise Malformed('unexpected end')
        t = self.toks[self.i]
        self.i += 1
        return t

    def expect(self, kind: str) -> None:
        t = self.take()
        if t[0] != kind:
            raise Malformed(f'expected {kind!r}, got {t[1]!r}')

    def predicate(self) -> Ast:
        kind, text = self.take()
        if kind != 'ident':
            raise Malformed(f'expected a name, got {text!r}')
        nxt = self.peek()
        if text in KEYWORDS:
            if nxt is None or nxt[0] != '(':
                raise Unspecified(f'keyword {text!r} used as a name')
            self.take()
            if text == 'not':
                inner = self.predicate()
                self.expect(')')
                return ('not', inner)
            args: T.List[Ast] = []
            if self.peek() is not None and self.peek()[0] == ')':
                self.take()
                return (text, args)
            while True:
                args.append(self.predicate())
                kind2, text2 = self.take()
                if kind2 == ')':
                    break
                if kind2 != ',':
                    raise Malformed(f'expected "," or ")", got {text2!r}')
                if self.peek() is not None and self.peek()[0] == ')':
                    self.saw_trailing_comma = True
                    self.take()
                    break
            return (text, args)
        if nxt is not None and nxt[0] == '=':
            self.take()
            kind3, text3 = self.take()
            if kind3 != 'str':
                raise Malformed(f'expected a string after "=", got {text3!r}')
            return ('eq', text, text3)
        return ('name', text)


def parse(text: str, trailing_comma: str = 'reject') -> Ast:
    """Raises Malformed / Unspecified."""
    # Tokenisation problems: an Unspecified character does not excuse a structure that is malformed
    # anyway, but deciding that would need a tolerant tokenizer; keep it simple: unspecified wins.
    toks = tokenize(text)
    p = _Parser(toks, trailing_comma)
    ast = p.predicate()
    if p.peek() is not None:
        raise Malformed(f'trailing {p.peek()[1]!r}')
    if p.saw_trailing_comma:
        if trailing_comma == 'reject':
            raise Malformed('trailing comma (pinned by unittests/cargotests.py)')
        if trailing_comma == 'unspecified':
            raise Unspecified('trailing comma')
    return ast


def classify(text: str, trailing_comma: str = 'reject') -> T.Tuple[str, T.Any]:
    try:
        return ('ok', parse(text, trailing_comma))
    except Malformed as e:
        return ('malformed', str(e))
    except Unspecified as e:
        return ('unspecified', str(e))


def evaluate(ast: Ast, cfgs: T.Mapping[str, str]) -> bool:
    k = ast[0]
    if k == 'name':
        return ast[1] in cfgs
    if k == 'eq':
        return ast[1] in cfgs and cfgs[ast[1]] == ast[2]
    if k == 'not':
        return not evaluate(ast[1], cfgs)
    if k == 'all':
        for a in ast[1]:
            if not evaluate(a, cfgs):
                return False
        return True
    if k == 'any':
        for a in ast[1]:
            if evaluate(a, cfgs):
                return True
        return False
    raise ValueError(f'bad ast {ast!r}')


def render(ast: Ast, style: int = 0) -> str:
    """Concrete syntax of an AST. style 0: canonical `all(a, b)`, `a = "x"`; 1: compact; 2: airy; 3: tabs/newlines."""
    sp_eq = [' = ', '=', '  =  ', '\t=\n'][style % 4]
    sep = [', ', ',', ' , ', ',\n\t'][style % 4]
    lp = ['(', '(', '( ', '(\n'][style % 4]
    rp = [')', ')', ' )', '\n)'][style % 4]

    def r(a: Ast) -> str:
        k = a[0]
        if k == 'name':
            return a[1]
        if k == 'eq':
            return f'{a[1]}{sp_eq}"{a[2]}"'
        if k == 'not':
            return f'not{lp}{r(a[1])}{rp}'
        return f'{k}{lp}{sep.join(r(x) for x in a[1])}{rp}'
    return r(ast)


def depth(ast: Ast) -> int:
    k = ast[0]
    if k in ('name', 'eq'):
        return 0
    if k == 'not':
        return 1 + depth(ast[1])
    return 1 + max([depth(x) for x in ast[1]], default=0)


# expectations of unittests/cargotests.py (CargoCfgTest), transcribed
PINNED_INVALID = ['all(unix,)', 'any(', 'not(', 'not(all(unix,))', 'not(any)', '']
PINNED_EVAL_CFGS = {'target_os': 'unix', 'unix': ''}
PINNED_EVAL = [
    ('target_os = "windows"', False), ('target_os = "unix"', True), ('doesnotexist = "unix"', False),
    ('not(target_os = "windows")', True), ('any(target_os = "windows", target_arch = "x86_64")', False),
    ('any(target_os = "windows", target_os = "unix")', True), ('all(target_os = "windows", target_os = "unix")', False),
    ('all(not(target_os = "windows"), target_os = "unix")', True), ('any(unix, windows)', True),
    ('all()', True), ('any()', False), ('unix', True), ('windows', False),
]


def selftest() -> T.List[str]:
    bad: T.List[str] = []
    for s in PINNED_INVALID:
        kind, _ = classify(s)
        if kind == 'ok':
            bad.append(f'pinned invalid {s!r} classified ok')
    for s, want in PINNED_EVAL:
        kind, ast = classify(s)
        if kind != 'ok' or evaluate(ast, PINNED_EVAL_CFGS) != want:
            bad.append(f'pinned eval {s!r} want {want} got {kind}')
    for s in ['all(a b)', 'not(a, b)', 'not()', 'a =', '= "x"', 'a = "x', 'a"', '(a)', 'a)', 'all(a))', 'a = x', 'all(,a)', 'a,', 'a = "x" b']:
        if classify(s)[0] != 'malformed':
            bad.append(f'{s!r} should be malformed, is {classify(s)}')
    for s in ['all', 'not = "x"', 'a-b', "a = 'x'"]:
        if classify(s)[0] != 'unspecified':
            bad.append(f'{s!r} should be unspecified, is {classify(s)}')
    if classify('a = "p q, (r)"') != ('ok', ('eq', 'a', 'p q, (r)')):
        bad.append('string with delimiters')
    if classify('all(a,)', 'accept') != ('ok', ('all', [('name', 'a')])):
        bad.append('trailing comma accept mode')
    for style in range(4):
        ast = ('all', [('not', ('eq', 'a', 'x')), ('any', []), ('name', 'b')])
        if classify(render(ast, style)) != ('ok', ast):
            bad.append(f'render style {style}')
    return bad


if __name__ == '__main__':
    problems = selftest()
    print('\n'.join(problems) or 'refcfg selftest ok')
    raise SystemExit(1 if problems else 0)
