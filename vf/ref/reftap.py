"""reftap -- an independent TAP 12/13 consumer used as the oracle of C18.

Written from the TAP 12 / TAP 13 specifications (testanything.org) and the wording of property C18.
It does NOT import mesonbuild and uses no regular expression of the code under test.

What a stream means (the reading that is compared against the real parser):

* test line       `ok` / `not ok`, optional number, description up to the first `#`, optional directive
                  `# SKIP<anything>` / `# TODO` (case-insensitive, ASCII).  An unnumbered test gets the previous
                  number + 1 (pinned by unittests/taptests.py::test_out_of_order_missing_numbers).
                  status: ok->OK, not ok->FAIL, ok+SKIP->SKIP, not ok+SKIP->FAIL, ok+TODO->UNEXPECTEDPASS,
                  not ok+TODO->EXPECTEDFAIL.  Any other text after `#` is not a directive (plain result).
* plan            `1..N`, optionally `# SKIP reason`.  Early = before the first test line, otherwise late.
* diagnostics     `#...` in column 0, blank lines, unknown lines: ignored (TAP: unknown lines are not errors).
* YAML block      TAP >= 13 only: an indented `---` line *immediately* after a test line opens a block, an
                  indented `...` closes it, lines indented at least as the opening line are content.  Any other
                  line before the closing marker, or the end of the stream, is "unterminated YAML".
* version         `TAP version N` is only legal as the very first line; N < 13 is unsupported.  A misplaced
                  version line does not change the version.
* Bail out!       the stream is over: nothing after it is interpreted and no end-of-stream accounting is done.
* end of stream   plan/count mismatch (too few / too many); numbering: the multiset of test numbers must be
                  exactly {1..count} (duplicate / missing).

Error kinds are reported as a SET (`Result.errors`, fine-grained) -- `coarse()` folds them to the granularity
the property statement fixes.  `Result.unfixed` lists coarse kinds the statement does not decide for this
stream (e.g. numbering once the count already mismatches the plan; everything plan-related once a second plan
was seen).  `Result.ambiguous` lists reasons why the specification does not fix the reading of some line
(`okay`, `1..3abc`, blank line inside a YAML block, exotic white space ...): for such streams only the
"never raises / contracts" part of the property is decidable.
"""
from __future__ import annotations

import typing as T

# ---- statuses ------------------------------------------------------------------------------
OK = 'OK'
FAIL = 'FAIL'
SKIP = 'SKIP'
EXPECTEDFAIL = 'EXPECTEDFAIL'
UNEXPECTEDPASS = 'UNEXPECTEDPASS'
BAD_STATUSES = frozenset({FAIL, UNEXPECTEDPASS})

# ---- fine-grained error kinds ------------------------------------------------------------------
K_FEW = 'plan-too-few'
K_MANY = 'plan-too-many'
K_DUP = 'duplicate-number'
K_MISSING = 'missing-number'
K_BEYOND = 'number-beyond-plan'          # plan known when the test line was read
K_BEYOND_LATE = 'number-beyond-late-plan'  # informational only: implied by mismatch/numbering at end of stream
K_LATE = 'test-after-late-plan'
K_PLAN2 = 'second-plan'
K_YAML = 'yaml-unterminated'
K_VMIS = 'version-misplaced'
K_VLOW = 'version-unsupported'
K_PLANDIR = 'plan-directive'             # `1..N # SKIP` with N > 0, `1..N # TODO`: not fixed by the statement
K_BAIL = 'bail-out'

# ---- coarse kinds: the items of the property statement ----------------------------------------
C_MISMATCH = 'plan-mismatch'
C_NUMBERING = 'numbering'
COARSE = {
    K_FEW: C_MISMATCH, K_MANY: C_MISMATCH, K_DUP: C_NUMBERING, K_MISSING: C_NUMBERING,
    K_BEYOND: K_BEYOND, K_LATE: K_LATE, K_PLAN2: K_PLAN2, K_YAML: K_YAML, K_VMIS: K_VMIS, K_VLOW: K_VLOW,
}
FIXED_COARSE = frozenset(COARSE.values())


def coarse(kinds: T.Iterable[str]) -> T.Set[str]:
    return {COARSE[k] for k in kinds if k in COARSE}


# ---- line classes -----------------------------------------------------------------------------
L_BLANK = 'blank'
L_DIAG = 'diag'
L_TEST = 'test'
L_PLAN = 'plan'
L_BAIL = 'bail'
L_VERSION = 'version'
L_YSTART = 'yaml-start'
L_YEND = 'yaml-end'
L_INDENTED = 'indented'
L_GARBAGE = 'unknown'

_DIGITS = '0123456789'
# The specification puts no bound on numbers.  CPython refuses to convert more than 4300 digits by default; what a
# consumer does with such a number (other than not crashing) is left open, so those lines are "ambiguous".
MAX_DIGITS = 4300


class Test(T.NamedTuple):
    number: int
    name: str
    result: str
    explanation: T.Optional[str]
    explanation_fixed: bool
    line: int


class Plan(T.NamedTuple):
    num_tests: int
    late: bool
    skipped: bool
    line: int


class Line(T.NamedTuple):
    cls: str
    indent: str               # leading white space (indented classes)
    ok: bool                  # test
    number: T.Optional[int]   # test: explicit number; plan: N; version: N
    name: str
    directive: T.Optional[str]  # 'SKIP' | 'TODO' | 'OTHER' | None
    explanation: T.Optional[str]
    explanation_fixed: bool
    ambiguous: T.Optional[str]


def _line(cls: str, indent: str = '', ok: bool = False, number: T.Optional[int] = None, name: str = '',
          directive: T.Optional[str] = None, explanation: T.Optional[str] = None, explanation_fixed: bool = True,
          ambiguous: T.Optional[str] = None) -> Line:
    return Line(cls, indent, ok, number, name, directive, explanation, explanation_fixed, ambiguous)


def to_int(digits: str) -> int:
    """int() without CPython's 4300-digit str->int guard (chunked)."""
    if len(digits) <= 4000:
        return int(digits)
    n = 0
    for i in range(0, len(digits), 4000):
        chunk = digits[i:i + 4000]
        n = n * (10 ** len(chunk)) + int(chunk)
    return n


def nrepr(n: T.Optional[int]) -> T.Any:
    """a number that is safe to print / put into JSON (no str() of a > 4300-digit int)"""
    if n is None or -10**18 < n < 10**18:
        return n
    return '<huge>'


def _is_word(ch: str) -> bool:
    return ch.isalnum() or ch == '_'


def _ascii_lower_prefix(s: str, n: int) -> str:
    p = s[:n]
    return p.lower() if p.isascii() else ''


def _directive(text: str) -> T.Tuple[T.Optional[str], T.Optional[str], bool]:
    """text = what follows the first '#'.  -> (directive, explanation, explanation_fixed)"""
    d = text.lstrip()
    p = _ascii_lower_prefix(d, 4)
    if p == 'skip':
        j = 4
        while j < len(d) and not d[j].isspace():
            j += 1
        tail = d[4:j]
        expl = d[j:].strip() or None
        return 'SKIP', expl, all(_is_word(c) for c in tail)
    if p == 'todo' and (len(d) == 4 or not _is_word(d[4])):
        expl = d[4:].strip() or None
        return 'TODO', expl, len(d) == 4 or d[4].isspace()
    return None, None, True


def _has_exotic_space(s: str) -> bool:
    for ch in s:
        if ch.isspace() and ch != ' ' and ch != '\t':
            return True
    return False


def _later_directive(text: str) -> bool:
    """a second '#' that looks like a directive (the specification does not say which '#' counts)"""
    parts = text.split('#')[1:]
    return any(_directive(p)[0] is not None for p in parts)


def _classify_test(body: str) -> Line:
    amb = None
    if body.startswith('not ok'):
        ok, rest = False, body[6:]
    else:
        ok, rest = True, body[2:]
    if rest and not rest[0].isspace():
        amb = 'no-space-after-ok'
    r = rest.lstrip()
    i = 0
    while i < len(r) and r[i] in _DIGITS:
        i += 1
    number = to_int(r[:i]) if i else None
    if i > MAX_DIGITS:
        amb = amb or 'number-too-long'
    after = r[i:]
    if i and after and not after[0].isspace() and after[0] != '#':
        amb = amb or 'number-glued-to-text'
    h = after.find('#')
    if h < 0:
        desc, dirtext = after, None
    else:
        desc, dirtext = after[:h], after[h + 1:]
    directive = expl = None
    fixed = True
    if dirtext is not None:
        directive, expl, fixed = _directive(dirtext)
        if directive is None and _later_directive(dirtext):
            amb = amb or 'directive-after-extra-hash'
    if _has_exotic_space(body):
        amb = amb or 'exotic-white-space'
    if directive == 'SKIP' and not ok:
        fixed = False   # a failed test stays failed; what happens to the reason is not stated
    return _line(L_TEST, ok=ok, number=number, name=desc.strip(), directive=directive, explanation=expl,
                 explanation_fixed=fixed, ambiguous=amb)


def _classify_plan(body: str) -> Line:
    r = body[3:]
    i = 0
    while i < len(r) and r[i] in _DIGITS:
        i += 1
    if i == 0:
        return _line(L_GARBAGE)
    n = to_int(r[:i])
    rest = r[i:]
    amb = 'number-too-long' if i > MAX_DIGITS else None
    directive = None
    if rest:
        t = rest.lstrip()
        if t.startswith('#'):
            directive, _, _ = _directive(t[1:])
            if directive is None and _later_directive(t[1:]):
                amb = 'directive-after-extra-hash'
        else:
            amb = 'plan-trailing-text'
    if _has_exotic_space(body):
        amb = amb or 'exotic-white-space'
    return _line(L_PLAN, number=n, directive=directive, ambiguous=amb)


def _classify_version(body: str) -> Line:
    r = body[len('TAP version '):]
    i = 0
    while i < len(r) and r[i] in _DIGITS:
        i += 1
    if i == 0:
        return _line(L_GARBAGE)
    return _line(L_VERSION, number=to_int(r[:i]),
                 ambiguous='number-too-long' if i > MAX_DIGITS else ('version-trailing-text' if r[i:] else None))


_CACHE: T.Dict[str, Line] = {}


def classify(body: str) -> Line:
    """Class of one line (already stripped of trailing white space), independent of parser state."""
    hit = _CACHE.get(body)
    if hit is not None:
        return hit
    ln = _classify(body)
    if len(_CACHE) < 200000 and len(body) < 200:
        _CACHE[body] = ln
    return ln


def _classify(body: str) -> Line:
    if not body:
        return _line(L_BLANK)
    c0 = body[0]
    if c0 == '#':
        return _line(L_DIAG)
    if c0.isspace():
        rest = body.lstrip()
        indent = body[:len(body) - len(rest)]
        exotic = 'exotic-white-space' if _has_exotic_space(indent) else None
        if rest.startswith('---'):
            return _line(L_YSTART, indent=indent,
                         ambiguous=exotic or (None if rest == '---' else 'yaml-start-trailing-text'))
        if rest == '...':
            return _line(L_YEND, indent=indent, ambiguous=exotic)
        if rest.startswith('...'):
            return _line(L_INDENTED, indent=indent, ambiguous='yaml-end-trailing-text')
        return _line(L_INDENTED, indent=indent)
    if body.startswith('ok') or body.startswith('not ok'):
        return _classify_test(body)
    if body.startswith('not') and body[3:].lstrip().startswith('ok'):
        return _line(L_GARBAGE, ambiguous='not-ok-spacing')
    if body.startswith('1..'):
        return _classify_plan(body)
    if body.startswith('Bail out!'):
        return _line(L_BAIL, name=body[len('Bail out!'):].strip(),
                     ambiguous='exotic-white-space' if _has_exotic_space(body) else None)
    if body[:9].lower() == 'bail out!':
        return _line(L_GARBAGE, ambiguous='bail-out-case')
    if body.startswith('TAP version '):
        return _classify_version(body)
    if body[:11].lower() == 'tap version':
        return _line(L_GARBAGE, ambiguous='version-spelling')
    return _line(L_GARBAGE)


class Result:
    __slots__ = ('tests', 'errors', 'plan', 'plans', 'version', 'version_event', 'bailout_line', 'bailout_message',
                 'ambiguous', 'unfixed', 'classes', 'info', 'unknown_lines', 'lines_consumed')

    def __init__(self) -> None:
        self.tests: T.List[Test] = []
        self.errors: T.Set[str] = set()
        self.plan: T.Optional[Plan] = None
        self.plans = 0
        self.version = 12
        self.version_event: T.Optional[int] = None   # an accepted `TAP version N` (N >= 13) on line 1
        self.bailout_line: T.Optional[int] = None
        self.bailout_message: T.Optional[str] = None
        self.ambiguous: T.List[str] = []
        self.unfixed: T.Set[str] = set()
        self.classes: T.List[str] = []
        self.info: T.Set[str] = set()
        self.unknown_lines = 0
        self.lines_consumed = 0

    # ---- the facts the property statement fixes ---------------------------------------------
    def coarse_errors(self) -> T.Set[str]:
        return coarse(self.errors)

    def has_error_event(self) -> bool:
        """some error event must be reported (any kind, including the ones only pinned by the unit tests)"""
        return bool(self.errors - {K_BEYOND_LATE})

    def bad_subtest(self) -> bool:
        return any(t.result in BAD_STATUSES for t in self.tests)

    def expect_bad(self, returncode: int) -> bool:
        return self.bad_subtest() or self.has_error_event() or self.bailout_line is not None or returncode != 0

    def summary(self) -> dict:
        return {'tests': [[nrepr(t.number), t.name[:80], t.result, t.explanation and t.explanation[:80]] for t in self.tests[:40]],
                'errors': sorted(self.errors),
                'plan': [nrepr(self.plan.num_tests), self.plan.late, self.plan.skipped, self.plan.line] if self.plan else None,
                'version': nrepr(self.version), 'bailout_line': self.bailout_line, 'ambiguous': self.ambiguous,
                'unfixed': sorted(self.unfixed)}


def strip_eol(raw: str) -> str:
    if raw.endswith('\n'):
        raw = raw[:-1]
    if raw.endswith('\r'):
        raw = raw[:-1]
    return raw


def consume(lines: T.Iterable[str]) -> Result:
    """Interpret a stream (an iterable of lines, each with or without its line terminator)."""
    res = Result()
    version = 12
    after_test = False
    yaml_indent: T.Optional[str] = None
    last_number = 0
    numbers: T.List[int] = []
    idx = -1
    for idx, raw in enumerate(lines):
        body = raw.rstrip()
        ln = classify(body)
        # ---- inside a YAML block ------------------------------------------------------------
        if yaml_indent is not None:
            if ln.cls == L_YEND:
                if ln.indent != yaml_indent:
                    res.ambiguous.append('yaml-end-indent-differs')
                if ln.ambiguous:
                    res.ambiguous.append(ln.ambiguous)
                yaml_indent = None
                res.classes.append('yaml-end')
                continue
            if ln.cls == L_INDENTED and ln.ambiguous == 'yaml-end-trailing-text':
                res.ambiguous.append(ln.ambiguous)
            noeol = strip_eol(raw)
            if noeol.startswith(yaml_indent):
                res.classes.append('yaml-content')
                continue
            if not body:
                # an empty (or shorter, white-space only) line inside a block: YAML allows it, TAP does not say
                res.ambiguous.append('blank-line-in-yaml')
            res.errors.add(K_YAML)
            yaml_indent = None
            # the line itself is then read normally
        elif after_test and version >= 13 and ln.cls == L_YSTART:
            if ln.ambiguous:
                res.ambiguous.append(ln.ambiguous)
            yaml_indent = ln.indent
            after_test = False
            res.classes.append('yaml-start')
            continue
        after_test = False
        if ln.ambiguous and ln.cls not in (L_YSTART, L_YEND, L_INDENTED):
            # (an indented line outside a YAML context is an unknown line whatever it contains)
            res.ambiguous.append(ln.ambiguous)
        cls = ln.cls
        res.classes.append(cls)
        if cls == L_TEST:
            if res.plan is not None and res.plan.late:
                res.errors.add(K_LATE)
            number = last_number + 1 if ln.number is None else ln.number
            last_number = number
            numbers.append(number)
            if res.plan is not None and number > res.plan.num_tests:
                res.errors.add(K_BEYOND)
            if ln.directive == 'SKIP':
                status = SKIP if ln.ok else FAIL
            elif ln.directive == 'TODO':
                status = UNEXPECTEDPASS if ln.ok else EXPECTEDFAIL
            else:
                status = OK if ln.ok else FAIL
            res.tests.append(Test(number, ln.name, status, ln.explanation, ln.explanation_fixed, idx))
            after_test = True
        elif cls == L_PLAN:
            res.plans += 1
            if res.plan is not None:
                res.errors.add(K_PLAN2)
            else:
                n = T.cast(int, ln.number)
                if ln.directive == 'SKIP':
                    if n > 0:
                        res.errors.add(K_PLANDIR)
                elif ln.directive is not None:
                    res.errors.add(K_PLANDIR)
                res.plan = Plan(n, len(numbers) > 0, n == 0 or ln.directive == 'SKIP', idx)
        elif cls == L_BAIL:
            res.errors.add(K_BAIL)
            res.bailout_line = idx
            res.bailout_message = ln.name
            res.lines_consumed = idx + 1
            _finish_unfixed(res)
            res.version = version
            return res
        elif cls == L_VERSION:
            if idx != 0:
                res.errors.add(K_VMIS)
            else:
                version = T.cast(int, ln.number)
                if version < 13:
                    res.errors.add(K_VLOW)
                else:
                    res.version_event = version
        elif cls in (L_GARBAGE, L_INDENTED, L_YSTART, L_YEND):
            res.unknown_lines += 1
    # ---- end of stream -----------------------------------------------------------------------
    res.lines_consumed = idx + 1
    res.version = version
    if yaml_indent is not None:
        res.errors.add(K_YAML)
    count = len(numbers)
    if res.plan is not None and count != res.plan.num_tests:
        res.errors.add(K_FEW if count < res.plan.num_tests else K_MANY)
    seen = set(numbers)
    if len(seen) < count:
        res.errors.add(K_DUP)
    if any(k not in seen for k in range(1, count + 1)):
        # (a number outside 1..count always leaves a gap inside 1..count)
        res.errors.add(K_MISSING)
    if res.plan is not None and res.plan.late:
        if any(n > res.plan.num_tests for n, t in zip(numbers, res.tests) if t.line < res.plan.line):
            res.info.add(K_BEYOND_LATE)
    _finish_unfixed(res)
    return res


def _finish_unfixed(res: Result) -> None:
    c = coarse(res.errors)
    if res.bailout_line is not None:
        # the stream stops here: no accounting
        res.unfixed |= {C_MISMATCH, C_NUMBERING}
    if C_MISMATCH in c:
        res.unfixed.add(C_NUMBERING)      # a count mismatch already says the numbers cannot be 1..N
    if res.plans >= 2:
        # which of the plans counts afterwards is not stated
        res.unfixed |= {C_MISMATCH, C_NUMBERING, K_BEYOND, K_LATE}
    if K_PLANDIR in res.errors:
        res.unfixed.add(K_PLANDIR)


def numbering_profile(res: Result) -> dict:
    """for classifiers: how the numbers deviate from 1..count"""
    nums = [t.number for t in res.tests]
    count = len(nums)
    return {'count': count, 'highest': nrepr(max(nums)) if nums else 0,
            'duplicates': [nrepr(n) for n in sorted({n for n in nums if nums.count(n) > 1})[:5]],
            'missing': [k for k in range(1, min(count, 50) + 1) if k not in set(nums)][:5],
            'plan': nrepr(res.plan.num_tests) if res.plan else None}
