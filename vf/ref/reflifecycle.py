"""Reference model of the option lifecycle of one build directory (C08). Independent of mesonbuild.

State of the world = option files on disk (top project + one subproject `sub`) and, once configured, what the
property says must be persisted:
    value(o) = the last value the user gave o, else the default o was created with;
    a new option gets its default, a removed one vanishes, changed choices/range keep the old value when still
    valid and otherwise fall back to the new default; dropping a per-subproject override (-U) returns the
    subproject to the inherited value; a yielding subproject option takes the parent's value;
    --wipe re-derives everything from the recorded command lines plus the current defaults;
    a failing configure / reconfigure changes nothing.
`default_options:` of project() are "the default it was created with": read when a (sub)project is configured for the first
time in a build directory (setup, --wipe), never again on reconfigure.  For the top project they give the starting value of
a built-in or project option; for a subproject a built-in named there becomes a per-subproject override (which -U drops
like any other, and only --wipe brings back).
A second subproject `late` is only reached while the top-level option `use_late` is true: it is configured for the first time
by whichever setup / reconfigure / wipe first sees use_late=true, and at that moment everything the user ever gave for it on a
command line (recorded `-Dlate:opt=v`, given while the subproject was not in use yet) is "the last value the user gave".
Option-file edits are picked up by the next command that re-reads them and saves: `configure` with flags,
`setup --reconfigure`, `setup --wipe` (mconf reloads changed option files; observed and documented in mconf.py).
Values are kept as the strings a user types; `norm()` gives the comparison form of a probed real value.
"""
from __future__ import annotations

import copy
import typing as T

BUILTINS = {
    'warning_level': {'kind': 'combo', 'choices': ['0', '1', '2', '3', 'everything'], 'default': '1'},
    'werror': {'kind': 'boolean', 'default': 'false'},
    'unity_size': {'kind': 'integer', 'min': 2, 'max': None, 'default': '4'},
}

# Builtin options the histories give for the build directory as a whole (never per subproject), whose handling is special at
# the FIRST configuration: the prefix is split off and applied before everything else, some directory defaults are derived from
# it, buildtype is expanded, and all of them have a dedicated command-line spelling (--prefix, --libdir, --buildtype ...).
# Defaults: Builtin-options.md, "Directories" / "Core options"; None = the document gives no fixed default (platform dependent):
# such an option is only compared while the user has given it a value.
GLOBALS: T.Dict[str, T.Dict[str, T.Any]] = {
    'prefix': {'kind': 'string', 'default': '/usr/local'},
    'bindir': {'kind': 'string', 'default': 'bin'},
    'datadir': {'kind': 'string', 'default': 'share'},
    'includedir': {'kind': 'string', 'default': 'include'},
    'mandir': {'kind': 'string', 'default': 'share/man'},
    'libexecdir': {'kind': 'string', 'default': 'libexec'},
    'libdir': {'kind': 'string', 'default': None},
    'sysconfdir': {'kind': 'string', 'default': 'etc'},
    'localstatedir': {'kind': 'string', 'default': 'var'},
    'sharedstatedir': {'kind': 'string', 'default': 'com'},
    'buildtype': {'kind': 'combo', 'choices': ['plain', 'debug', 'debugoptimized', 'release', 'minsize', 'custom'], 'default': 'debug'},
    'default_library': {'kind': 'combo', 'choices': ['shared', 'static', 'both'], 'default': 'shared'},
    'unity': {'kind': 'combo', 'choices': ['on', 'off', 'subprojects'], 'default': 'off'},
    'strip': {'kind': 'boolean', 'default': 'false'},
    'stdsplit': {'kind': 'boolean', 'default': 'true'},
}
# "When the prefix is /usr: sysconfdir defaults to /etc, localstatedir to /var, sharedstatedir to /var/lib; when the prefix is
# /usr/local: localstatedir defaults to /var/local and sharedstatedir to /var/local/lib" (Builtin-options.md)
PREFIX_DEPENDENT: T.Dict[str, T.Dict[str, str]] = {
    'sysconfdir': {'/usr': '/etc'},
    'localstatedir': {'/usr': '/var', '/usr/local': '/var/local'},
    'sharedstatedir': {'/usr': '/var/lib', '/usr/local': '/var/local/lib'},
}
ALL_BUILTINS: T.Dict[str, T.Dict[str, T.Any]] = {**BUILTINS, **GLOBALS}


def long_spelling(name: str) -> str:
    """The dedicated command-line spelling of a builtin option (Builtin-options.md: `--prefix`, `--warnlevel` ...)."""
    return '--warnlevel' if name == 'warning_level' else '--' + name.replace('_', '-')


def mstr(s: str) -> str:
    """A meson string literal for s (Syntax.md, "Strings": backslash and single quote are escaped; a line break and a tab
    are written as the documented escape sequences)."""
    return "'" + s.replace('\\', '\\\\').replace("'", "\\'").replace('\n', '\\n').replace('\t', '\\t') + "'"


def items(v: str) -> T.List[str]:
    """The elements of an array option value as the user spells it on a command line (Build-options.md, "Using build
    options"): `a,b` = the values separated by commas; `['a,b', 'c']` = the bracket form for elements that contain commas
    (inner quotes single); `` and `[]` = the empty array.  Only spellings the document describes are understood: an
    element of the bracket form holds neither a single quote nor a backslash."""
    if v == '' or v == '[]':
        return []
    if not v.startswith('['):
        return v.split(',')
    assert v.endswith(']'), v
    out: T.List[str] = []
    i, n = 1, len(v) - 1
    while i < n:
        while i < n and v[i] in ' ,':
            i += 1
        if i >= n:
            break
        assert v[i] == "'", v
        j = v.index("'", i + 1)
        out.append(v[i + 1:j])
        i = j + 1
    return out


def fmt_items(xs: T.Sequence[str]) -> T.Optional[str]:
    """A documented command-line spelling of the array xs (None if the document describes none)."""
    if not xs:
        return ''
    if all(x and ',' not in x and x == x.strip() for x in xs) and not xs[0].startswith('['):
        return ','.join(xs)
    if any("'" in x or '\\' in x or '\n' in x for x in xs):
        return None
    return '[' + ', '.join("'" + x + "'" for x in xs) + ']'


def canon(kind: str, v: str) -> T.Any:
    """Comparison form of a value as typed: two spellings of the same array are the same value."""
    return tuple(items(v)) if kind == 'array' else v


class Spec:
    def __init__(self, name: str, kind: str, default: str, choices: T.Optional[T.List[str]] = None,
                 min: T.Optional[int] = None, max: T.Optional[int] = None, yielding: bool = False) -> None:
        self.name = name
        self.kind = kind
        self.default = default
        self.choices = list(choices) if choices is not None else None
        self.min = min
        self.max = max
        self.yielding = yielding

    def valid(self, v: str) -> bool:
        if self.kind == 'string':
            return True
        if self.kind == 'boolean':
            return v in ('true', 'false')
        if self.kind == 'integer':
            try:
                i = int(v)
            except ValueError:
                return False
            return (self.min is None or i >= self.min) and (self.max is None or i <= self.max)
        if self.kind == 'combo':
            return v in (self.choices or [])
        if self.kind == 'feature':
            return v in ('enabled', 'disabled', 'auto')
        if self.kind == 'array':
            return all(x in self.choices for x in items(v)) if self.choices is not None else True
        raise AssertionError(self.kind)

    def constraints(self) -> T.Any:
        return (self.kind, self.choices, self.min, self.max)

    def decl(self) -> str:
        """meson.options declaration."""
        if self.kind == 'string':
            val = mstr(self.default)
        elif self.kind == 'boolean':
            val = self.default
        elif self.kind == 'integer':
            val = self.default
        elif self.kind in ('combo', 'feature'):
            val = "'" + self.default + "'"
        else:
            val = '[' + ', '.join(mstr(x) for x in items(self.default)) + ']'
        s = f"option('{self.name}', type: '{self.kind}', value: {val}"
        if self.choices is not None and self.kind in ('combo', 'array'):
            s += ', choices: [' + ', '.join(mstr(c) for c in self.choices) + ']'
        if self.kind == 'integer':
            if self.min is not None:
                s += f', min: {self.min}'
            if self.max is not None:
                s += f', max: {self.max}'
        if self.yielding:
            s += ', yield: true'
        return s + ')'


def norm(v: T.Any) -> T.Any:
    """Comparison form of a value read back from the real option store."""
    if isinstance(v, bool):
        return 'true' if v else 'false'
    if isinstance(v, int):
        return str(v)
    if isinstance(v, list):
        return ','.join(str(x) for x in v)
    return v


Files = T.Dict[str, Spec]


class State:
    def __init__(self) -> None:
        self.configured = False
        self.applied: T.Dict[str, Files] = {'': {}, 'sub': {}, 'late': {}}
        self.late = False              # subproject `late` has been configured in this build directory
        self.created_default: T.Dict[str, str] = {}
        self.user: T.Dict[str, str] = {}
        self.record: T.Dict[str, str] = {}
        self.gone: T.Set[str] = set()
        self.builtin_default: T.Dict[str, str] = {}
        # the prefix was changed by a command other than a first configuration: whether the directory defaults derived
        # from it follow is not documented -> they are not compared until the next first configuration (setup / --wipe)
        self.prefix_moved = False
        # did the (sub)project have an option file when the build files were last interpreted (setup/reconfigure/wipe)?
        self.optfile_seen: T.Dict[str, bool] = {'': True, 'sub': True}


def key(sub: str, name: str) -> str:
    return f'{sub}:{name}' if sub else name


class Model:
    def __init__(self, top: Files, sub: Files, dopts: T.Optional[T.Dict[str, T.Dict[str, str]]] = None,
                 late: T.Optional[Files] = None) -> None:
        self.files: T.Dict[str, Files] = {'': dict(top), 'sub': dict(sub)}
        if late is not None:
            self.files['late'] = dict(late)     # never edited
        # default_options: of the two project() calls as currently written in the build files
        self.dopts: T.Dict[str, T.Dict[str, str]] = dopts if dopts is not None else {'': {}, 'sub': {}}
        self.st = State()
        self.absent: T.Set[str] = set()     # (sub)projects that declare nothing AND have no option file on disk (maintained by the driver)
        self.tree_exists = False       # build directory has been created (maybe emptied by a failed wipe)

    def vanished(self) -> T.List[str]:
        """Options that existed at some point and must not exist in the store now."""
        return sorted(self.st.gone - set(self.keys()))

    # ---- helpers --------------------------------------------------------------------
    def _spec_for(self, k: str, applied: T.Dict[str, Files]) -> T.Optional[Spec]:
        sub, _, name = k.rpartition(':')
        if name in BUILTINS or (not sub and name in GLOBALS):
            b = ALL_BUILTINS[name]
            return Spec(name, b['kind'], b['default'], b.get('choices'), b.get('min'), b.get('max'))
        if sub == 'late':
            return self.files.get('late', {}).get(name)     # also while still pending (static declarations)
        return applied.get(sub, {}).get(name)

    def _maybe_init_late(self, st: State, cmdline: T.Mapping[str, str]) -> None:
        """The command interprets the build files: if use_late is true now and `late` was never configured here, it is now."""
        if st.late or 'late' not in self.files or 'use_late' not in st.applied['']:
            return
        probe = Model.__new__(Model)
        probe.files, probe.st = self.files, st
        if probe.value('use_late') != 'true':
            return
        st.late = True
        for n, v in self.dopts.get('late', {}).items():
            if n in BUILTINS and n not in cmdline:
                st.user['late:' + n] = v
        for name, spec in self.files['late'].items():
            st.created_default[key('late', name)] = self.dopts.get('late', {}).get(name, spec.default)
            st.applied['late'][name] = copy.deepcopy(spec)
        for k, v in cmdline.items():
            if k.startswith('late:'):
                st.user[k] = v

    def _seen(self) -> T.Dict[str, bool]:
        return {s: not (s in self.absent and not self.files[s]) for s in ('', 'sub')}

    def _apply_files(self, st: State, initial: bool = False, cmdline: T.Mapping[str, str] = {},
                     subs: T.Sequence[str] = ('', 'sub')) -> None:
        """update_project_options semantics for every (sub)project; initial: first configuration (default_options apply;
        cmdline = the options given on / recorded from the command line, which beat a subproject's own default_options:
        Builtin-options.md, "the value is overridden in this order")."""
        if initial:
            st.builtin_default = {n: v for n, v in self.dopts[''].items() if n in ALL_BUILTINS}
            # first configuration: the directory defaults that depend on the prefix are derived from the prefix in effect now
            pfx = cmdline.get('prefix', st.builtin_default.get('prefix', GLOBALS['prefix']['default']))
            for n, mp in PREFIX_DEPENDENT.items():
                if n not in st.builtin_default:
                    st.builtin_default[n] = mp.get(pfx, GLOBALS[n]['default'])
            for n, v in self.dopts['sub'].items():
                if n in BUILTINS and n not in cmdline:
                    st.user['sub:' + n] = v
        for sub in subs:
            new = self.files[sub]
            old = st.applied[sub]
            for name, spec in new.items():
                k = key(sub, name)
                if name not in old:
                    st.created_default[k] = self.dopts[sub].get(name, spec.default) if initial else spec.default
                    st.user.pop(k, None)
                elif old[name].kind != spec.kind:
                    st.created_default[k] = spec.default
                    st.user.pop(k, None)
                elif old[name].constraints() != spec.constraints():
                    cur = st.user.get(k, st.created_default[k])
                    if not spec.valid(cur):
                        st.user.pop(k, None)
                        st.created_default[k] = spec.default
            for name in list(old):
                if name not in new:
                    k = key(sub, name)
                    st.user.pop(k, None)
                    st.created_default.pop(k, None)
                    st.gone.add(k)
            st.applied[sub] = {n: copy.deepcopy(s) for n, s in new.items()}

    def _check_assign(self, assign: T.Mapping[str, str], applied: T.Dict[str, Files]) -> bool:
        for k, v in assign.items():
            spec = self._spec_for(k, applied)
            if spec is None or not spec.valid(v):
                return False
        return True

    # ---- observation ----------------------------------------------------------------
    def keys(self) -> T.List[str]:
        ks = []
        for sub in ('', 'sub'):
            ks += [key(sub, n) for n in self.st.applied[sub]]
        for b in BUILTINS:
            ks += [b, 'sub:' + b]
        ks += list(GLOBALS)
        if self.st.late:
            ks += [key('late', n) for n in self.st.applied['late']] + ['late:' + b for b in BUILTINS]
        return ks

    def value(self, k: str) -> T.Optional[str]:     # type: ignore[return]
        st = self.st
        sub, _, name = k.rpartition(':')
        if not sub and name in GLOBALS:
            if k in st.user:
                return st.user[k]
            if name in PREFIX_DEPENDENT and st.prefix_moved:
                return None     # not comparable (documents silent)
            return st.builtin_default.get(name, GLOBALS[name]['default'])
        if name in BUILTINS:
            if sub:
                return st.user.get(k, self.value(name))
            return st.user.get(k, st.builtin_default.get(name, BUILTINS[name]['default']))
        spec = st.applied[sub][name]
        if sub and spec.yielding and k not in st.user:
            parent = st.applied[''].get(name)
            if parent is not None and parent.kind == spec.kind:
                return self.value(name)
        return st.user.get(k, st.created_default[k])

    def expected(self) -> T.Dict[str, str]:
        return {k: self.value(k) for k in self.keys()}

    # ---- commands: return True when the command must succeed ---------------------------
    def setup(self, assign: T.Mapping[str, str], inject_failure: bool = False) -> bool:
        assert not self.st.configured
        st = State()
        self._apply_files(st, initial=True, cmdline=assign)
        self.tree_exists = True
        if inject_failure or not self._check_assign(assign, st.applied):
            return False
        st.user.update(assign)
        st.record = dict(assign)
        self._maybe_init_late(st, st.record)
        st.optfile_seen = self._seen()
        st.configured = True
        self.st = st
        return True

    def configure(self, assign: T.Mapping[str, str], unset: T.Sequence[str] = ()) -> bool:
        """`meson configure -D.. -U..`.  mconf re-reads edited option files, applies the assignments and saves
        only if something changed (an assignment that differs from the value in effect, a new or changed
        per-subproject override, a dropped override); the recorded command line is updated in any case.
        A configure that changes nothing therefore does not pick up option-file edits either."""
        assert self.st.configured
        st = copy.deepcopy(self.st)
        # `meson configure` does not interpret the build files: it re-reads the option files it has a record of (and the
        # top-level one); a subproject that had NO option file when it was last configured gets its first one at the next
        # reconfigure (mconf.py: "cannot handle options for a new subproject that has not yet been configured")
        self._apply_files(st, subs=[s for s in ('', 'sub') if s == '' or st.optfile_seen.get(s, True)])
        if not self._check_assign(assign, st.applied):
            return False
        probe = Model.__new__(Model)
        probe.files = self.files
        probe.st = st
        dirty = False
        for k, v in assign.items():
            sub, _, name = k.rpartition(':')
            if sub and name in BUILTINS:
                dirty |= st.user.get(k) != v
            elif sub and st.applied[sub][name].yielding and k not in st.user:
                dirty = True    # an option that stops yielding is a change even if the value is the same
            else:
                kd = ALL_BUILTINS[name]['kind'] if name in ALL_BUILTINS else st.applied[sub][name].kind
                cur = probe.value(k)
                dirty |= cur is None or canon(kd, cur) != canon(kd, v)
        for k in unset:
            dirty |= k in st.user
        if not dirty:
            for k, v in assign.items():
                self.st.record[k] = v
            for k in unset:
                self.st.record.pop(k, None)
            return True
        if 'prefix' in assign and assign['prefix'] != probe.value('prefix'):
            st.prefix_moved = True
        for k, v in assign.items():
            st.user[k] = v
            st.record[k] = v
        for k in unset:
            st.user.pop(k, None)
            st.record.pop(k, None)
        self.st = st
        return True

    def reconfigure(self, assign: T.Mapping[str, str], inject_failure: bool = False) -> bool:
        assert self.st.configured
        st = copy.deepcopy(self.st)
        self._apply_files(st)
        if not self._check_assign(assign, st.applied) or inject_failure:
            return False
        if 'prefix' in assign and assign['prefix'] != self.value('prefix'):
            st.prefix_moved = True
        for k, v in assign.items():
            st.user[k] = v
            st.record[k] = v
        self._maybe_init_late(st, st.record)
        st.optfile_seen = self._seen()
        self.st = st
        return True

    def wipe(self, inject_failure: bool = False, assign: T.Optional[T.Mapping[str, str]] = None) -> bool:
        """`meson setup --wipe [-D...]`: options given now beat the recorded ones (command line = highest priority) and
        are recorded together with them."""
        assert self.tree_exists
        old_record = dict(self.st.record)
        record = dict(old_record)
        record.update(assign or {})
        st = State()
        self._apply_files(st, initial=True, cmdline=record)
        st.record = record
        ok = self._check_assign(record, st.applied) and not inject_failure
        if not ok:
            # emptied directory, recorded command line intact (what the code comment in msetup promises)
            st.configured = False
            st.applied = {'': {}, 'sub': {}, 'late': {}}
            st.late = False
            st.created_default = {}
            st.user = {}
            st.record = old_record      # the restored file is the old one: options given to the failed --wipe are not recorded
            self.st = st
            return False
        st.user.update(record)
        self._maybe_init_late(st, record)
        st.optfile_seen = self._seen()
        st.configured = True
        self.st = st
        return True
