"""refdeps - the documented dependency() fallback policy as a decision table (property C10, DESIGN A.9).

Transcribed by hand from

* docs/yaml/functions/dependency.yaml   (override wins "unconditionally"; `fallback`, `allow_fallback`,
  `required`, `version`; "Once one of the name has been found ... subsequent calls ... return the same value")
* docs/markdown/Subprojects.md          (--wrap-mode nodownload / nofallback / forcefallback,
  --force-fallback-for "takes precedence over --wrap-mode=nofallback", forcefallback applies to
  dependencies "which have subproject fallbacks available")
* docs/markdown/Wrap-dependency-system-manual.md  ([provide]; optional lookups use a provide-fallback only
  when forced or `allow_fallback: true`)
* docs/markdown/Builtin-options.md      (wrap_mode, force_fallback_for)
* docs/yaml/functions/dependency.yaml `static` ("it also sets default_library option accordingly on the fallback
  subproject") and docs/yaml/builtins/meson.yaml override_dependency `static` ("If not specified it is assumed
  dep_object follows default_library option value"): an override made without static: applies to lookups without
  static: and to lookups whose static: matches the default_library of the project that made it

It never imports mesonbuild and shares no code with it.  An *answer* is a tuple

    ('system', version) | ('sub', version) | ('override', version) | ('notfound',) | ('error',)

`expect()` returns a set of allowed answers plus a tag:

    'doc'   the documents prescribe exactly this answer (the set has one element)
    'open'  the documents are silent / self-contradictory for this cell: consistency-only
            (the set then lists what would be *explicable*; the driver only counts, never demands)

`version:` constraints: single or array (all must hold); an unknown version never satisfies one (dependency.yaml).
`not_found_message:` is not part of a Lookup: the documents give it no influence on what is returned.

Cells left open (and why):
* explicit `fallback:` together with `allow_fallback:` - the documents do not say the two are exclusive
  (the code rejects the call);
* a provide/explicit link to a subproject that is ALREADY CONFIGURED (by an earlier subproject() call or by an
  earlier lookup): the documents describe the policy as a function of the system, the keyword arguments and
  the options only; the code consults the configured subproject first (before the system, also under
  nofallback, also for optional lookups).  A.9 rule 2 marks this undocumented, so such a cell accepts the
  documented answer or the configured subproject's dependency (version-checked);
* a lookup after an earlier lookup of the same name *found* something, with different arguments and a
  documented stateless answer naming another provider;
* a lookup with static: whose link relies on the subproject's override (fallback: 'sub', dependency_names) while
  the override was made for the other library type, or while the default_library the subproject gets is not
  decided (static: together with a conflicting default_options / -Dsub:default_library: dependency.yaml says the
  explicit default_options entry wins, the code forces static: - a disagreement about options, left open here);
* a subproject that overrides the name being configured after another lookup (other static:) already resolved it.
"""
from __future__ import annotations

import re
import typing as T

Answer = T.Tuple[str, ...]
NOTFOUND: Answer = ('notfound',)
ERROR: Answer = ('error',)

WRAP_MODES = ('default', 'nofallback', 'nodownload', 'forcefallback')
FFF = ('none', 'dep', 'sub')           # force_fallback_for: empty / the dependency's name / the subproject's name
LINKS = ('none', 'explicit', 'provide')  # how a lookup is linked to a fallback subproject


# ---- version constraints (dependency.yaml `version`: comparison operator followed by the version) ----
def _vkey(v: str) -> T.Tuple[int, ...]:
    return tuple(int(x) for x in re.findall(r'\d+', v))


def _pad(a: T.Tuple[int, ...], b: T.Tuple[int, ...]) -> T.Tuple[T.Tuple[int, ...], T.Tuple[int, ...]]:
    n = max(len(a), len(b))
    return a + (0,) * (n - len(a)), b + (0,) * (n - len(b))


def satisfies(version: T.Optional[str], constraint: T.Optional[str]) -> bool:
    """Only the purely numeric dotted versions used by the generator ('1.0', '2', '2.1')."""
    if not constraint:
        return True
    if version is None or version == 'unknown':
        return False  # "These requirements are never met if the version is unknown."
    if isinstance(constraint, (list, tuple)):
        # "You can also specify multiple restrictions by passing an array"
        return all(satisfies(version, c) for c in constraint)
    m = re.fullmatch(r'\s*(>=|<=|==|!=|>|<|=)?\s*([0-9.]+)\s*', constraint)
    assert m, constraint
    op, ref = m.group(1) or '==', m.group(2)
    a, b = _pad(_vkey(version), _vkey(ref))
    return {'>=': a >= b, '<=': a <= b, '>': a > b, '<': a < b, '==': a == b, '=': a == b, '!=': a != b}[op]


class Lookup(T.NamedTuple):
    """One dependency('foo', ...) call."""
    constraint: T.Optional[str] = None       # version:
    required: bool = True
    allow_fallback: T.Optional[bool] = None  # unset / true / false
    explicit_fallback: bool = False          # fallback: ['sub', 'foo_dep'] given in the call
    static: T.Optional[bool] = None          # static: unset / true / false
    has_var: bool = True                     # the link names a VARIABLE of the subproject (fallback: [sub, var] or
                                             # `name = var` in [provide]); False: the subproject must override the name


class World(T.NamedTuple):
    """Circumstances that do not change during one configuration."""
    system: T.Optional[str] = None           # version of foo.pc or None
    wrap_mode: str = 'default'
    fff: str = 'none'
    provide: bool = False                    # a wrap file's [provide] section names the dependency
    sub_on_disk: bool = True                 # the subproject's tree is present (nothing to download)
    sub_version: T.Optional[str] = None      # version of the dependency the subproject declares
    sub_overrides: bool = False              # the subproject calls meson.override_dependency(name, dep) (no static:)
    main_dl: str = 'shared'                  # default_library of the main project
    sub_dl_how: str = 'same'                 # 'same' | 'default_options' (on subproject()/dependency()) | 'cmdline' (-Dsub:default_library=)
    sub_dl_value: T.Optional[str] = None     # the value given that way


class State:
    """What changes during one configuration."""

    def __init__(self, override: T.Optional[Answer] = None, configured: bool = False,
                 override_slots: T.Optional[T.FrozenSet[T.Optional[bool]]] = frozenset({None, True, False}),
                 sub_dl: T.Optional[str] = None) -> None:
        self.override = override             # answer registered by an explicit meson.override_dependency()
        # `static:` values of lookups the override applies to (meson.yaml, override_dependency `static`: "If not
        # specified it is assumed dep_object follows default_library option value"); None = not decided
        self.override_slots = override_slots
        self.configured = configured         # the fallback subproject has already been configured
        self.sub_dl = sub_dl                 # default_library the subproject was configured with (None = not decided)
        # an earlier lookup (with the same static:) of the name found this: static -> (answer, arguments)
        self.sticky: T.Dict[T.Optional[bool], T.Tuple[Answer, Lookup]] = {}


def slots(dl: T.Optional[str]) -> T.Optional[T.FrozenSet[T.Optional[bool]]]:
    """Lookups (by their static:) an override made WITHOUT static: applies to, given the default_library of the
    project that made it."""
    if dl is None:
        return None
    out: T.Set[T.Optional[bool]] = {None}
    if dl in ('static', 'both'):
        out.add(True)
    if dl in ('shared', 'both'):
        out.add(False)
    return frozenset(out)


def pre_dl(w: World) -> str:
    """default_library of a subproject configured by subproject() / by a lookup without static:."""
    if w.sub_dl_how in ('cmdline', 'default_options') and w.sub_dl_value:
        return w.sub_dl_value
    return w.main_dl


def fallback_dl(w: World, lk: Lookup) -> T.Optional[str]:
    """default_library of a fallback subproject configured by this lookup.  dependency.yaml `static`: "it also sets
    default_library option accordingly on the fallback subproject if it was not set explicitly in default_options".
    A conflicting -Dsub:default_library is not decided by the documents (None)."""
    if lk.static is None:
        return pre_dl(w)
    want = 'static' if lk.static else 'shared'
    if w.sub_dl_how in ('default_options', 'cmdline') and w.sub_dl_value:
        # dependency.yaml says an explicit default_options entry wins over static:, the code forces static: over
        # it (and over the command line): a docs-vs-code disagreement about OPTIONS, not about which dependency is
        # returned - the cell is left undecided here
        return want if w.sub_dl_value == want else None
    return want


def forced(w: World, lk: Lookup) -> bool:
    """A.9 rule 3.  Only matters when a fallback is available."""
    has_link = lk.explicit_fallback or w.provide
    return w.wrap_mode == 'forcefallback' or w.fff == 'dep' or (w.fff == 'sub' and has_link)


def fallback_available(w: World, lk: Lookup) -> T.Optional[bool]:
    """A.9 rule 2.  None = the documents do not decide (fallback: together with allow_fallback:)."""
    if lk.explicit_fallback:
        if lk.allow_fallback is not None:
            return None
        return True
    if lk.allow_fallback is False:
        return False
    if w.provide:
        if lk.allow_fallback is True:
            return True
        return lk.required or forced(w, lk)
    return False


def _finish(ans: Answer, lk: Lookup) -> Answer:
    """A.9 rule 6."""
    if ans == NOTFOUND and lk.required:
        return ERROR
    return ans


def _sub_answer(w: World, lk: Lookup) -> Answer:
    if w.sub_version is not None and satisfies(w.sub_version, lk.constraint):
        return ('sub', w.sub_version)
    return NOTFOUND


def stateless(w: World, lk: Lookup) -> T.Tuple[T.Optional[Answer], T.Dict[str, T.Any]]:
    """Rules 2-6 for a lookup in a configuration where nothing has happened yet.
    Returns (answer or None when open, facts) ; facts feed the online rules of the monitors."""
    avail = fallback_available(w, lk)
    frc = forced(w, lk)
    facts = {'available': avail, 'forced': frc,
             'system_must_not_be_consulted': bool(avail) and frc,
             'no_subproject_from_lookup': (w.wrap_mode == 'nofallback' and not frc) or avail is False}
    if avail is None:
        return None, facts
    if frc and avail:
        # rule 4: system never consulted; force_fallback_for beats nofallback; forcefallback excludes nofallback;
        # with nodownload it "will only work if the subproject has already been downloaded"
        if not w.sub_on_disk and w.wrap_mode == 'nodownload':
            return _finish(NOTFOUND, lk), facts
        return _finish(_sub_answer(w, lk), lk), facts
    # rule 5
    if w.system is not None and satisfies(w.system, lk.constraint):
        return ('system', w.system), facts
    if avail and w.wrap_mode != 'nofallback':
        if not w.sub_on_disk and w.wrap_mode == 'nodownload':
            return _finish(NOTFOUND, lk), facts
        return _finish(_sub_answer(w, lk), lk), facts
    return _finish(NOTFOUND, lk), facts


def expect(w: World, st: State, lk: Lookup) -> T.Tuple[T.Set[Answer], str, T.Dict[str, T.Any]]:
    """Allowed answers for lookup `lk` in world `w`, state `st` -> (set, 'doc'|'open', facts)."""
    base, facts = stateless(w, lk)
    # rule 1: an explicit override wins unconditionally; a failing version constraint gives not-found,
    # never the system.
    if st.override is not None:
        ovr = st.override if satisfies(st.override[1], lk.constraint) else _finish(NOTFOUND, lk)
        if st.override_slots is not None and lk.static in st.override_slots:
            return {ovr}, 'doc', dict(facts, system_must_not_be_consulted=True, no_subproject_from_lookup=True)
        # the override was made for the other library type (or the documents do not decide which): open
        allowed, _tag, facts = _expect_without_override(w, st, lk, base, facts)
        allowed = set(allowed) | {ovr, _finish(NOTFOUND, lk)}
        return allowed, 'open', dict(facts, system_must_not_be_consulted=False, no_subproject_from_lookup=False)
    return _expect_without_override(w, st, lk, base, facts)


def _expect_without_override(w: World, st: State, lk: Lookup, base: T.Optional[Answer],
                             facts: T.Dict[str, T.Any]) -> T.Tuple[T.Set[Answer], str, T.Dict[str, T.Any]]:
    # rule 7 / dependency.yaml: "Once one of the name has been found ... subsequent calls for any of those
    # name will return the same value".
    if lk.static in st.sticky:
        sticky, sticky_args = st.sticky[lk.static]
        facts = dict(facts, system_must_not_be_consulted=False, no_subproject_from_lookup=False)
        same = satisfies(sticky[1], lk.constraint)
        if sticky_args == lk:
            return {sticky}, 'doc', facts            # same arguments -> same answer (property text)
        allowed: T.Set[Answer] = {sticky} if same else {_finish(NOTFOUND, lk)}
        if base is not None:
            allowed.add(base)
        return allowed, ('doc' if len(allowed) == 1 else 'open'), facts
    if base is None:
        return {ERROR}, 'open', facts
    has_link = lk.explicit_fallback or (w.provide and lk.allow_fallback is not False)
    allowed = {base}
    tag = 'doc'
    if st.configured and has_link:
        alt = _finish(_sub_answer(w, lk), lk)
        facts = dict(facts, no_subproject_from_lookup=False)
        if alt != base:
            allowed.add(alt)
            tag = 'open'
    # a link WITHOUT variable name relies on the subproject's override, which was made for the library type of the
    # subproject's default_library: decided only when that matches the lookup's static:
    if has_link and w.sub_overrides and not lk.has_var and any(a[0] == 'sub' for a in allowed):
        dl = st.sub_dl if st.configured else fallback_dl(w, lk)
        sl = slots(dl)
        if sl is None or lk.static not in sl:
            allowed.add(_finish(NOTFOUND, lk))
            tag = 'open'
    # a subproject that overrides the name is configured AFTER another lookup of the name (with another static:)
    # already resolved it: the override collides with the resolved one ("already been resolved or overridden");
    # none of the documents says what the lookup then returns
    if has_link and w.sub_overrides and not st.configured and st.sticky and any(a[0] == 'sub' for a in allowed):
        allowed.add(_finish(NOTFOUND, lk))
        tag = 'open'
    return allowed, tag, facts


def advance(w: World, st: State, lk: Lookup, observed: Answer, sub_configured: bool,
            sub_overrides: T.Optional[Answer] = None) -> None:
    """Update the state after a lookup whose (already judged) answer was `observed`; `sub_configured` is the
    monitor's observation that the fallback subproject has been configured by now (it only widens later cells);
    `sub_overrides` is the answer the subproject registers with meson.override_dependency() when it is configured."""
    newly = (sub_configured or bool(observed and observed[0] == 'sub')) and not st.configured
    if newly:
        st.configured = True
        st.sub_dl = fallback_dl(w, lk)
        if sub_overrides is not None and st.override is None:
            st.override = sub_overrides
            st.override_slots = slots(st.sub_dl)
    if observed and observed[0] in ('system', 'sub', 'override') and lk.static not in st.sticky:
        st.sticky[lk.static] = (observed, lk)


def selftest() -> None:
    W, L, S = World, Lookup, State
    w = W(system='1.0', provide=True, sub_version='2.1')
    assert expect(w, S(), L())[0] == {('system', '1.0')}
    assert expect(w, S(), L(constraint='>=2'))[0] == {('sub', '2.1')}
    assert expect(w, S(), L(constraint='>=2', required=False))[0] == {NOTFOUND}
    assert expect(w, S(), L(constraint='>=2', required=False, allow_fallback=True))[0] == {('sub', '2.1')}
    assert expect(w._replace(wrap_mode='nofallback'), S(), L(constraint='>=2'))[0] == {ERROR}
    assert expect(w._replace(wrap_mode='nofallback', fff='sub'), S(), L())[0] == {('sub', '2.1')}
    assert expect(w._replace(wrap_mode='forcefallback'), S(), L(required=False))[0] == {('sub', '2.1')}
    assert expect(w._replace(wrap_mode='forcefallback'), S(), L(allow_fallback=False))[0] == {('system', '1.0')}
    assert expect(w._replace(wrap_mode='forcefallback'), S(), L(constraint='<2'))[0] == {ERROR}
    assert expect(w, S(override=('override', '1.2')), L(constraint='>=2', required=False))[0] == {NOTFOUND}
    assert expect(w, S(override=('override', '1.2')), L())[0] == {('override', '1.2')}
    assert expect(W(system=None), S(), L(required=False))[0] == {NOTFOUND}
    assert expect(W(system='2.0', fff='dep'), S(), L())[0] == {('system', '2.0')}
    assert expect(w, S(configured=True), L())[1] == 'open'
    # static: x default_library (seeded regression C10-3): a fallback configured by a static lookup is built static,
    # so the override it makes without static: applies to that lookup
    wo = W(system=None, sub_version='2.1', sub_overrides=True)
    lk = L(explicit_fallback=True, static=True, has_var=False)
    assert expect(wo, S(), lk) [:2] == ({('sub', '2.1')}, 'doc')
    assert expect(wo._replace(sub_dl_how='default_options', sub_dl_value='shared'), S(), lk)[1] == 'open'
    assert expect(wo._replace(sub_dl_how='cmdline', sub_dl_value='static'), S(), lk)[1] == 'doc'
    assert expect(wo, S(override=('override', '2.2'), override_slots=slots('static')), L(static=True))[:2] == ({('override', '2.2')}, 'doc')
    assert expect(wo, S(override=('override', '2.2'), override_slots=slots('shared')), L(static=True))[1] == 'open'
    assert not satisfies('unknown', '<2.0') and satisfies('unknown', None) and satisfies('1.1', ('<2.0', '!=0.3'))
    assert not satisfies('2.1', ['<2.0', '!=0.3']) and satisfies('2.0', '<=2.0') and not satisfies('1.0', '!=1.0')
    assert satisfies('2.0', '>=2') and not satisfies('1.1', '>=2') and satisfies('1.1', '<2') and not satisfies('2', '<2')


if __name__ == '__main__':
    selftest()
    print('refdeps selftest ok')
