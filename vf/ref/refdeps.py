"""refdeps - the documented dependency() fallback policy as a decision table (property C10, DESIGN A.9).

Transcribed by hand from

* docs/yaml/functions/dependency.yaml   (override wins "unconditionally"; `fallback`, `allow_fallback`,
  `required`, `version`; "Once one of the name has been found ... subsequent calls ... return the same value")
* docs/markdown/Subprojects.md          (--wrap-mode nodownload / nofallback / forcefallback,
  --force-fallback-for "takes precedence over --wrap-mode=nofallback", forcefallback applies to
  dependencies "which have subproject fallbacks available")
* docs/markdown/Wrap-dependency-system-manual.md  ([provide]; optional lookups use a provide-fallback only
  when forced or `allow_fallback: true`)
* docs/markdown/Builtin-options.md      (wrap_mode, force_fallback_for)

It never imports mesonbuild and shares no code with it.  An *answer* is a tuple

    ('system', version) | ('sub', version) | ('override', version) | ('notfound',) | ('error',)

`expect()` returns a set of allowed answers plus a tag:

    'doc'   the documents prescribe exactly this answer (the set has one element)
    'open'  the documents are silent / self-contradictory for this cell: consistency-only
            (the set then lists what would be *explicable*; the driver only counts, never demands)

Cells left open (and why):
* explicit `fallback:` together with `allow_fallback:` - the documents do not say the two are exclusive
  (the code rejects the call);
* a provide/explicit link to a subproject that is ALREADY CONFIGURED (by an earlier subproject() call or by an
  earlier lookup): the documents describe the policy as a function of the system, the keyword arguments and
  the options only; the code consults the configured subproject first (before the system, also under
  nofallback, also for optional lookups).  A.9 rule 2 marks this undocumented, so such a cell accepts the
  documented answer or the configured subproject's dependency (version-checked);
* a lookup after an earlier lookup of the same name *found* something, with different arguments and a
  documented stateless answer naming another provider.
"""
from __future__ import annotations

import re
import typing as T

Answer = T.Tuple[str, ...]
NOTFOUND: Answer = ('notfound',)
ERROR: Answer = ('error',)

WRAP_MODES = ('default', 'nofallback', 'nodownload', 'forcefallback')
FFF = ('none', 'dep', 'sub')           # force_fallback_for: empty / the dependency's name / the subproject's name
LINKS = ('none', 'explicit', 'provide')  # how a lookup is linked to a fallback subproject


# ---- version constraints (dependency.yaml `version`: comparison operator followed by the version) ----
def _vkey(v: str) -> T.Tuple[int, ...]:
    return tuple(int(x) for x in re.findall(r'\d+', v))


def _pad(a: T.Tuple[int, ...], b: T.Tuple[int, ...]) -> T.Tuple[T.Tuple[int, ...], T.Tuple[int, ...]]:
    n = max(len(a), len(b))
    return a + (0,) * (n - len(a)), b + (0,) * (n - len(b))


def satisfies(version: T.Optional[str], constraint: T.Optional[str]) -> bool:
    """Only the purely numeric dotted versions used by the generator ('1.0', '2', '2.1')."""
    if not constraint:
        return True
    if version is None:
        return False  # "These requirements are never met if the version is unknown."
    m = re.fullmatch(r'\s*(>=|<=|==|!=|>|<|=)?\s*([0-9.]+)\s*', constraint)
    assert m, constraint
    op, ref = m.group(1) or '==', m.group(2)
    a, b = _pad(_vkey(version), _vkey(ref))
    return {'>=': a >= b, '<=': a <= b, '>': a > b, '<': a < b, '==': a == b, '=': a == b, '!=': a != b}[op]


class Lookup(T.NamedTuple):
    """One dependency('foo', ...) call."""
    constraint: T.Optional[str] = None       # version:
    required: bool = True
    allow_fallback: T.Optional[bool] = None  # unset / true / false
    explicit_fallback: bool = False          # fallback: ['sub', 'foo_dep'] given in the call


class World(T.NamedTuple):
    """Circumstances that do not change during one configuration."""
    system: T.Optional[str] = None           # version of foo.pc or None
    wrap_mode: str = 'default'
    fff: str = 'none'
    provide: bool = False                    # a wrap file's [provide] section names the dependency
    sub_on_disk: bool = True                 # the subproject's tree is present (nothing to download)
    sub_version: T.Optional[str] = None      # version of the dependency the subproject declares


class State:
    """What changes during one configuration."""

    def __init__(self, override: T.Optional[Answer] = None, configured: bool = False) -> None:
        self.override = override             # answer registered by an explicit meson.override_dependency()
        self.configured = configured         # the fallback subproject has already been configured
        self.sticky: T.Optional[Answer] = None  # an earlier lookup of the name found this
        self.sticky_args: T.Optional[Lookup] = None

    def copy(self) -> 'State':
        s = State(self.override, self.configured)
        s.sticky, s.sticky_args = self.sticky, self.sticky_args
        return s


def forced(w: World, lk: Lookup) -> bool:
    """A.9 rule 3.  Only matters when a fallback is available."""
    has_link = lk.explicit_fallback or w.provide
    return w.wrap_mode == 'forcefallback' or w.fff == 'dep' or (w.fff == 'sub' and has_link)


def fallback_available(w: World, lk: Lookup) -> T.Optional[bool]:
    """A.9 rule 2.  None = the documents do not decide (fallback: together with allow_fallback:)."""
    if lk.explicit_fallback:
        if lk.allow_fallback is not None:
            return None
        return True
    if lk.allow_fallback is False:
        return False
    if w.provide:
        if lk.allow_fallback is True:
            return True
        return lk.required or forced(w, lk)
    return False


def _finish(ans: Answer, lk: Lookup) -> Answer:
    """A.9 rule 6."""
    if ans == NOTFOUND and lk.required:
        return ERROR
    return ans


def _sub_answer(w: World, lk: Lookup) -> Answer:
    if w.sub_version is not None and satisfies(w.sub_version, lk.constraint):
        return ('sub', w.sub_version)
    return NOTFOUND


def stateless(w: World, lk: Lookup) -> T.Tuple[T.Optional[Answer], T.Dict[str, T.Any]]:
    """Rules 2-6 for a lookup in a configuration where nothing has happened yet.
    Returns (answer or None when open, facts) ; facts feed the online rules of the monitors."""
    avail = fallback_available(w, lk)
    frc = forced(w, lk)
    facts = {'available': avail, 'forced': frc,
             'system_must_not_be_consulted': bool(avail) and frc,
             'no_subproject_from_lookup': (w.wrap_mode == 'nofallback' and not frc) or avail is False}
    if avail is None:
        return None, facts
    if frc and avail:
        # rule 4: system never consulted; force_fallback_for beats nofallback; forcefallback excludes nofallback;
        # with nodownload it "will only work if the subproject has already been downloaded"
        if not w.sub_on_disk and w.wrap_mode == 'nodownload':
            return _finish(NOTFOUND, lk), facts
        return _finish(_sub_answer(w, lk), lk), facts
    # rule 5
    if w.system is not None and satisfies(w.system, lk.constraint):
        return ('system', w.system), facts
    if avail and w.wrap_mode != 'nofallback':
        if not w.sub_on_disk and w.wrap_mode == 'nodownload':
            return _finish(NOTFOUND, lk), facts
        return _finish(_sub_answer(w, lk), lk), facts
    return _finish(NOTFOUND, lk), facts


def expect(w: World, st: State, lk: Lookup) -> T.Tuple[T.Set[Answer], str, T.Dict[str, T.Any]]:
    """Allowed answers for lookup `lk` in world `w`, state `st` -> (set, 'doc'|'open', facts)."""
    base, facts = stateless(w, lk)
    # rule 1: an explicit override wins unconditionally; a failing version constraint gives not-found,
    # never the system.
    if st.override is not None:
        facts = dict(facts, system_must_not_be_consulted=True, no_subproject_from_lookup=True)
        if satisfies(st.override[1], lk.constraint):
            return {st.override}, 'doc', facts
        return {_finish(NOTFOUND, lk)}, 'doc', facts
    # rule 7 / dependency.yaml: "Once one of the name has been found ... subsequent calls for any of those
    # name will return the same value".
    if st.sticky is not None:
        facts = dict(facts, system_must_not_be_consulted=False, no_subproject_from_lookup=False)
        same = satisfies(st.sticky[1], lk.constraint)
        if st.sticky_args == lk:
            return {st.sticky}, 'doc', facts            # same arguments -> same answer (property text)
        allowed: T.Set[Answer] = {st.sticky} if same else {_finish(NOTFOUND, lk)}
        if base is not None:
            allowed.add(base)
        return allowed, ('doc' if len(allowed) == 1 else 'open'), facts
    if base is None:
        return {ERROR}, 'open', facts
    has_link = lk.explicit_fallback or (w.provide and lk.allow_fallback is not False)
    if st.configured and has_link:
        alt = _finish(_sub_answer(w, lk), lk)
        if alt == base:
            return {base}, 'doc', dict(facts, no_subproject_from_lookup=False)
        return {base, alt}, 'open', dict(facts, no_subproject_from_lookup=False,
                                         system_must_not_be_consulted=facts['system_must_not_be_consulted'])
    return {base}, 'doc', facts


def advance(w: World, st: State, lk: Lookup, observed: Answer, sub_configured: bool,
            sub_overrides: T.Optional[Answer] = None) -> None:
    """Update the state after a lookup whose (already judged) answer was `observed`; `sub_configured` is the
    monitor's observation that the fallback subproject has been configured by now (it only widens later cells);
    `sub_overrides` is the answer the subproject registers with meson.override_dependency() when it is configured."""
    if sub_configured and sub_overrides is not None and st.override is None:
        st.override = sub_overrides
    if observed and observed[0] in ('system', 'sub', 'override') and st.override is None and st.sticky is None:
        st.sticky, st.sticky_args = observed, lk
    if sub_configured or (observed and observed[0] == 'sub'):
        st.configured = True


def selftest() -> None:
    W, L, S = World, Lookup, State
    w = W(system='1.0', provide=True, sub_version='2.1')
    assert expect(w, S(), L())[0] == {('system', '1.0')}
    assert expect(w, S(), L(constraint='>=2'))[0] == {('sub', '2.1')}
    assert expect(w, S(), L(constraint='>=2', required=False))[0] == {NOTFOUND}
    assert expect(w, S(), L(constraint='>=2', required=False, allow_fallback=True))[0] == {('sub', '2.1')}
    assert expect(w._replace(wrap_mode='nofallback'), S(), L(constraint='>=2'))[0] == {ERROR}
    assert expect(w._replace(wrap_mode='nofallback', fff='sub'), S(), L())[0] == {('sub', '2.1')}
    assert expect(w._replace(wrap_mode='forcefallback'), S(), L(required=False))[0] == {('sub', '2.1')}
    assert expect(w._replace(wrap_mode='forcefallback'), S(), L(allow_fallback=False))[0] == {('system', '1.0')}
    assert expect(w._replace(wrap_mode='forcefallback'), S(), L(constraint='<2'))[0] == {ERROR}
    assert expect(w, S(override=('override', '1.2')), L(constraint='>=2', required=False))[0] == {NOTFOUND}
    assert expect(w, S(override=('override', '1.2')), L())[0] == {('override', '1.2')}
    assert expect(W(system=None), S(), L(required=False))[0] == {NOTFOUND}
    assert expect(W(system='2.0', fff='dep'), S(), L())[0] == {('system', '2.0')}
    assert expect(w, S(configured=True), L())[1] == 'open'
    assert satisfies('2.0', '>=2') and not satisfies('1.1', '>=2') and satisfies('1.1', '<2') and not satisfies('2', '<2')


if __name__ == '__main__':
    selftest()
    print('refdeps selftest ok')
