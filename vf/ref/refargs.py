"""refargs - eager reference meaning of a compiler argument list (property C13).

Written from the text of property C13 and from the *documentation* inside mesonbuild/arglist.py
(class docstrings of ``Dedup`` and ``CompilerArgs``, docstrings of ``append_direct`` /
``extend_direct``) and the comments of ``CLikeCompilerArgs.to_native``.  It never imports mesonbuild
and shares no code with it.  Everything is done eagerly on one plain Python list, with removals:

* a ``+=`` batch (``append``/``extend`` are batches too): every prepend-class argument (``-I``, ``-L``)
  of the batch goes, in batch order, in front of everything added earlier; every other argument is
  appended in the order added;
* OVERRIDDEN arguments ("can be overridden by a later argument ... we can safely remove the previous
  occurrence and add a new one"): identical older occurrences are removed; the survivor is the
  front-most one for the prepend class and the last one for the others;
* UNIQUE arguments ("once specified cannot be undone ... new instances can be completely skipped"):
  a repeat is dropped;
* NO_DEDUP: kept, in order, with multiplicity;
* an argument that *is* a bare prefix (``-I``, ``-D``, ``-l`` alone) is defined by what follows it and is
  never de-duplicated;
* ``insert``, ``__setitem__``, ``__delitem__`` and the constructor act directly on the list;
  ``append_direct`` appends "without any reordering or de-dup except for absolute paths";
* ``to_native`` (C-like): ``-Wl,--start-group`` before the first and ``-Wl,--end-group`` after the last
  library argument when there are several and the linker is GNU-like; ``-isystem`` of a default
  include directory is removed.

The classification tables are DATA (``Table`` instances below, transcribed by hand from the documented
tables); the monitor passes the one that belongs to the class of the observed object.
"""
from __future__ import annotations

import os
import re
import typing as T

NONE = 'none'
UNIQUE = 'unique'
OVERRIDDEN = 'overridden'


class Table:
    """Classification of argument strings (data only)."""

    def __init__(self, name: str, prepend_prefixes: T.Sequence[str] = (),
                 overridden_prefixes: T.Sequence[str] = (), overridden_suffixes: T.Sequence[str] = (),
                 overridden_args: T.Sequence[str] = (),
                 unique_prefixes: T.Sequence[str] = (), unique_suffixes: T.Sequence[str] = (),
                 unique_args: T.Sequence[str] = (), unique_regex: T.Optional[str] = None,
                 always_dedup_args: T.Sequence[str] = ()) -> None:
        self.name = name
        self.prepend_prefixes = tuple(prepend_prefixes)
        self.overridden_prefixes = tuple(overridden_prefixes)
        self.overridden_suffixes = tuple(overridden_suffixes)
        self.overridden_args = frozenset(overridden_args)
        self.unique_prefixes = tuple(unique_prefixes)
        self.unique_suffixes = tuple(unique_suffixes)
        self.unique_args = frozenset(unique_args)
        self.unique_regex = re.compile(unique_regex) if unique_regex else None
        self.always_dedup_args = frozenset(always_dedup_args)
        self._kind: T.Dict[str, str] = {}

    def kind(self, arg: str) -> str:
        k = self._kind.get(arg)
        if k is None:
            k = self._kind[arg] = self._classify(arg)
        return k

    def _classify(self, arg: str) -> str:
        # "-D FOO -D BAR": the bare prefix is defined by what comes after it
        if arg in self.unique_prefixes or arg in self.overridden_prefixes:
            return NONE
        if arg in self.overridden_args or \
                (self.overridden_prefixes and arg.startswith(self.overridden_prefixes)) or \
                (self.overridden_suffixes and arg.endswith(self.overridden_suffixes)):
            return OVERRIDDEN
        if arg in self.unique_args or \
                (self.unique_prefixes and arg.startswith(self.unique_prefixes)) or \
                (self.unique_suffixes and arg.endswith(self.unique_suffixes)) or \
                (self.unique_regex is not None and self.unique_regex.search(arg)):
            return UNIQUE
        return NONE

    def prepends(self, arg: str) -> bool:
        return bool(self.prepend_prefixes) and arg.startswith(self.prepend_prefixes)

    @staticmethod
    def is_abs(arg: str) -> bool:
        return arg.startswith('/')       # POSIX only (DESIGN.md section 4, platform)


_INTERNAL_LIBS = ('m', 'c', 'pthread', 'dl', 'rt', 'execinfo')
_LIB_SUFFIXES = ('.lib', '.dll', '.so', '.dylib', '.a')
_VERSIONED_SO = r'([\/\\]|\A)lib.*\.so(\.[0-9]+)?(\.[0-9]+)?(\.[0-9]+)?$'

#: generic list (static linkers, non C-like compilers): nothing prepends, nothing is overridden,
#: library files are once-only
BASE = Table('base', unique_suffixes=_LIB_SUFFIXES, unique_regex=_VERSIONED_SO,
             always_dedup_args=['-l' + x for x in _INTERNAL_LIBS])

#: C-like compilers.  ``-isystem`` is documented as deliberately NOT prepend-class.
CLIKE = Table('clike',
              prepend_prefixes=('-I', '-L'),
              overridden_prefixes=('-I', '-isystem', '-L', '-D', '-U'),
              unique_prefixes=('-l', '-Wl,-l', '-Wl,-rpath,', '-Wl,-rpath-link,'),
              unique_suffixes=_LIB_SUFFIXES, unique_regex=_VERSIONED_SO,
              unique_args=('-c', '-S', '-E', '-pipe', '-pthread', '-Wl,--export-dynamic'),
              always_dedup_args=['-l' + x for x in _INTERNAL_LIBS])

# library arguments for the start/end group: "*.so[.N[.N[.N]]]" not passed through -Wl, ; "-lfoo" or
# "-Wl,-lfoo"; "*.a"
_SO_TAIL = re.compile(r'\.so(\.[0-9]+)?(\.[0-9]+)?(\.[0-9]+)?$')


def is_group_lib(arg: str) -> bool:
    if arg.startswith('-l') or arg.startswith('-Wl,-l'):
        return True
    if arg.endswith('.a'):
        return True
    if not arg.startswith('-Wl,') and '\n' not in arg and _SO_TAIL.search(arg):
        return True
    return False


class RefArgs:
    """The eager list."""

    def __init__(self, table: Table, initial: T.Iterable[str] = ()) -> None:
        self.t = table
        self.items: T.List[str] = list(initial)

    # ---- the override/dedup path ------------------------------------------------------
    def add_batch(self, batch: T.Iterable[str]) -> None:
        t = self.t
        front: T.List[str] = []
        for arg in batch:
            kind = t.kind(arg)
            if kind == UNIQUE and (arg in self.items or arg in front):
                continue
            if t.prepends(arg):
                if kind == OVERRIDDEN:
                    if arg in front:
                        continue                     # the front-most occurrence survives
                    if arg in self.items:
                        self.items = [x for x in self.items if x != arg]
                front.append(arg)
            else:
                if kind == OVERRIDDEN and arg in self.items:
                    self.items = [x for x in self.items if x != arg]   # the last occurrence survives
                self.items.append(arg)
        if front:
            self.items[0:0] = front

    def append(self, arg: str) -> None:
        self.add_batch([arg])

    extend = add_batch

    # ---- direct operations --------------------------------------------------------------
    def insert(self, index: int, value: str) -> None:
        self.items.insert(index, value)

    def setitem(self, index: T.Union[int, slice], value: T.Any) -> None:
        self.items[index] = value

    def delitem(self, index: T.Union[int, slice]) -> None:
        del self.items[index]

    def append_direct(self, arg: str) -> None:
        if self.t.is_abs(arg):
            self.add_batch([arg])
        else:
            self.items.append(arg)

    def extend_direct(self, args: T.Iterable[str]) -> None:
        for a in args:
            self.append_direct(a)

    def extend_preserving_lflags(self, args: T.Iterable[str]) -> None:
        normal: T.List[str] = []
        lflags: T.List[str] = []
        for a in args:
            if a not in self.t.always_dedup_args and (a.startswith('-l') or a.startswith('-L')):
                lflags.append(a)
            else:
                normal.append(a)
        self.add_batch(normal)
        self.extend_direct(lflags)

    # ---- derived lists ------------------------------------------------------------------
    def copy(self) -> 'RefArgs':
        return RefArgs(self.t, self.items)

    def added(self, batch: T.Iterable[str]) -> 'RefArgs':          # self + batch
        c = self.copy()
        c.add_batch(batch)
        return c

    def radded(self, left: T.Iterable[str]) -> 'RefArgs':          # left + self
        c = RefArgs(self.t, left)
        c.add_batch(list(self.items))
        return c

    def native_form(self, gnu_group: bool, default_dirs: T.Sequence[str] = (),
                    realpath: T.Callable[[str], str] = os.path.realpath) -> T.List[str]:
        """Argument list handed to the compiler-specific translation by to_native()."""
        out = list(self.items)
        if gnu_group:
            libs = [i for i, a in enumerate(out) if is_group_lib(a)]
            if len(libs) >= 2:
                out.insert(libs[-1] + 1, '-Wl,--end-group')
                out.insert(libs[0], '-Wl,--start-group')
        if default_dirs:
            real = {realpath(d) for d in default_dirs}
            keep: T.List[str] = []
            skip_next = False
            for i, a in enumerate(out):
                if skip_next:
                    skip_next = False
                    continue
                if a == '-isystem':
                    if i + 1 < len(out) and realpath(out[i + 1]) in real:
                        skip_next = True
                        continue
                elif a.startswith('-isystem='):
                    if realpath(a[9:]) in real:
                        continue
                elif a.startswith('-isystem'):
                    if realpath(a[8:]) in real:
                        continue
                keep.append(a)
            out = keep
        return out


# ---- conservation oracle (independent of RefArgs.add_batch) -------------------------------
class Conservation:
    """What the property promises without reference to positions of de-dupable arguments:
    no argument lost or invented; non-dedupable arguments keep multiplicity, and the ones that are not
    prepend-class keep their relative order (= order of addition)."""

    def __init__(self, table: Table, initial: T.Iterable[str] = ()) -> None:
        self.t = table
        self.reset(initial)

    def reset(self, items: T.Iterable[str]) -> None:
        items = list(items)
        self.members = set(items)
        self.nd_seq = [a for a in items if self._nd(a) and not self.t.prepends(a)]
        self.nd_front: T.Dict[str, int] = {}
        for a in items:
            if self._nd(a) and self.t.prepends(a):
                self.nd_front[a] = self.nd_front.get(a, 0) + 1

    def _nd(self, a: str) -> bool:
        return self.t.kind(a) == NONE

    def added(self, batch: T.Iterable[str]) -> None:
        """Arguments supplied through any append-like operation (batch or direct)."""
        for a in batch:
            self.members.add(a)
            if self._nd(a):
                if self.t.prepends(a):
                    self.nd_front[a] = self.nd_front.get(a, 0) + 1
                else:
                    self.nd_seq.append(a)

    def check(self, observed: T.Sequence[str]) -> T.Optional[str]:
        obs_set = set(observed)
        if obs_set - self.members:
            return 'invented'
        if self.members - obs_set:
            return 'lost'
        seq = [a for a in observed if self._nd(a) and not self.t.prepends(a)]
        if seq != self.nd_seq:
            return 'nondedup-multiplicity' if sorted(seq) != sorted(self.nd_seq) else 'nondedup-order'
        front: T.Dict[str, int] = {}
        for a in observed:
            if self._nd(a) and self.t.prepends(a):
                front[a] = front.get(a, 0) + 1
        if front != self.nd_front:
            return 'nondedup-multiplicity'
        return None
