"""reftemplate -- reference reading of meson's configure_file() template formats (property C14).

Written from docs/markdown/Configuration.md, docs/yaml/functions/configure_file.yaml, the wording of
property C14 and -- for the backslash escapes, on which the prose is silent -- from the upstream fixture
"test cases/common/14 configure file/config6.h.in" + prog6.c (see selftest_fixture()).

Independence: this file never imports mesonbuild and shares no regular expression with it; everything is a
hand-written left-to-right scanner over one line at a time.

Vocabulary
  data      plain dict  name -> str | int | bool   (an absent name is "undefined")
  LineRes   what the documents demand for one input line:
              kind 'plain'   out is the demanded text of the line
              kind 'define'  bodies = acceptable texts before the terminator (compared modulo trailing blanks)
              kind 'unspec'  the documents do not say (malformed directive, exotic blanks, cmake corner):
                             only consistency may be demanded (no internal error, determinism)
            flags: reasons why a plain line is only softly specified (e.g. deprecated bool in @VAR@)
"""
from __future__ import annotations

import json
import typing as T

Value = T.Union[str, int, bool]
Data = T.Mapping[str, Value]

_ALNUM = 'abcdefghijklmnopqrstuvwxyzABCDEFGHIJKLMNOPQRSTUVWXYZ0123456789'
MESON_NAME = frozenset(_ALNUM + '_-')
CMAKE_NAME = frozenset(_ALNUM + '_/.+-')
BLANK = ' \t'
# what this reference accepts as white space on a directive line; any other character for which
# str.isspace() holds makes the line 'unspec' (the documents say nothing about NBSP, FS, VT ...)
_PLAIN_WS = frozenset(' \t\r\n')

MESON, CMAKE, CMAKE_AT = 'meson', 'cmake', 'cmake@'
FORMATS = (MESON, CMAKE, CMAKE_AT)


# ------------------------------------------------------------------------------------------------
# lines
# ------------------------------------------------------------------------------------------------
def split_lines(text: str) -> T.List[str]:
    """Lines with their terminators; a terminator is \\r\\n, \\n or a lone \\r (what a text file opened
    with newline='' yields)."""
    out: T.List[str] = []
    start = 0
    i = 0
    n = len(text)
    while i < n:
        c = text[i]
        if c == '\n':
            out.append(text[start:i + 1])
            start = i + 1
        elif c == '\r':
            if i + 1 < n and text[i + 1] == '\n':
                i += 1
            out.append(text[start:i + 1])
            start = i + 1
        i += 1
    if start < n:
        out.append(text[start:])
    return out


def eol_of(line: str) -> str:
    if line.endswith('\r\n'):
        return '\r\n'
    if line.endswith('\n'):
        return '\n'
    if line.endswith('\r'):
        return '\r'
    return ''


def _has_exotic_space(s: str) -> bool:
    for c in s:
        if c not in _PLAIN_WS and c.isspace():
            return True
    return False


def _tokens(s: str) -> T.List[str]:
    """Split on runs of blank/CR/LF (only called when _has_exotic_space() is False)."""
    out: T.List[str] = []
    cur: T.List[str] = []
    for c in s:
        if c in _PLAIN_WS:
            if cur:
                out.append(''.join(cur))
                cur = []
        else:
            cur.append(c)
    if cur:
        out.append(''.join(cur))
    return out


class Span(T.NamedTuple):
    start: int       # in the source line
    end: int
    name: str
    text: str        # what stands in the output for it
    kind: str        # 'var' | 'escaped' | 'collapse' | 'undef'


class Scan:
    __slots__ = ('out', 'missing', 'spans', 'flags')

    def __init__(self) -> None:
        self.out = ''
        self.missing: T.Set[str] = set()
        self.spans: T.List[Span] = []
        self.flags: T.Set[str] = set()


class LineRes:
    __slots__ = ('src', 'kind', 'out', 'bodies', 'eol', 'missing', 'flags', 'name', 'why', 'spans', 'directive')

    def __init__(self, src: str) -> None:
        self.src = src
        self.kind = 'plain'
        self.out: T.Optional[str] = None
        self.bodies: T.List[str] = []
        self.eol = eol_of(src)
        self.missing: T.Set[str] = set()
        self.flags: T.Set[str] = set()
        self.name: T.Optional[str] = None
        self.why = ''
        self.spans: T.List[Span] = []
        self.directive = ''


# ------------------------------------------------------------------------------------------------
# meson format, ordinary line
# ------------------------------------------------------------------------------------------------
def render_value_meson(v: Value) -> str:
    # "replace them with respective values": strings verbatim, integers in decimal.
    # Booleans in @VAR@ are deprecated and their rendering undocumented -> flagged soft by the caller.
    if isinstance(v, bool):
        return 'True' if v else 'False'
    if isinstance(v, int):
        return _dec(v)
    return v


def _dec(n: int) -> str:
    if n == 0:
        return '0'
    neg = n < 0
    n = -n if neg else n
    digs: T.List[str] = []
    while n:
        n, r = divmod(n, 10)
        digs.append('0123456789'[r])
    if neg:
        digs.append('-')
    return ''.join(reversed(digs))


def scan_meson(line: str, data: Data) -> Scan:
    """@name@ substitution with the escape rules pinned by config6.h.in:
       * a run of r >= 2 backslashes directly before '@' loses half of its pairs: floor(r/2) remain in the
         output for the 2*floor(r/2) consumed; an odd run leaves one backslash to be looked at again;
       * a single backslash before '@name' + backslash + '@' is the escaped form: output '@name@';
       * an '@' directly preceded (in the source text) by a backslash never opens a variable;
       * otherwise '@' + one or more of [A-Za-z0-9_-] + '@' is a variable; everything else is copied.
       A substituted value is emitted and never looked at again."""
    sc = Scan()
    out: T.List[str] = []
    n = len(line)
    i = 0
    while i < n:
        c = line[i]
        if c == '\\':
            j = i
            while j < n and line[j] == '\\':
                j += 1
            r = j - i
            if j < n and line[j] == '@':
                if r >= 2:
                    k = r // 2
                    out.append('\\' * k)
                    sc.spans.append(Span(i, i + 2 * k, '', '\\' * k, 'collapse'))
                    i += 2 * k
                    continue
                m = i + 2
                while m < n and line[m] in MESON_NAME:
                    m += 1
                if m > i + 2 and m + 1 < n and line[m] == '\\' and line[m + 1] == '@':
                    name = line[i + 2:m]
                    out.append('@' + name + '@')
                    sc.spans.append(Span(i, m + 2, name, '@' + name + '@', 'escaped'))
                    i = m + 2
                    continue
                out.append('\\')
                i += 1
                continue
            out.append(line[i:j])
            i = j
            continue
        if c == '@' and not (i > 0 and line[i - 1] == '\\'):
            m = i + 1
            while m < n and line[m] in MESON_NAME:
                m += 1
            if m > i + 1 and m < n and line[m] == '@':
                name = line[i + 1:m]
                if name in data:
                    v = data[name]
                    if isinstance(v, bool):
                        sc.flags.add('soft:bool-in-at-substitution')
                    txt = render_value_meson(v)
                    sc.spans.append(Span(i, m + 1, name, txt, 'var'))
                else:
                    txt = ''
                    sc.missing.add(name)
                    sc.spans.append(Span(i, m + 1, name, txt, 'undef'))
                out.append(txt)
                i = m + 1
                continue
        out.append(c)
        i += 1
    sc.out = ''.join(out)
    return sc


# ------------------------------------------------------------------------------------------------
# meson format, #mesondefine line
# ------------------------------------------------------------------------------------------------
def define_bodies(name: str, data: Data, undef_01: bool = False) -> T.List[str]:
    """Configuration.md:
         #define TOKEN     // If TOKEN is set to boolean true.
         #undef TOKEN      // If TOKEN is set to boolean false.
         #define TOKEN 4   // If TOKEN is set to an integer or string value.
         /* undef TOKEN */ // If TOKEN has not been set to any value.
       (the code and the upstream unit tests write '/* #undef TOKEN */'; both spellings are accepted)."""
    if name not in data:
        return ['/* #undef ' + name + ' */', '/* undef ' + name + ' */']
    v = data[name]
    if isinstance(v, bool):
        return ['#define ' + name] if v else ['#undef ' + name]
    if isinstance(v, int):
        return ['#define ' + name + ' ' + _dec(v)]
    return ['#define ' + name + ' ' + v]


def classify_meson_line(line: str) -> T.Tuple[str, str, str]:
    """-> (kind, name, why) with kind in 'plain' | 'define' | 'unspec'."""
    body = line[:len(line) - len(eol_of(line))]
    k = 0
    while k < len(body) and body[k] in BLANK:
        k += 1
    rest = body[k:]
    if rest.startswith('#mesondefine'):
        if _has_exotic_space(body):
            return 'unspec', '', 'exotic white space on a #mesondefine line'
        toks = _tokens(body)
        if toks[0] != '#mesondefine':
            return 'unspec', '', 'text glued to #mesondefine'
        if len(toks) != 2:
            return 'unspec', '', '#mesondefine without exactly one name (upstream: error)'
        return 'define', toks[1], ''
    # not a directive in the documented position
    stripped = body.lstrip()
    if stripped.startswith('#mesondefine'):
        return 'unspec', '', 'exotic white space before #mesondefine'
    if _mentions_cmakedefine(body):
        return 'unspec', '', '#cmakedefine in a meson-format template (upstream: format error)'
    return 'plain', '', ''


def _mentions_cmakedefine(body: str) -> bool:
    # '#', optional white space, 'cmakedefine' anywhere on the line
    i = body.find('#')
    while i != -1:
        j = i + 1
        while j < len(body) and body[j].isspace():
            j += 1
        if body.startswith('cmakedefine', j):
            return True
        i = body.find('#', i + 1)
    return False


# ------------------------------------------------------------------------------------------------
# cmake / cmake@ formats
# ------------------------------------------------------------------------------------------------
def render_value_cmake(v: Value) -> str:
    if isinstance(v, bool):
        return '1' if v else '0'
    if isinstance(v, int):
        return _dec(v)
    return v


class _Unspec(Exception):
    pass


def scan_cmake(line: str, data: Data, at_only: bool, skip_after_empty: bool = False) -> Scan:
    """@NAME@ (both cmake formats) and ${NAME} with nesting (format 'cmake' only); NAME over
    [A-Za-z0-9_/.+-].  A well-formed placeholder is replaced by its value once.
    flags:
      unspec:*  the line has a shape the documents say nothing about (malformed ${, a value that itself
                contains '@' or '$': upstream re-reads it).  A backslash never escapes (fixture config7.h.in).
    skip_after_empty=True reproduces one known upstream deviation for the classifier: after an EMPTY
    substitution the next character is copied without being considered as the start of a placeholder."""
    sc = Scan()
    out: T.List[str] = []
    n = len(line)
    i = 0
    literal_next = False

    def lookup(name: str, start: int, end: int) -> str:
        if name in data:
            txt = render_value_cmake(data[name])
            if isinstance(data[name], str) and ('@' in txt or '$' in txt):
                sc.flags.add('unspec:value-contains-placeholder-characters')
            sc.spans.append(Span(start, end, name, txt, 'var'))
        else:
            txt = ''
            sc.missing.add(name)
            sc.spans.append(Span(start, end, name, txt, 'undef'))
        return txt

    def braces(pos: int) -> T.Tuple[str, int]:
        """line[pos:pos+2] == '${' ; returns (variable name, index after the closing brace)."""
        j = pos + 2
        name: T.List[str] = []
        while True:
            if j >= n:
                raise _Unspec('unterminated ${')
            ch = line[j]
            if ch == '}':
                return ''.join(name), j + 1
            if ch == '$' and j + 1 < n and line[j + 1] == '{':
                inner, j = braces(j)
                if inner == '':
                    raise _Unspec('empty ${}')
                if inner in data:
                    v = render_value_cmake(data[inner])
                else:
                    v = ''
                    sc.missing.add(inner)
                for x in v:
                    if x not in CMAKE_NAME:
                        raise _Unspec('nested value is not a name')
                name.append(v)
                continue
            if ch in CMAKE_NAME:
                name.append(ch)
                j += 1
                continue
            raise _Unspec('character %r inside ${}' % ch)

    while i < n:
        c = line[i]
        if literal_next:
            literal_next = False
            out.append(c)
            i += 1
            continue
        if c == '@':
            m = i + 1
            while m < n and line[m] in CMAKE_NAME:
                m += 1
            if m > i + 1 and m < n and line[m] == '@':
                txt = lookup(line[i + 1:m], i, m + 1)   # config7.h.in: "cmake substitions cannot be escaped"
                out.append(txt)
                i = m + 1
                if skip_after_empty and txt == '':
                    literal_next = True
                continue
        elif c == '$' and not at_only and i + 1 < n and line[i + 1] == '{':
            try:
                name, j = braces(i)
            except _Unspec as e:
                sc.flags.add('unspec:' + str(e))
                sc.out = ''
                return sc
            if name == '':
                sc.flags.add('unspec:empty ${}')
                sc.out = ''
                return sc
            txt = lookup(name, i, j)
            out.append(txt)
            i = j
            if skip_after_empty and txt == '':
                literal_next = True
            continue
        out.append(c)
        i += 1
    sc.out = ''.join(out)
    return sc


def classify_cmake_line(line: str) -> T.Tuple[str, str, str, T.List[str]]:
    """-> (kind, directive, why, tokens) kind in 'plain' | 'define' | 'unspec'."""
    body = line[:len(line) - len(eol_of(line))]
    k = 0
    while k < len(body) and body[k] in BLANK:
        k += 1
    rest = body[k:]
    if rest.startswith('#cmakedefine'):
        if _has_exotic_space(body):
            if len(body.split()) < 2:
                return 'unspec', '', 'directive-without-name', []
            return 'unspec', '', 'exotic white space on a #cmakedefine line', []
        toks = _tokens(body)
        if len(toks) < 2:
            return 'unspec', toks[0], 'directive-without-name', toks
        if toks[0] not in ('#cmakedefine', '#cmakedefine01'):
            return 'unspec', '', 'text glued to #cmakedefine', toks
        if toks[0] == '#cmakedefine' and 'cmakedefine01' in body:
            return 'unspec', toks[0], 'cmakedefine01 mentioned on a #cmakedefine line', toks
        for ch in toks[1]:
            if ch not in MESON_NAME:
                return 'unspec', toks[0], 'directive name with unusual characters', toks
        return 'define', toks[0], '', toks
    s = body.lstrip()
    if s.startswith('#') and s[1:].lstrip().startswith('cmakedefine'):
        if len(s[1:].split()) < 2:
            return 'unspec', '', 'directive-without-name', []
        return 'unspec', '', 'white space inside/before the #cmakedefine directive', []
    if '#mesondefine' in body:
        return 'unspec', '', '#mesondefine in a cmake-format template (upstream: format error)', []
    return 'plain', '', '', []


def _falsy(v: Value) -> bool:
    return v is False or (isinstance(v, int) and not isinstance(v, bool) and v == 0) or v == ''


def cmake_define(lr: LineRes, toks: T.List[str], data: Data, at_only: bool) -> None:
    """#cmakedefine VAR [text...]  ->  '#define VAR text...' when VAR is set to a true value, else
    '/* #undef VAR */';  #cmakedefine01 VAR -> '#define VAR 1' / '#define VAR 0' (CMake's documented
    meaning of the directives; white space inside the directive is normalised by upstream and compared
    token-wise by the caller)."""
    name = toks[1]
    lr.name = name
    lr.directive = toks[0]
    if toks[0] == '#cmakedefine01':
        one = name in data and not _falsy(data[name])
        lr.bodies = ['#define ' + name + (' 1' if one else ' 0')]
        return
    if name not in data or _falsy(data[name]):
        lr.bodies = ['/* #undef ' + name + ' */', '/* undef ' + name + ' */']
        return
    rest = toks[2:]
    for t in rest:
        if t in data:
            lr.kind = 'unspec'
            lr.why = 'a bare token of the #cmakedefine text is itself a key'
            return
    sc = scan_cmake(' '.join(rest), data, at_only)
    if any(f.startswith('unspec:') for f in sc.flags):
        lr.kind = 'unspec'
        lr.why = 'cmakedefine text: ' + ','.join(sorted(sc.flags))
        return
    lr.bodies = [('#define ' + name + ' ' + sc.out)]
    lr.flags |= sc.flags
    # names undefined inside the text of the directive: demanded as "reported" by the property text
    lr.missing = set(sc.missing)
    lr.spans = sc.spans


# ------------------------------------------------------------------------------------------------
# whole template
# ------------------------------------------------------------------------------------------------
def render_line(line: str, data: Data, fmt: str) -> LineRes:
    lr = LineRes(line)
    if fmt == MESON:
        kind, name, why = classify_meson_line(line)
        lr.kind, lr.why = kind, why
        if kind == 'define':
            lr.name = name
            lr.directive = '#mesondefine'
            lr.bodies = define_bodies(name, data)
        elif kind == 'plain':
            sc = scan_meson(line, data)
            lr.out, lr.missing, lr.flags, lr.spans = sc.out, sc.missing, sc.flags, sc.spans
        return lr
    at_only = fmt == CMAKE_AT
    kind, directive, why, toks = classify_cmake_line(line)
    lr.kind, lr.why, lr.directive = kind, why, directive
    if kind == 'define':
        cmake_define(lr, toks, data, at_only)
    elif kind == 'plain':
        sc = scan_cmake(line, data, at_only)
        lr.missing, lr.flags, lr.spans = sc.missing, sc.flags, sc.spans
        if any(f.startswith('unspec:') for f in sc.flags):
            lr.kind = 'unspec'
            lr.why = ','.join(sorted(f for f in sc.flags if f.startswith('unspec:')))
        else:
            lr.out = sc.out
    return lr


def render(text: str, data: Data, fmt: str) -> T.List[LineRes]:
    return [render_line(l, data, fmt) for l in split_lines(text)]


def rstrip_blank(s: str) -> str:
    k = len(s)
    while k and s[k - 1] in BLANK:
        k -= 1
    return s[:k]


def split_eol(s: str) -> T.Tuple[str, str]:
    e = eol_of(s)
    return s[:len(s) - len(e)], e


def body_matches(lr: LineRes, actual_body: str) -> bool:
    """A directive line's produced text (without terminator) against the acceptable bodies, modulo
    trailing blanks; #cmakedefine text additionally modulo runs of blanks (upstream re-joins tokens)."""
    a = rstrip_blank(actual_body)
    for b in lr.bodies:
        if a == rstrip_blank(b):
            return True
    if lr.directive == '#cmakedefine':
        at = _tokens(actual_body)
        for b in lr.bodies:
            if at == _tokens(b):
                return True
    return False


# ------------------------------------------------------------------------------------------------
# obligations that do not depend on the escape rules
# ------------------------------------------------------------------------------------------------
def renderings(v: T.Optional[Value], fmt: str, present: bool) -> T.List[str]:
    if not present:
        return ['']
    if isinstance(v, bool):
        return ['True', 'False', '1', '0', 'true', 'false']   # rendering of booleans is not what this obligation is about
    if isinstance(v, int):
        return [_dec(v)]
    assert isinstance(v, str)
    return [v]


def copy_through(src: str, out: str, data: Data, fmt: str) -> bool:
    """Escape-agnostic copy-through: after deleting every backslash from both texts there is a way to
    read `out` as `src` in which some placeholders (@N@, and ${N} in format cmake) were replaced by a
    rendering of N (or by nothing when N is undefined) and every other character was copied in order.
    Says nothing about WHICH placeholders must be replaced (that is the scanner's job); it rejects any
    output character that is neither a copy nor part of a value standing where a placeholder stood."""
    s = src.replace('\\', '')
    o = out.replace('\\', '')
    names = MESON_NAME if fmt == MESON else CMAKE_NAME
    # placeholders available at each source position: list of (end, name)
    n = len(s)
    ph: T.Dict[int, T.List[T.Tuple[int, str]]] = {}
    for i in range(n):
        if s[i] == '@':
            m = i + 1
            while m < n and s[m] in names:
                m += 1
            if m > i + 1 and m < n and s[m] == '@':
                ph.setdefault(i, []).append((m + 1, s[i + 1:m]))
        elif s[i] == '$' and fmt == CMAKE and i + 1 < n and s[i + 1] == '{':
            m = i + 2
            while m < n and s[m] in names:
                m += 1
            if m > i + 2 and m < n and s[m] == '}':
                ph.setdefault(i, []).append((m + 1, s[i + 2:m]))
    # breadth-first over (source position, output position)
    seen = {(0, 0)}
    work = [(0, 0)]
    lo = len(o)
    while work:
        i, j = work.pop()
        if i == n and j == lo:
            return True
        if i < n and j < lo and s[i] == o[j]:
            st = (i + 1, j + 1)
            if st not in seen:
                seen.add(st)
                work.append(st)
        for end, name in ph.get(i, ()):
            present = name in data
            for r in renderings(data.get(name), fmt, present):
                r = r.replace('\\', '')
                if o.startswith(r, j):
                    st = (end, j + len(r))
                    if st not in seen:
                        seen.add(st)
                        work.append(st)
    return False


def verbatim_values(out: str, markers: T.Mapping[str, T.Tuple[str, str]]) -> T.Optional[str]:
    """No-rescan obligation on marker-wrapped values: markers maps name -> (opening marker, full value).
    Every occurrence of an opening marker in the output must be the start of the complete, unmodified
    value.  Returns the first offending name or None."""
    for name, (opening, full) in markers.items():
        p = out.find(opening)
        while p != -1:
            if not out.startswith(full, p):
                return name
            p = out.find(opening, p + 1)
    return None


# ------------------------------------------------------------------------------------------------
# header generated without a template
# ------------------------------------------------------------------------------------------------
class HeaderEntry(T.NamedTuple):
    key: str
    op: str                    # 'define' | 'undef'
    value: T.Optional[str]     # text after the key, None if nothing follows


def parse_header(text: str, output_format: str, macro_name: T.Optional[str]) -> T.List[HeaderEntry]:
    """Directives of a generated c / nasm header in file order (the include guard is not an entry)."""
    prefix = '#' if output_format == 'c' else '%'
    entries: T.List[HeaderEntry] = []
    guard_pending = False
    for raw in text.split('\n'):
        if not raw.startswith(prefix):
            continue
        rest = raw[1:]
        if output_format == 'c' and macro_name:
            if rest == 'ifndef ' + macro_name:
                guard_pending = True
                continue
            if guard_pending and rest == 'define ' + macro_name:
                guard_pending = False
                continue
            if rest == 'endif':
                continue
        if rest == 'pragma once':
            continue
        for op in ('define', 'undef'):
            if rest.startswith(op + ' '):
                tail = rest[len(op) + 1:]
                sp = tail.find(' ')
                if sp == -1:
                    entries.append(HeaderEntry(tail, op, None))
                else:
                    entries.append(HeaderEntry(tail[:sp], op, tail[sp + 1:]))
                break
        else:
            entries.append(HeaderEntry(rest, '?', None))
    return entries


def expected_header_entry(key: str, v: Value) -> HeaderEntry:
    # Configuration.md "Configuring without an input file": same replacements as #mesondefine
    if isinstance(v, bool):
        return HeaderEntry(key, 'define' if v else 'undef', None)
    if isinstance(v, int):
        return HeaderEntry(key, 'define', _dec(v))
    return HeaderEntry(key, 'define', v)


def check_header(text: str, data: Data, output_format: str, macro_name: T.Optional[str]) -> T.Optional[str]:
    """None if the header defines exactly the keys of data, once each, in sorted order, each rendered as
    documented; otherwise a short reason."""
    want = sorted(data.keys())
    if output_format == 'json':
        try:
            pairs = json.loads(text, object_pairs_hook=lambda p: p)
        except ValueError as e:
            return 'json-unparsable: %s' % e
        if not isinstance(pairs, list):
            return 'json-not-an-object'
        keys = [k for k, _ in pairs]
        if sorted(keys) != want:
            return 'keys-differ'
        if keys != want:
            return 'keys-unsorted'
        for k, v in pairs:
            if type(v) is not type(data[k]) or v != data[k]:
                return 'value-differs:' + k
        return None
    ent = parse_header(text, output_format, macro_name)
    keys = [e.key for e in ent]
    if sorted(keys) != want:
        return 'keys-differ'
    if keys != want:
        return 'keys-unsorted'
    for e in ent:
        x = expected_header_entry(e.key, data[e.key])
        if e.op != x.op:
            return 'value-differs:' + e.key
        if (e.value or '') != (x.value or ''):
            return 'value-differs:' + e.key
    return None


# ------------------------------------------------------------------------------------------------
# calibration on the upstream fixture (executable specification of the escapes)
# ------------------------------------------------------------------------------------------------
def c_string_value(lit: str) -> str:
    """Value of a C string literal body (between the quotes) as gcc reads it: \\\\ -> \\, and an unknown
    escape such as \\@ stands for the character itself."""
    out: T.List[str] = []
    i = 0
    while i < len(lit):
        if lit[i] == '\\' and i + 1 < len(lit):
            out.append(lit[i + 1])
            i += 2
        else:
            out.append(lit[i])
            i += 1
    return ''.join(out)


def selftest_fixture(config_in: str, prog_c: str) -> T.List[str]:
    """Run the scanner over config6.h.in with conf6 of the fixture's meson.build and compare every
    MESSAGEn with the string prog6.c expects.  Returns the list of disagreements (empty = calibrated)."""
    data = {'var1': 'foo', 'var2': 'bar', 'var3': 'baz', 'var4': 'qux'}
    got: T.Dict[str, str] = {}
    for lr in render(config_in, data, MESON):
        if lr.kind != 'plain' or lr.out is None:
            continue
        o = lr.out
        if o.startswith('#define MESSAGE'):
            head, _, tail = o.partition(' "')
            got[head[len('#define '):]] = c_string_value(tail.rstrip('\r\n')[:-1])
    want: T.Dict[str, str] = {}
    pos = 0
    while True:
        p = prog_c.find('strcmp(MESSAGE', pos)
        if p == -1:
            break
        q = prog_c.find(',', p)
        name = prog_c[p + len('strcmp('):q]
        a = prog_c.find('"', q)
        b = prog_c.find('"', a + 1)   # the fixture's expectations contain no escaped quote
        want[name] = c_string_value(prog_c[a + 1:b])
        pos = b
    bad = []
    for k in sorted(want):
        if got.get(k) != want[k]:
            bad.append('%s: scanner %r, fixture %r' % (k, got.get(k), want[k]))
    if len(want) < 12:
        bad.append('fixture not understood: only %d MESSAGE expectations found' % len(want))
    return bad


def selftest_fixture_cmake(config_in: str, prog_c: str) -> T.List[str]:
    """config7.h.in (format cmake, conf7) against prog7.c: the configured literal must be textually the
    literal prog7.c compares with (both sides go through the same C lexer)."""
    data = {'var1': 'foo', 'var2': 'bar'}
    got: T.Dict[str, str] = {}
    for lr in render(config_in, data, CMAKE):
        if lr.kind == 'plain' and lr.out is not None and lr.out.startswith('#define MESSAGE'):
            head, _, tail = lr.out.partition(' "')
            got[head[len('#define '):]] = tail.rstrip('\r\n')[:-1]
    bad = []
    n = 0
    pos = 0
    while True:
        p = prog_c.find('strcmp(MESSAGE', pos)
        if p == -1:
            break
        q = prog_c.find(',', p)
        name = prog_c[p + len('strcmp('):q]
        a = prog_c.find('"', q)
        b = prog_c.find('")', a + 1)
        n += 1
        if got.get(name) != prog_c[a + 1:b]:
            bad.append('%s: scanner %r, fixture %r' % (name, got.get(name), prog_c[a + 1:b]))
        pos = b
    if n < 8:
        bad.append('cmake fixture not understood: only %d expectations found' % n)
    return bad
