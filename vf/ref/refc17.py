"""refc17 -- reference view of a Meson *project* for C17 (rewriter edits are local and meaning-preserving).

Built on vf.ref.refmeson (the independent core-language reference); imports nothing from mesonbuild.

  ProjEval(files)        refmeson.Evaluator extended with the build functions the rewriter addresses
                         (build targets, dependency(), project(), files()); every argument of such a call is
                         evaluated on its own -- an argument the core-language reference cannot evaluate
                         (builtin objects, unknown functions, a runtime error) is kept as its s-expression.
  Model(files)           parse + run: statements with line extents per file, call records (function, file,
                         subdir, line extent, assigned variable, canonical positional/keyword values, nodes),
                         final variables.  .sources(rec)/.extra(rec): root-relative normalised paths.
  allowed_statements()   the statements a command may textually touch (the addressed call; for source edits
                         also every assignment feeding the addressed target's source arguments).
  locality()             skeleton match: all lines outside the allowed statements must re-appear verbatim, in order.
  explanations()         classifier: which *known mechanisms* can explain a failing step (evidence from the
                         pre-state statement AND from the text the rewriter produced).
"""
from __future__ import annotations

import os
import re
import typing as T

from vf.ref import refmeson as R

TARGET_FUNCS = ('executable', 'jar', 'library', 'shared_library', 'shared_module', 'static_library', 'both_libraries')
ADDRESSED_FUNCS = TARGET_FUNCS + ('dependency', 'project')

# characters at which Python's str.splitlines() breaks a line although they are not a newline for Meson
PY_ONLY_LINEBREAKS = '\x0b\x0c\x1c\x1d\x1e\x85\u2028\u2029'
PY_ONLY_LINEBREAKS_RE = re.compile('[' + PY_ONLY_LINEBREAKS + ']')


# --------------------------------------------------------------------------------------------------
# values

class RFile(T.NamedTuple):
    path: str          # root-relative, normalised


class RObj:
    """Result of a build function (target, dependency, anything the core language does not define)."""

    def __init__(self, kind: str, name: str) -> None:
        self.kind = kind
        self.name = name

    def __repr__(self) -> str:
        return f'<{self.kind} {self.name}>'


class Opaque:
    """An argument the reference could not evaluate: compared by s-expression."""

    def __init__(self, sx: str, why: str) -> None:
        self.sx = sx
        self.why = why


def canon(v: T.Any) -> T.Any:
    """JSON-able canonical form of a reference value."""
    t = type(v)
    if t in (bool, int, str):
        return v
    if v is None:
        return {'%void': 1}
    if t is list:
        return [canon(x) for x in v]
    if t is dict:
        return {'%dict': [[k, canon(x)] for k, x in v.items()]}
    if t is RFile:
        return {'%file': v.path}
    if t is RObj:
        return {'%obj': v.kind, 'name': v.name}
    if t is Opaque:
        return {'%opaque': v.sx}
    return {'%other': repr(v)}


def ceq(a: T.Any, b: T.Any) -> bool:
    """Strict equality of canonical values (a bool never equals an int)."""
    if type(a) is not type(b):
        return False
    if isinstance(a, list):
        return len(a) == len(b) and all(ceq(x, y) for x, y in zip(a, b))
    if isinstance(a, dict):
        return a.keys() == b.keys() and all(ceq(a[k], b[k]) for k in a)
    return bool(a == b)


def flatten(v: T.Any) -> T.List[T.Any]:
    if isinstance(v, list):
        out: T.List[T.Any] = []
        for x in v:
            out += flatten(x)
        return out
    return [v]


def listify(v: T.Any) -> T.List[T.Any]:
    return v if isinstance(v, list) else [v]


# --------------------------------------------------------------------------------------------------
# tree helpers

def walk(n: T.Any) -> T.Iterator[R.Node]:
    if isinstance(n, R.Node):
        yield n
        for x in n.a:
            yield from walk(x)
    elif isinstance(n, (tuple, list)):
        for x in n:
            yield from walk(x)


def ids_in(n: T.Any) -> T.Set[str]:
    return {x.a[0] for x in walk(n) if x.kind == 'id'}


class Stmt:
    __slots__ = ('kind', 'line', 'end_line', 'node', 'var', 'call', 'file', 'conditional')

    def __init__(self, node: R.Node, file: str, conditional: bool = False) -> None:
        self.node = node
        self.conditional = conditional      # inside an if / foreach block
        self.kind = node.kind
        self.line = node.line
        self.end_line = node.end_line
        self.file = file
        self.var: T.Optional[str] = None
        self.call: T.Optional[R.Node] = None
        if node.kind in ('assign', 'plusassign'):
            self.var = node.a[0]
            if node.a[1].kind == 'call':
                self.call = node.a[1]
        elif node.kind == 'call':
            self.call = node

    def key(self) -> T.Tuple[str, int]:
        return (self.file, self.line)


def simple_statements(tree: R.Node, file: str) -> T.List[Stmt]:
    out: T.List[Stmt] = []

    def rec(blk: R.Node, cond: bool) -> None:
        for st in blk.a[0]:
            if st.kind == 'if':
                for _c, b in st.a[0]:
                    rec(b, True)
                if st.a[1] is not None:
                    rec(st.a[1], True)
            elif st.kind == 'foreach':
                rec(st.a[2], True)
            else:
                out.append(Stmt(st, file, cond))
    rec(tree, False)
    return out


def stmt_text(text: str, st: Stmt) -> str:
    lines = text.split('\n')
    return '\n'.join(lines[st.line - 1:st.end_line])


# --------------------------------------------------------------------------------------------------
# evaluation

class CallRec:
    __slots__ = ('func', 'file', 'subdir', 'line', 'end_line', 'var', 'pos', 'kw', 'posn', 'kwn', 'node')

    def __init__(self) -> None:
        self.func = ''
        self.file = ''
        self.subdir = ''
        self.line = 0
        self.end_line = 0
        self.var: T.Optional[str] = None
        self.pos: T.List[T.Any] = []
        self.kw: T.List[T.Tuple[str, T.Any]] = []
        self.posn: T.Sequence[R.Node] = ()
        self.kwn: T.Sequence[T.Tuple[str, R.Node]] = ()
        self.node: T.Optional[R.Node] = None

    @property
    def name(self) -> T.Any:
        return self.pos[0] if self.pos else None

    def kwd(self) -> T.Dict[str, T.Any]:
        return dict(self.kw)

    def brief(self) -> dict:
        return {'func': self.func, 'file': self.file, 'line': self.line, 'pos': self.pos, 'kw': self.kw}


class ProjEval(R.Evaluator):
    """config: values of get_option(<name>) -- one *configuration* of the project.  A project that branches on
    get_option() is judged once per configuration (the rewriter has to be right in every one of them)."""

    def __init__(self, files: T.Mapping[str, str], config: T.Optional[T.Mapping[str, T.Any]] = None) -> None:
        super().__init__(files)
        self.calls: T.List[CallRec] = []
        self.config = dict(config or {})

    def _lenient(self, x: R.Node) -> T.Any:
        try:
            v = self.ev(x)
        except R.RefError as e:
            return Opaque(R.sexpr(x), f'{e.cls}: {e.msg}')
        if v is R.VOID:
            return Opaque(R.sexpr(x), 'void')
        return v

    def _call(self, n: R.Node) -> T.Any:
        name, posn, kwn = n.a
        known = getattr(self, '_f_' + name, None) is not None
        if name == 'files':
            pos, kw = self._args(posn, kwn)
            out = []
            for s in flatten(pos):
                if type(s) is not str:
                    raise R.RefRuntimeError('files() takes strings')
                out.append(RFile(os.path.normpath(os.path.join(self.scope.subdir, s))))
            return out
        if name == 'get_option' and len(posn) == 1 and not kwn and posn[0].kind == 'str' and posn[0].a[0] in self.config:
            return self.config[posn[0].a[0]]
        if name in ADDRESSED_FUNCS or not known:
            self.cover['func:' + name] += 1
            rec = CallRec()
            rec.func = name
            rec.file = self.scope.file
            rec.subdir = self.scope.subdir
            rec.line, rec.end_line = n.line, n.end_line
            rec.posn, rec.kwn, rec.node = posn, kwn, n
            rec.pos = [canon(self._lenient(x)) for x in posn]
            rec.kw = [(k, canon(self._lenient(x))) for k, x in kwn]
            self.calls.append(rec)
            if name == 'project':
                return R.VOID
            kind = 'target' if name in TARGET_FUNCS else ('dep' if name == 'dependency' else 'obj:' + name)
            nm = rec.pos[0] if rec.pos and isinstance(rec.pos[0], str) else R.sexpr(n)
            return RObj(kind, nm)
        return super()._call(n)


class Model:
    def __init__(self, files: T.Mapping[str, str], config: T.Optional[T.Mapping[str, T.Any]] = None) -> None:
        self.config = dict(config or {})
        self.files = {k: v for k, v in files.items() if k.endswith('meson.build')}
        self.trees: T.Dict[str, R.Node] = {}
        self.stmts: T.Dict[str, T.List[Stmt]] = {}
        self.parse_error: T.Optional[T.Tuple[str, R.RefError]] = None
        self.error: T.Optional[R.RefError] = None
        self.calls: T.List[CallRec] = []
        self.variables: T.Dict[str, T.Any] = {}
        # opaque target IDs -> (build file, target name), as the real `meson introspect --targets` reported them for
        # this project ("id" / "defined_in" / "name"); filled in by the driver, empty when nobody asked
        self.target_ids: T.Dict[str, T.Tuple[str, str]] = {}
        for f, text in self.files.items():
            try:
                self.trees[f] = R.parse(text)
            except R.RefError as e:
                if self.parse_error is None:
                    self.parse_error = (f, e)
                continue
            self.stmts[f] = simple_statements(self.trees[f], f)
        if self.parse_error is None:
            ev = ProjEval(self.files, self.config)
            out = ev.run()
            self.error = out.error
            self.calls = ev.calls
            self.variables = {k: canon(v) for k, v in out.variables.items()}
            bykey = {}
            for f, sts in self.stmts.items():
                for st in sts:
                    if st.call is not None:
                        bykey[(f, st.call.line, id(st.call))] = st
            for c in self.calls:
                st = bykey.get((c.file, c.line, id(c.node)))
                # ProjEval parses the files again: match by position instead of identity
                if st is None:
                    for s2 in self.stmts.get(c.file, ()):
                        if s2.call is not None and s2.call.line == c.line and s2.call.end_line == c.end_line \
                                and s2.call.a[0] == c.func and s2.line <= c.line:
                            st = s2
                            break
                c.var = st.var if st is not None and st.kind == 'assign' else None

    @property
    def ok(self) -> bool:
        return self.parse_error is None and self.error is None

    # ---- views --------------------------------------------------------------------------------
    def targets(self) -> T.List[CallRec]:
        return [c for c in self.calls if c.func in TARGET_FUNCS]

    def deps(self) -> T.List[CallRec]:
        return [c for c in self.calls if c.func == 'dependency']

    def project(self) -> T.Optional[CallRec]:
        for c in self.calls:
            if c.func == 'project':
                return c
        return None

    def find_target(self, ident: str) -> T.List[CallRec]:
        if ident in self.target_ids:
            f, nm = self.target_ids[ident]
            return [c for c in self.targets() if c.file == f and c.name == nm]
        byname = [c for c in self.targets() if c.name == ident]
        if byname:
            return byname
        return [c for c in self.targets() if c.var == ident]

    def find_dep(self, ident: str) -> T.List[CallRec]:
        byname = [c for c in self.deps() if c.name == ident]
        if byname:
            return byname
        return [c for c in self.deps() if c.var == ident]

    def stmt_of(self, rec: CallRec) -> T.Optional[Stmt]:
        for st in self.stmts.get(rec.file, ()):
            if st.line <= rec.line and rec.end_line <= st.end_line and st.call is not None and st.call.a[0] == rec.func:
                return st
        return None

    @staticmethod
    def _paths(rec: CallRec, vals: T.Sequence[T.Any]) -> T.List[T.Any]:
        out: T.List[T.Any] = []
        for v in flatten(list(vals)):
            if isinstance(v, str):
                out.append(os.path.normpath(os.path.join(rec.subdir, v)))
            elif isinstance(v, dict) and '%file' in v:
                out.append(v['%file'])
            else:
                out.append({'%unknown': v})
        return out

    def sources(self, rec: CallRec) -> T.List[T.Any]:
        vals = list(rec.pos[1:])
        for k, v in rec.kw:
            if k == 'sources':
                vals.append(v)
        return self._paths(rec, vals)

    def extra(self, rec: CallRec) -> T.List[T.Any]:
        vals = [v for k, v in rec.kw if k == 'extra_files']
        return self._paths(rec, vals)


def tkey(rec: CallRec, occurrence: int) -> str:
    return f'{rec.func}|{rec.file}|{rec.name!r}|{occurrence}'


def keyed_calls(m: Model) -> T.Dict[str, CallRec]:
    seen: T.Dict[str, int] = {}
    out: T.Dict[str, CallRec] = {}
    for c in m.calls:
        base = f'{c.func}|{c.file}|{c.name!r}'
        k = seen.get(base, 0)
        seen[base] = k + 1
        out[f'{base}|{k}'] = c
    return out


# --------------------------------------------------------------------------------------------------
# which statements may a command touch

def feeding_statements(m: Model, nodes: T.Sequence[T.Any]) -> T.List[Stmt]:
    """Every assignment / += statement (any file) of a variable that (transitively) appears in `nodes`."""
    def names(n: T.Any) -> T.Set[str]:
        out = ids_in(n)
        for x in walk(n):     # get_variable('name') reads a variable too
            if x.kind == 'call' and x.a[0] == 'get_variable' and x.a[1] and x.a[1][0].kind == 'str':
                out.add(x.a[1][0].a[0])
        return out
    todo = set()
    for n in nodes:
        todo |= names(n)
    done: T.Set[str] = set()
    out: T.List[Stmt] = []
    while todo:
        v = todo.pop()
        if v in done:
            continue
        done.add(v)
        for sts in m.stmts.values():
            for st in sts:
                if st.var == v:
                    out.append(st)
                    todo |= names(st.node.a[1])
                elif st.call is not None and st.call.a[0] == 'set_variable':
                    out.append(st)
                    todo |= names(st.call)
    return out


def _walk_flow(n: T.Any, ternary: bool) -> T.Iterator[R.Node]:
    """walk(), except that with ternary=False the two value branches of a ternary are not entered."""
    if isinstance(n, R.Node):
        yield n
        if n.kind == 'ternary' and not ternary:
            yield from _walk_flow(n.a[0], ternary)
            return
        for x in n.a:
            yield from _walk_flow(x, ternary)
    elif isinstance(n, (tuple, list)):
        for x in n:
            yield from _walk_flow(x, ternary)


def foreach_nodes(m: Model) -> T.List[T.Tuple[str, R.Node]]:
    """Every foreach statement of the project: (file, node); node.a = (loop variable names, iterated expression, block)."""
    out: T.List[T.Tuple[str, R.Node]] = []

    def rec(blk: R.Node, f: str) -> None:
        for st in blk.a[0]:
            if st.kind == 'if':
                for _c, b in st.a[0]:
                    rec(b, f)
                if st.a[1] is not None:
                    rec(st.a[1], f)
            elif st.kind == 'foreach':
                out.append((f, st))
                rec(st.a[2], f)
    for f, tree in m.trees.items():
        rec(tree, f)
    return out


def reach_names(m: Model, nodes: T.Sequence[T.Any], ternary: bool = True, foreach: bool = False) -> T.Set[str]:
    """The variables whose value can flow into `nodes`: identifiers and get_variable('name') reads, transitively
    through the assignments (`=`, `+=`, set_variable('name', ...)) of those variables.
    ternary=False: data is not followed through the value branches of a ternary expression.
    foreach=True:  a variable assigned inside a foreach body also depends on what the loop iterates over."""
    def names(n: T.Any) -> T.Set[str]:
        out: T.Set[str] = set()
        for x in _walk_flow(n, ternary):
            if x.kind == 'id':
                out.add(x.a[0])
            elif x.kind == 'call' and x.a[0] == 'get_variable' and x.a[1] and x.a[1][0].kind == 'str':
                out.add(x.a[1][0].a[0])
        return out
    loops = foreach_nodes(m) if foreach else []
    todo: T.Set[str] = set()
    for n in nodes:
        todo |= names(n)
    done: T.Set[str] = set()
    while todo:
        v = todo.pop()
        if v in done:
            continue
        done.add(v)
        for sts in m.stmts.values():
            for st in sts:
                hit = False
                if st.var == v:
                    todo |= names(st.node.a[1])
                    hit = True
                elif st.call is not None and st.call.a[0] == 'set_variable' and len(st.call.a[1]) == 2 \
                        and st.call.a[1][0].kind == 'str' and st.call.a[1][0].a[0] == v:
                    todo |= names(st.call.a[1][1])
                    hit = True
                if hit:
                    for f, lp in loops:
                        if f == st.file and lp.line <= st.line and st.end_line <= lp.end_line:
                            todo |= names(lp.a[1])
    return done


def source_nodes(rec: CallRec, what: str) -> T.List[R.Node]:
    if what == 'sources':
        return list(rec.posn[1:]) + [n for k, n in rec.kwn if k == 'sources']
    return [n for k, n in rec.kwn if k == 'extra_files']


# --------------------------------------------------------------------------------------------------
# textual locality

def locality(old: str, new: str, allowed: T.Sequence[T.Tuple[int, int]], append_ok: bool = False) -> T.Optional[dict]:
    """None when `new` keeps every line of `old` outside the allowed 1-based inclusive line ranges, verbatim and
    in order (the allowed ranges may have been replaced by anything).  With append_ok the new text may also carry
    extra lines after the last old line.  Otherwise a description of the first run of lines that is not found."""
    ol = old.split('\n')
    nl = new.split('\n')
    mark = [False] * len(ol)
    for a, b in allowed:
        for i in range(max(a, 1) - 1, min(b, len(ol))):
            mark[i] = True
    runs: T.List[T.Tuple[int, T.List[str]]] = []     # (0-based start, lines) of maximal runs of protected lines
    i = 0
    while i < len(ol):
        if mark[i]:
            i += 1
            continue
        j = i
        while j < len(ol) and not mark[j]:
            j += 1
        runs.append((i, ol[i:j]))
        i = j
    pos = 0
    for k, (start, run) in enumerate(runs):
        first = (start == 0)
        last = (start + len(run) == len(ol))
        if first:
            if nl[:len(run)] != run:
                return _first_diff(start, run, nl[:len(run)])
            pos = len(run)
            if last and len(nl) != len(run) and not append_ok:
                return {'line': len(ol), 'why': 'text after the last line', 'got': nl[len(run):][:3]}
            continue
        if last and not append_ok:
            if len(nl) - len(run) < pos or nl[len(nl) - len(run):] != run:
                return _first_diff(start, run, nl[max(pos, len(nl) - len(run)):])
            pos = len(nl)
            continue
        found = -1
        for p in range(pos, len(nl) - len(run) + 1):
            if nl[p:p + len(run)] == run:
                found = p
                break
        if found < 0:
            return _first_diff(start, run, nl[pos:pos + len(run)])
        pos = found + len(run)
    return None


def _first_diff(start: int, run: T.Sequence[str], got: T.Sequence[str]) -> dict:
    for i, line in enumerate(run):
        if i >= len(got) or got[i] != line:
            return {'line': start + i + 1, 'expected': line, 'got': got[i] if i < len(got) else None}
    return {'line': start + 1, 'expected': run[0] if run else None, 'got': None}


# --------------------------------------------------------------------------------------------------
# classifier helpers: grouping parentheses, string literals

def grouping_parens(text: str) -> T.Optional[T.List[T.Tuple[int, int]]]:
    """Token index pairs (open, close) of the grouping parentheses in text (a '(' that does not follow an
    identifier, i.e. neither a call nor a method call).  None when the text does not lex."""
    try:
        toks = R.tokenize(text, trivia=True)
    except R.RefError:
        return None
    pairs: T.List[T.Tuple[int, int]] = []
    stack: T.List[T.Tuple[int, bool]] = []
    prev_sig = None
    for i, t in enumerate(toks):
        if t.kind in ('ws', 'comment', 'cont', 'nl'):
            continue
        if t.kind == '(':
            stack.append((i, prev_sig == 'id'))
        elif t.kind == ')' and stack:
            o, is_call = stack.pop()
            if not is_call:
                pairs.append((o, i))
        prev_sig = t.kind
    return pairs


def without_grouping_parens(text: str) -> T.Optional[str]:
    pairs = grouping_parens(text)
    if pairs is None:
        return None
    drop = {i for p in pairs for i in p}
    toks = R.tokenize(text, trivia=True)
    return ''.join(' ' if i in drop else t.text for i, t in enumerate(toks))


def needs_parens(stext: str) -> bool:
    """True when deleting the grouping parentheses of this statement changes its tree (or breaks it)."""
    pairs = grouping_parens(stext)
    if not pairs:
        return False
    try:
        a = R.sexpr(R.parse(stext + '\n'))
    except R.RefError:
        return False
    try:
        b = R.sexpr(R.parse((without_grouping_parens(stext) or '') + '\n'))
    except R.RefError:
        return True
    return a != b


def _prec(n: R.Node) -> int:
    k = n.kind
    if k == 'ternary':
        return 1
    if k == 'or':
        return 2
    if k == 'and':
        return 3
    if k == 'cmp':
        return 4
    if k == 'arith':
        return 5 if n.a[0] in ('+', '-') else 6
    if k in ('not', 'neg'):
        return 7
    if k in ('method', 'index', 'call'):
        return 8
    return 9


def _operands(n: R.Node) -> T.List[T.Tuple[R.Node, int, str]]:
    """(operand, minimal precedence it needs to stand there without parentheses, position) per the grammar of
    Syntax.md: ternary < or < and < comparison (not chainable) < + - < * / % < not / unary minus (operand is a
    postfix expression) < method call / index < primary."""
    k = n.kind
    if k == 'ternary':
        return [(n.a[0], 2, 'cond'), (n.a[1], 2, 'true'), (n.a[2], 2, 'false')]
    if k == 'or':
        return [(n.a[0], 2, 'left'), (n.a[1], 3, 'right')]
    if k == 'and':
        return [(n.a[0], 3, 'left'), (n.a[1], 4, 'right')]
    if k == 'cmp':
        return [(n.a[1], 5, 'left'), (n.a[2], 5, 'right')]
    if k == 'arith':
        lo = 5 if n.a[0] in ('+', '-') else 6
        return [(n.a[1], lo, 'left'), (n.a[2], lo + 1, 'right')]
    if k in ('not', 'neg'):
        return [(n.a[0], 8, 'operand')]
    if k in ('method', 'index'):
        return [(n.a[0], 8, 'object')]
    return []


def needed_parens(root: T.Any) -> T.List[T.Tuple[str, str, str, str]]:
    """Every parenthesis under root whose removal would change the tree:
    (parent kind, parent operator, position, inner kind)."""
    out: T.List[T.Tuple[str, str, str, str]] = []
    for n in walk(root):
        for operand, need, pos in _operands(n):
            if operand.kind == 'paren':
                inner = operand.a[0]
                while inner.kind == 'paren':
                    inner = inner.a[0]
                if _prec(inner) < need:
                    op = n.a[0] if n.kind in ('arith', 'cmp') else ''
                    ik = inner.kind + (':' + inner.a[0] if inner.kind in ('arith', 'cmp') else '')
                    out.append((n.kind, op, pos, ik))
    return out


def paren_explanations(root: T.Any) -> T.Set[str]:
    """Which known printer defects can lose a meaning-bearing parenthesis under root.  The printer re-creates
    parentheses from precedence only below an arithmetic operator; there it is wrong for `x * (y / z)` and
    `x * (y % z)` only.  A lost parenthesis below an arithmetic operator in any other shape is NOT explained."""
    out: T.Set[str] = set()
    for pk, op, pos, ik in needed_parens(root):
        if pk != 'arith':
            out.add('printer-drops-parentheses')
        elif op == '*' and pos == 'right' and ik in ('arith:/', 'arith:%'):
            out.add('printer-mul-over-div-regrouped')
    return out


def string_literals(root: T.Any) -> T.List[T.Tuple[str, bool, bool]]:
    """(decoded value, multiline, fstring) of every string literal under root."""
    out = []
    for n in walk(root):
        if n.kind in ('str', 'fstr'):
            out.append((n.a[0], bool(n.a[1]), n.kind == 'fstr'))
    return out


_ESC = {"'": "\\'", '\n': '\\n', '\r': '\\r'}


def _raw_rendering_present(val: str, ch: str, pre: str, post: str) -> bool:
    """The new text contains (and the old text does not) a single-quoted rendering of val in which `ch` is
    written raw; the other two characters a printer may or may not escape are tried both ways, as are the
    after-effects of a raw line break (post_process() strips blanks in front of it; a raw CR is read back as LF)."""
    others = [c for c in _ESC if c != ch and c in val]
    for mask in range(1 << len(others)):
        text = val.replace('\\', '\\\\')
        for i, c in enumerate(others):
            if mask & (1 << i):
                text = text.replace(c, _ESC[c])
        cands = {"'" + text + "'"}
        for c in list(cands):
            cands.add(c.replace('\r', '\n'))
        for c in list(cands):
            cands.add(re.sub(r'\s+\n', '\n', c))
        if any(c in post and c not in pre for c in cands):
            return True
    return False


def buggy_rendering(value: str) -> str:
    """How a printer that escapes only the backslash prints the single-quoted literal for value."""
    return "'" + value.replace('\\', '\\\\') + "'"


def nested_literal_containers(touched: T.Sequence[Stmt], names: T.Sequence[str]) -> bool:
    """Two of the given file names are string literals directly inside two different containers (array literal or
    call) of one statement, one container nested in the other: the rewriter re-prints both containers."""
    base = {os.path.basename(x) for x in names} | set(names)
    for st in touched:
        hits: T.List[T.Tuple[R.Node, T.Tuple[R.Node, ...]]] = []

        def rec(n: T.Any, chain: T.Tuple[R.Node, ...]) -> None:
            if isinstance(n, R.Node):
                if n.kind in ('array', 'call'):
                    items = n.a[0] if n.kind == 'array' else n.a[1]
                    if any(x.kind == 'str' and (x.a[0] in base or os.path.basename(x.a[0]) in base) for x in items):
                        hits.append((n, chain))
                    chain = chain + (n,)
                for x in n.a:
                    rec(x, chain)
            elif isinstance(n, (tuple, list)):
                for x in n:
                    rec(x, chain)
        rec(st.node, ())
        for n, chain in hits:
            if any(h is not n and any(h is c for c in chain) for h, _ in hits):
                return True
    return False


def explanations(before: Model, after_files: T.Mapping[str, str], touched: T.Sequence[Stmt],
                 focus: T.Optional[T.Sequence[T.Tuple[Stmt, T.Any]]] = None) -> T.List[str]:
    """Known mechanisms that can explain a failure of a step whose re-printable statements are `touched`
    (pre-state statements): each needs evidence in the pre-state text AND in the produced text.
    focus = [(statement, node)]: restrict the printer explanations to these sub-trees (the argument that was
    observed to change) instead of the whole statements."""
    out: T.List[str] = []
    files = sorted({st.file for st in touched})
    for f in files:
        pre = before.files.get(f, '')
        last = max(st.end_line for st in touched if st.file == f)
        head = '\n'.join(pre.split('\n')[:last])
        if PY_ONLY_LINEBREAKS_RE.search(head):
            out.append('splice-offsets-python-linebreaks')
            break
    scopes: T.List[T.Tuple[Stmt, T.Any]] = list(focus) if focus else [(st, st.node) for st in touched]
    for st, root in scopes:
        post = after_files.get(st.file, '')
        pre = before.files.get(st.file, '')
        for val, multi, _f in string_literals(root):
            if multi:
                # AstPrinter.post_process() strips blanks (and blank lines) in front of every newline of the
                # printed text -- also inside a multiline string
                lit = "'''" + val + "'''"
                stripped = re.sub(r'\s+\n', '\n', lit)
                if stripped != lit and stripped in post and lit not in post \
                        and 'printer-postprocess-strips-inside-multiline-string' not in out:
                    out.append('printer-postprocess-strips-inside-multiline-string')
                continue
            for ch, key in (("'", 'printer-unescaped-quote'), ('\r', 'printer-raw-cr-in-string'),
                            ('\n', 'printer-raw-newline-in-string')):
                if ch in val and key not in out and _raw_rendering_present(val, ch, pre, post):
                    out.append(key)
        pe = paren_explanations(root)
        if pe:
            # evidence in the output: the new text of the file has fewer grouping parentheses than the old one
            # (or does not even lex, when another defect broke a string)
            n_file_old = len(grouping_parens(pre) or [])
            gp_new = grouping_parens(post)
            if gp_new is not None and len(gp_new) < n_file_old:
                for key in sorted(pe):
                    if key not in out:
                        out.append(key)
    return out
