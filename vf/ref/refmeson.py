"""refmeson -- independent reference implementation of the Meson *core language*.

Written from docs/markdown/Syntax.md, docs/yaml/elementary/*.yml, docs/yaml/functions/{message,assert,
set_variable,get_variable,is_variable,unset_variable,subdir,subproject,range}.yaml and the wording of
property C01.  It imports nothing from mesonbuild.  Used by C01 (oracle for values/failures), C16 and C17
(meaning-preservation: s-expressions, comments, expression evaluation).

STABLE API
==========
Errors (all subclasses of RefError; attributes .msg .line .end_line .file .cls .frames[(file,line,end_line)...]
        innermost first, followed by the subdir()/subproject() call sites):
  RefSyntaxError     cls='syntax'        the text is not a program of the documented grammar
  RefRuntimeError    cls='runtime'       the documents prescribe a failure while evaluating
  RefUnspecified     cls='unspecified'   the documents do not fix the outcome of this cell (callers check
                                         consistency only: determinism, no internal error)

Lexing / parsing
  tokenize(text, trivia=False) -> list[Token]
      Token(kind, text, value, line, col, pos).  kind is one of 'id', 'number', 'string', 'mstring',
      'fstring', 'mfstring', a keyword ('true','false','if','elif','else','endif','foreach','endforeach',
      'and','or','not','in','break','continue'), an operator spelled as itself
      ( ( ) [ ] { } , . : ? + - * / % = += == != < <= > >= ), 'eol' or 'eof'.  value is the decoded value
      for numbers (int) and strings (str, escapes decoded).  Newlines inside () [] {} and
      backslash-newline continuations are not tokens.  With trivia=True the list also contains
      'ws', 'comment', 'cont' and 'nl' (a newline swallowed by brackets) tokens, so that
      ''.join(t.text for t in tokens) == text.
  parse(text) -> Node            kind 'block'; raises RefSyntaxError (with .line)
  parse_expression(text) -> Node a single expression
  Node: attributes kind, line, end_line, a (tuple of fields).  Kinds and fields:
      int(value) bool(value) str(value, multiline) fstr(value, multiline) id(name)
      array(items) dict(pairs=((knode, vnode),...)) not(x) neg(x) arith(op,l,r) cmp(op,l,r)  [op 'notin' for not in]
      and(l,r) or(l,r) ternary(c,t,f) index(obj,idx) call(name,pos,kw=((name,node),...))
      method(obj,name,pos,kw) paren(x) assign(name,value) plusassign(name,value)
      if(clauses=((cond,block),...), elseblock|None) foreach(vars,iter,block) break() continue()
      block(stmts)
  sexpr(tree) -> str             canonical s-expression.  Normalisation (exactly):
      * whitespace, newlines, comments, continuations and trailing commas are ignored;
      * 'paren' nodes are dropped (the tree shape already carries the grouping);
      * numbers print in decimal whatever their base ((int 255) for 0xFF);
      * strings print as (str <python repr of decoded value>) -- '...' and '''...''' literals with the same
        decoded value are equal; f-strings print as (fstr <repr>) and are never equal to plain strings;
      * 'not in' prints as operator notin; positional and keyword arguments and dict entries keep
        their order; empty statements (blank lines) vanish.
  comments(text) -> list[str]    the comment texts (from '#' to end of line, trailing blanks stripped) in order
  eval_string_literal(token_text) -> str   value of a literal given with its quotes: '...', '''...''',
      f'...', f'''...''' (for f-strings: the decoded template, placeholders not substituted)
  decode_escapes(body) -> str    the escape decoding of a '...' body

Evaluation
  Positional arguments are flattened (nested arrays spliced in) for every function/method except those documented
  with arg_flattening: false (message, set_variable, get_variable, str.format, array.contains, array.get, dict.get,
  subproject.get_variable).
  Values are plain Python objects: int, bool, str, list, dict (insertion ordered), RefRange, RefSubproject;
  VOID (None) is "no value".  bool is never an int here (type() is used, not isinstance()).
  render(value, quote=False) -> str        how message()/format()/f-strings print a value
  literal(value) -> str                    Meson source text of a literal for an elementary value
  evaluate_expression(text, env) -> value  evaluate one expression; env maps variable names to values
                                           (not modified); raises RefSyntaxError/RefRuntimeError/RefUnspecified
  Evaluator(files, subproject_dir='subprojects')      attributes max_steps, max_value_len: resource limits
      (exceeding them gives RefUnspecified)
      files: {'meson.build': text, 'sub/meson.build': text, 'subprojects/s/meson.build': text, ...}
      .run() -> Outcome
  Outcome: .messages  list of (subproject_name, text) in print order ('' = main project)
           .message_lines() -> list[str]  the lines meson prints ('Message: a b', 's| Message: ...')
           .error     None | RefError (cls syntax/runtime/unspecified; .file relative path; .line/.end_line =
                      line span of the innermost simple statement (or condition/iterable) that failed)
           .ok        error is None
           .variables final variable table of the main project
           .cover     Counter of evaluated cells: 'node:<kind>', 'op:<op>:<ltype>:<rtype>', 'method:<type>.<name>',
                      'func:<name>'
"""
from __future__ import annotations

import collections
import re
import unicodedata
import typing as T

__all__ = ['RefError', 'RefSyntaxError', 'RefRuntimeError', 'RefUnspecified', 'Token', 'Node', 'tokenize', 'parse',
           'parse_expression', 'sexpr', 'comments', 'eval_string_literal', 'decode_escapes', 'render', 'literal',
           'evaluate_expression', 'Evaluator', 'Outcome', 'RefRange', 'RefSubproject', 'VOID', 'tname']


# --------------------------------------------------------------------------------------------------
# errors

class RefError(Exception):
    cls = 'error'

    def __init__(self, msg: str, line: int = 0, end_line: T.Optional[int] = None, file: str = '') -> None:
        super().__init__(msg)
        self.msg = msg
        self.line = line
        self.end_line = end_line if end_line is not None else line
        self.file = file
        self.frames: T.List[T.Tuple[str, int, int]] = []   # (file, line, end_line): innermost first, then call sites

    def __str__(self) -> str:
        return f'{self.cls} error at {self.file or "<text>"}:{self.line}: {self.msg}'


class RefSyntaxError(RefError):
    cls = 'syntax'


class RefRuntimeError(RefError):
    cls = 'runtime'


class RefUnspecified(RefError):
    cls = 'unspecified'


# --------------------------------------------------------------------------------------------------
# tokens

KEYWORDS = frozenset(['true', 'false', 'if', 'else', 'elif', 'endif', 'and', 'or', 'not', 'foreach',
                      'endforeach', 'in', 'continue', 'break'])
_OPS2 = ('+=', '==', '!=', '<=', '>=')
_OPS1 = '()[]{},.:?+-*/%=<>'
_ID_RE = re.compile(r'[A-Za-z_][A-Za-z_0-9]*')
_NUM_RE = re.compile(r'0[xX][0-9a-fA-F]+|0[oO][0-7]+|0[bB][01]+|0|[1-9][0-9]*')
_CONT_RE = re.compile(r'\\[ \t]*(#[^\n]*)?\n')
_STR_RE = re.compile(r"'(?:[^'\\]|\\[^\n])*'")  # '...' ; a backslash protects the next character (not a newline)
_MSTR_RE = re.compile(r"'''.*?'''", re.S)


class Token(T.NamedTuple):
    kind: str
    text: str
    value: T.Any
    line: int
    col: int
    pos: int


def decode_escapes(body: str) -> str:
    """Escape decoding of a '...' literal body, from the list in Syntax.md; unknown escapes stay unchanged."""
    out: T.List[str] = []
    i, n = 0, len(body)
    simple = {'\\': '\\', "'": "'", 'a': '\a', 'b': '\b', 'f': '\f', 'n': '\n', 'r': '\r', 't': '\t', 'v': '\v'}
    hexd = '0123456789abcdefABCDEF'
    while i < n:
        c = body[i]
        if c != '\\' or i + 1 >= n:
            out.append(c)
            i += 1
            continue
        d = body[i + 1]
        if d in simple:
            out.append(simple[d])
            i += 2
        elif d in '01234567':
            j = i + 1
            while j < n and j < i + 4 and body[j] in '01234567':
                j += 1
            out.append(chr(int(body[i + 1:j], 8)))
            i = j
        elif d in 'xuU':
            k = {'x': 2, 'u': 4, 'U': 8}[d]
            digits = body[i + 2:i + 2 + k]
            if len(digits) == k and all(ch in hexd for ch in digits):
                cp = int(digits, 16)
                if cp > 0x10FFFF:
                    raise RefUnspecified('\\U escape beyond the Unicode range')
                out.append(chr(cp))
                i += 2 + k
            else:
                out.append(c)
                i += 1
        elif d == 'N' and i + 2 < n and body[i + 2] == '{':
            j = body.find('}', i + 3)
            if j > i + 3:
                try:
                    out.append(unicodedata.lookup(body[i + 3:j]))
                except KeyError:
                    raise RefUnspecified('\\N{...} with an unknown character name')
                i = j + 1
            else:
                out.append(c)
                i += 1
        else:
            out.append(c)
            i += 1
    return ''.join(out)


def eval_string_literal(token_text: str) -> str:
    """Value of a string literal given with its quotes (and f prefix, whose placeholders are kept)."""
    t = token_text
    if t.startswith('f'):
        t = t[1:]
    if len(t) >= 6 and t.startswith("'''") and t.endswith("'''"):
        return t[3:-3]
    if len(t) >= 2 and t[0] == "'" and t[-1] == "'":
        return decode_escapes(t[1:-1])
    raise RefSyntaxError('not a string literal: ' + token_text[:40])


def tokenize(text: str, trivia: bool = False) -> T.List[Token]:
    toks: T.List[Token] = []
    i, n = 0, len(text)
    line, line_start = 1, 0
    depth = 0

    def add(kind: str, s: str, value: T.Any = None) -> None:
        toks.append(Token(kind, s, value, line, i - line_start, i))

    while i < n:
        c = text[i]
        if c in ' \t':
            j = i
            while j < n and text[j] in ' \t':
                j += 1
            if trivia:
                add('ws', text[i:j])
            i = j
            continue
        if c == '\n':
            if depth > 0:
                if trivia:
                    add('nl', c)
            else:
                add('eol', c)
            i += 1
            line += 1
            line_start = i
            continue
        if c == '#':
            j = text.find('\n', i)
            if j < 0:
                j = n
            if trivia:
                add('comment', text[i:j])
            i = j
            continue
        if c == '\\':
            m = _CONT_RE.match(text, i)
            if not m:
                raise RefSyntaxError('stray backslash', line)
            if trivia:
                add('cont', m.group(0))
            i = m.end()
            line += 1
            line_start = i
            continue
        if c == "'" or (c == 'f' and text.startswith("f'", i)):
            f = c == 'f'
            q = i + 1 if f else i
            if text.startswith("'''", q):
                m = _MSTR_RE.match(text, q)
                if not m:
                    raise RefSyntaxError('unterminated multiline string', line)
                s = text[i:m.end()]
                add('mfstring' if f else 'mstring', s, s[(4 if f else 3):-3])
                nl = s.count('\n')
                i = m.end()
                if nl:
                    line += nl
                    line_start = text.rfind('\n', 0, i) + 1
                continue
            m = _STR_RE.match(text, q)
            if not m:
                raise RefSyntaxError('unterminated string', line)
            s = text[i:m.end()]
            body = s[(2 if f else 1):-1]
            try:
                val = decode_escapes(body)
            except RefUnspecified as e:
                e.line = e.end_line = line
                raise
            add('fstring' if f else 'string', s, val)
            nl = s.count('\n')   # a raw newline inside '...' (discouraged; tolerated here)
            i = m.end()
            if nl:
                line += nl
                line_start = text.rfind('\n', 0, i) + 1
            continue
        m = _ID_RE.match(text, i)
        if m:
            s = m.group(0)
            add(s if s in KEYWORDS else 'id', s, s)
            i = m.end()
            continue
        if c.isdigit():
            m = _NUM_RE.match(text, i)
            assert m
            s = m.group(0)
            j = m.end()
            if j < n and (text[j].isalnum() or text[j] == '_'):
                raise RefSyntaxError('malformed number', line)   # 010, 1x, 0b2, 12ab ...
            add('number', s, int(s, 0))
            i = j
            continue
        two = text[i:i + 2]
        if two in _OPS2:
            add(two, two)
            i += 2
            continue
        if c in _OPS1:
            if c in '([{':
                depth += 1
            elif c in ')]}':
                depth = max(0, depth - 1)
            add(c, c)
            i += 1
            continue
        if c == '"':
            raise RefSyntaxError('double quotes are not string delimiters', line)
        raise RefSyntaxError('unexpected character %r' % c, line)
    toks.append(Token('eof', '', None, line, i - line_start, i))
    return toks


def comments(text: str) -> T.List[str]:
    out = []
    for t in tokenize(text, trivia=True):
        if t.kind == 'comment':
            out.append(t.text.rstrip())
        elif t.kind == 'cont' and '#' in t.text:
            out.append(t.text[t.text.index('#'):].rstrip('\n').rstrip())
    return out


# --------------------------------------------------------------------------------------------------
# tree

class Node:
    __slots__ = ('kind', 'line', 'end_line', 'a')

    def __init__(self, kind: str, line: int, end_line: int, *a: T.Any) -> None:
        self.kind = kind
        self.line = line
        self.end_line = end_line
        self.a = a

    def __repr__(self) -> str:
        return f'<{self.kind}@{self.line} {sexpr(self)[:80]}>'


_CMP = ('==', '!=', '<', '<=', '>', '>=', 'in')
_STRINGS = ('string', 'mstring', 'fstring', 'mfstring')


class _Parser:
    def __init__(self, text: str) -> None:
        self.toks = tokenize(text)
        self.p = 0
        self.in_ternary = False
        self.loop_depth = 0

    # -- helpers
    @property
    def t(self) -> Token:
        return self.toks[self.p]

    def peek(self, k: int = 1) -> Token:
        return self.toks[min(self.p + k, len(self.toks) - 1)]

    def adv(self) -> Token:
        t = self.toks[self.p]
        if t.kind != 'eof':
            self.p += 1
        return t

    def accept(self, kind: str) -> T.Optional[Token]:
        if self.t.kind == kind:
            return self.adv()
        return None

    def expect(self, kind: str, what: str = '') -> Token:
        if self.t.kind != kind:
            raise RefSyntaxError(f'expected {what or kind!r}, got {self.t.kind!r}', self.t.line)
        return self.adv()

    def last_line(self) -> int:
        return self.toks[self.p - 1].line if self.p else 1

    # -- statements
    def block(self, terminators: T.Tuple[str, ...]) -> Node:
        start = self.t.line
        stmts: T.List[Node] = []
        while True:
            while self.accept('eol'):
                pass
            if self.t.kind in terminators:
                break
            if self.t.kind == 'eof':
                raise RefSyntaxError('unexpected end of file, expected ' + '/'.join(terminators), self.t.line)
            if self.t.kind in ('endif', 'elif', 'else', 'endforeach'):
                raise RefSyntaxError(f'unexpected {self.t.kind!r}', self.t.line)
            stmts.append(self.statement())
            if self.t.kind in ('eol', 'eof'):
                continue
            raise RefSyntaxError(f'expected end of line, got {self.t.kind!r}', self.t.line)
        return Node('block', start, self.last_line(), tuple(stmts))

    def statement(self) -> Node:
        t = self.t
        if t.kind == 'if':
            return self.if_statement()
        if t.kind == 'foreach':
            return self.foreach_statement()
        if t.kind in ('break', 'continue'):
            if self.loop_depth == 0:
                raise RefSyntaxError(f'{t.kind!r} outside of a foreach loop', t.line)
            self.adv()
            return Node(t.kind, t.line, t.line)
        left = self.expression()
        if self.t.kind in ('=', '+='):
            op = self.adv()
            if left.kind != 'id':
                raise RefSyntaxError('assignment target must be a plain identifier', op.line)
            value = self.expression()
            if self.t.kind in ('=', '+='):
                raise RefSyntaxError('assignment is a statement, not an expression', self.t.line)
            return Node('assign' if op.kind == '=' else 'plusassign', left.line, value.end_line, left.a[0], value)
        return left

    def if_statement(self) -> Node:
        first = self.expect('if')
        clauses = []
        cond = self.expression()
        self.expect('eol', 'end of line after the condition')
        blk = self.block(('elif', 'else', 'endif'))
        clauses.append((cond, blk))
        elseblock = None
        while True:
            if self.accept('elif'):
                cond = self.expression()
                self.expect('eol', 'end of line after the condition')
                blk = self.block(('elif', 'else', 'endif'))
                clauses.append((cond, blk))
                continue
            if self.accept('else'):
                self.expect('eol', 'end of line after else')
                elseblock = self.block(('endif',))
            break
        end = self.expect('endif')
        return Node('if', first.line, end.line, tuple(clauses), elseblock)

    def foreach_statement(self) -> Node:
        first = self.expect('foreach')
        names = [self.expect('id', 'loop variable').value]
        while self.accept(','):
            names.append(self.expect('id', 'loop variable').value)
        if len(names) > 2:
            raise RefSyntaxError('foreach takes one or two loop variables', first.line)
        self.expect(':')
        it = self.expression()
        self.expect('eol', 'end of line after the iterable')
        self.loop_depth += 1
        try:
            blk = self.block(('endforeach',))
        finally:
            self.loop_depth -= 1
        end = self.expect('endforeach')
        return Node('foreach', first.line, end.line, tuple(names), it, blk)

    # -- expressions (lowest to highest precedence)
    def expression(self) -> Node:
        cond = self.or_expr()
        if self.t.kind == '?':
            q = self.adv()
            if self.in_ternary:
                raise RefSyntaxError('nested ternary operators are forbidden', q.line)
            self.in_ternary = True
            try:
                tv = self.expression()
                self.expect(':')
                fv = self.expression()
            finally:
                self.in_ternary = False
            return Node('ternary', cond.line, fv.end_line, cond, tv, fv)
        return cond

    def or_expr(self) -> Node:
        left = self.and_expr()
        while self.accept('or'):
            right = self.and_expr()
            left = Node('or', left.line, right.end_line, left, right)
        return left

    def and_expr(self) -> Node:
        left = self.cmp_expr()
        while self.accept('and'):
            right = self.cmp_expr()
            left = Node('and', left.line, right.end_line, left, right)
        return left

    def _cmp_op(self) -> T.Optional[str]:
        k = self.t.kind
        if k in _CMP:
            self.adv()
            return k
        if k == 'not':
            if self.peek().kind == 'in':
                self.adv()
                self.adv()
                return 'notin'
            raise RefSyntaxError("'not' here must be followed by 'in'", self.t.line)
        return None

    def cmp_expr(self) -> Node:
        left = self.add_expr()
        op = self._cmp_op()
        if op is None:
            return left
        right = self.add_expr()
        if self.t.kind in _CMP or self.t.kind == 'not':
            raise RefSyntaxError('comparisons do not chain', self.t.line)
        return Node('cmp', left.line, right.end_line, op, left, right)

    def add_expr(self) -> Node:
        left = self.mul_expr()
        while self.t.kind in ('+', '-'):
            op = self.adv().kind
            right = self.mul_expr()
            left = Node('arith', left.line, right.end_line, op, left, right)
        return left

    def mul_expr(self) -> Node:
        left = self.unary_expr()
        while self.t.kind in ('*', '/', '%'):
            op = self.adv().kind
            right = self.unary_expr()
            left = Node('arith', left.line, right.end_line, op, left, right)
        return left

    def unary_expr(self) -> Node:
        t = self.t
        if t.kind in ('not', '-'):
            self.adv()
            if self.t.kind in ('not', '-'):
                raise RefSyntaxError('unary operators do not stack', self.t.line)
            x = self.postfix_expr()
            return Node('not' if t.kind == 'not' else 'neg', t.line, x.end_line, x)
        return self.postfix_expr()

    def postfix_expr(self) -> Node:
        x = self.primary()
        while True:
            if self.t.kind == '.':
                self.adv()
                name = self.expect('id', 'method name')
                self.expect('(')
                pos, kw = self.arguments(')')
                end = self.expect(')')
                x = Node('method', x.line, end.line, x, name.value, pos, kw)
            elif self.t.kind == '[':
                self.adv()
                idx = self.expression()
                end = self.expect(']')
                x = Node('index', x.line, end.line, x, idx)
            else:
                return x

    def primary(self) -> Node:
        t = self.t
        k = t.kind
        if k == 'number':
            self.adv()
            return Node('int', t.line, t.line, t.value)
        if k in ('true', 'false'):
            self.adv()
            return Node('bool', t.line, t.line, k == 'true')
        if k in _STRINGS:
            self.adv()
            if self.t.kind in _STRINGS:
                raise RefSyntaxError('adjacent string literals', self.t.line)
            end = t.line + t.text.count('\n')
            return Node('fstr' if k in ('fstring', 'mfstring') else 'str', t.line, end,
                        t.value, k in ('mstring', 'mfstring'))
        if k == 'id':
            self.adv()
            if self.t.kind == '(':
                self.adv()
                pos, kw = self.arguments(')')
                end = self.expect(')')
                return Node('call', t.line, end.line, t.value, pos, kw)
            return Node('id', t.line, t.line, t.value)
        if k == '(':
            self.adv()
            x = self.expression()
            end = self.expect(')')
            return Node('paren', t.line, end.line, x)
        if k == '[':
            self.adv()
            pos, kw = self.arguments(']')
            if kw:
                raise RefSyntaxError('keyword arguments in an array literal', t.line)
            end = self.expect(']')
            return Node('array', t.line, end.line, pos)
        if k == '{':
            self.adv()
            pairs = []
            while self.t.kind != '}':
                key = self.expression()
                self.expect(':', "':' in a dictionary entry")
                val = self.expression()
                pairs.append((key, val))
                if not self.accept(','):
                    break
            end = self.expect('}')
            return Node('dict', t.line, end.line, tuple(pairs))
        raise RefSyntaxError(f'expected an expression, got {k!r}', t.line)

    def arguments(self, closer: str) -> T.Tuple[T.Tuple[Node, ...], T.Tuple[T.Tuple[str, Node], ...]]:
        pos: T.List[Node] = []
        kw: T.List[T.Tuple[str, Node]] = []
        while self.t.kind != closer:
            if self.t.kind == 'id' and self.peek().kind == ':':
                name = self.adv()
                self.adv()
                kw.append((name.value, self.expression()))
            else:
                e = self.expression()
                if self.t.kind == ':':
                    raise RefSyntaxError('keyword argument name must be a plain identifier', self.t.line)
                if self.t.kind in ('=', '+='):
                    raise RefSyntaxError('assignment inside an argument list', self.t.line)
                if kw:
                    raise RefSyntaxError('positional argument after a keyword argument', e.line)
                pos.append(e)
            if not self.accept(','):
                break
        return tuple(pos), tuple(kw)


def parse(text: str) -> Node:
    p = _Parser(text)
    blk = p.block(('eof',))
    return blk


def parse_expression(text: str) -> Node:
    p = _Parser(text)
    while p.accept('eol'):
        pass
    e = p.expression()
    while p.accept('eol'):
        pass
    if p.t.kind != 'eof':
        raise RefSyntaxError(f'unexpected {p.t.kind!r} after the expression', p.t.line)
    return e


def sexpr(n: T.Any) -> str:
    """Canonical s-expression (normalisation described in the module docstring)."""
    if n is None:
        return '()'
    k = n.kind
    a = n.a
    if k == 'paren':
        return sexpr(a[0])
    if k == 'int':
        return f'(int {a[0]})'
    if k == 'bool':
        return '(bool true)' if a[0] else '(bool false)'
    if k in ('str', 'fstr'):
        return f'({k} {a[0]!r})'
    if k == 'id':
        return f'(id {a[0]})'
    if k == 'array':
        return '(array' + ''.join(' ' + sexpr(x) for x in a[0]) + ')'
    if k == 'dict':
        return '(dict' + ''.join(f' ({sexpr(x)} {sexpr(y)})' for x, y in a[0]) + ')'
    if k in ('not', 'neg'):
        return f'({k} {sexpr(a[0])})'
    if k in ('arith', 'cmp'):
        return f'({a[0]} {sexpr(a[1])} {sexpr(a[2])})'
    if k in ('and', 'or'):
        return f'({k} {sexpr(a[0])} {sexpr(a[1])})'
    if k == 'ternary':
        return f'(? {sexpr(a[0])} {sexpr(a[1])} {sexpr(a[2])})'
    if k == 'index':
        return f'(index {sexpr(a[0])} {sexpr(a[1])})'
    if k == 'call':
        return f'(call {a[0]}' + _sx_args(a[1], a[2]) + ')'
    if k == 'method':
        return f'(method {sexpr(a[0])} {a[1]}' + _sx_args(a[2], a[3]) + ')'
    if k in ('assign', 'plusassign'):
        return f'({"=" if k == "assign" else "+="} {a[0]} {sexpr(a[1])})'
    if k == 'if':
        s = '(if' + ''.join(f' ({sexpr(c)} {sexpr(b)})' for c, b in a[0])
        if a[1] is not None:
            s += f' (else {sexpr(a[1])})'
        return s + ')'
    if k == 'foreach':
        return f'(foreach ({" ".join(a[0])}) {sexpr(a[1])} {sexpr(a[2])})'
    if k in ('break', 'continue'):
        return f'({k})'
    if k == 'block':
        return '(block' + ''.join(' ' + sexpr(x) for x in a[0]) + ')'
    raise ValueError('unknown node kind ' + k)


def _sx_args(pos: T.Sequence[Node], kw: T.Sequence[T.Tuple[str, Node]]) -> str:
    return ''.join(' ' + sexpr(x) for x in pos) + ''.join(f' (kw {k} {sexpr(v)})' for k, v in kw)


# --------------------------------------------------------------------------------------------------
# values

VOID = None


class RefRange:
    """The opaque object returned by range(): usable in foreach and with [num]."""

    def __init__(self, start: int, stop: int, step: int) -> None:
        self.r = range(start, stop, step)

    def __eq__(self, other: object) -> bool:
        return isinstance(other, RefRange) and self.r == other.r

    def __hash__(self) -> int:
        return hash(self.r)

    def __repr__(self) -> str:
        return f'RefRange({self.r.start}, {self.r.stop}, {self.r.step})'


class RefSubproject:
    def __init__(self, name: str, variables: T.Dict[str, T.Any]) -> None:
        self.name = name
        self.variables = variables

    def __repr__(self) -> str:
        return f'RefSubproject({self.name})'


def tname(v: T.Any) -> str:
    if v is None:
        return 'void'
    t = type(v)
    if t is bool:
        return 'bool'
    if t is int:
        return 'int'
    if t is str:
        return 'str'
    if t is list:
        return 'array'
    if t is dict:
        return 'dict'
    if t is RefRange:
        return 'range'
    if t is RefSubproject:
        return 'subproject'
    return t.__name__


def strict_eq(a: T.Any, b: T.Any) -> bool:
    """Equality without any conversion: a bool never equals an int, also inside containers."""
    ta, tb = type(a), type(b)
    if ta is not tb:
        return False
    if ta is list:
        return len(a) == len(b) and all(strict_eq(x, y) for x, y in zip(a, b))
    if ta is dict:
        return a.keys() == b.keys() and all(strict_eq(a[k], b[k]) for k in a)
    return bool(a == b)


def render(v: T.Any, quote: bool = False) -> str:
    """Text of a value in message(), .format() and f-strings: nested strings quoted, true/false."""
    t = type(v)
    if t is str:
        return f"'{v}'" if quote else v
    if t is bool:
        return 'true' if v else 'false'
    if t is int:
        return str(v)
    if t is list:
        return '[' + ', '.join(render(x, True) for x in v) + ']'
    if t is dict:
        return '{' + ', '.join(f'{render(k, True)} : {render(x, True)}' for k, x in v.items()) + '}'
    raise RefRuntimeError(f'a {tname(v)} cannot be printed')


def literal(v: T.Any) -> str:
    """Meson source text of a literal denoting the elementary value v."""
    t = type(v)
    if t is bool:
        return 'true' if v else 'false'
    if t is int:
        return str(v) if v >= 0 else f'-{-v}'
    if t is str:
        out = []
        for ch in v:
            o = ord(ch)
            if ch == '\\':
                out.append('\\\\')
            elif ch == "'":
                out.append("\\'")
            elif ch == '\n':
                out.append('\\n')
            elif ch == '\r':
                out.append('\\r')
            elif ch == '\t':
                out.append('\\t')
            elif o < 0x20 or o == 0x7f:
                out.append('\\x%02x' % o)
            else:
                out.append(ch)
        return "'" + ''.join(out) + "'"
    if t is list:
        return '[' + ', '.join(literal(x) for x in v) + ']'
    if t is dict:
        return '{' + ', '.join(f'{literal(k)}: {literal(x)}' for k, x in v.items()) + '}'
    raise ValueError('no literal for ' + tname(v))


_FSTR_RE = re.compile(r'@([_a-zA-Z][_0-9a-zA-Z]*)@')
_FMT_RE = re.compile(r'@([0-9]+)@')
_FMT_OVERLAP_RE = re.compile(r'@[0-9]+@[0-9]+@')
_PY_ONLY_LINEBREAKS = re.compile('[\\v\\f\\x1c\\x1d\\x1e\\x85\\u2028\\u2029]')
_DOC_INT_RE = re.compile(r'-?(0|[1-9][0-9]*)\Z')
_DOC_BASED_RE = re.compile(r'0x[0-9a-fA-F]+\Z|0o[0-7]+\Z|0b[01]+\Z')

_BUILTIN_OBJECTS = frozenset(['meson', 'build_machine', 'host_machine', 'target_machine'])


# Argument flattening (Syntax.md "Argument flattening": nested arrays in the positional arguments become one flat
# argument list) applies to every function and method except those whose reference page says arg_flattening: false.
_NOFLATTEN_FUNCS = frozenset(['message', 'set_variable', 'get_variable', 'project'])
_NOFLATTEN_METHODS = frozenset(['str.format', 'array.contains', 'array.get', 'dict.get', 'subproject.get_variable'])


def _flatten_args(pos: T.List[T.Any]) -> T.List[T.Any]:
    out: T.List[T.Any] = []
    for x in pos:
        if type(x) is list:
            out += _flatten_args(x)
        else:
            out.append(x)
    return out


class _Break(Exception):
    pass


class _Continue(Exception):
    pass


class Outcome:
    def __init__(self) -> None:
        self.messages: T.List[T.Tuple[str, str]] = []
        self.error: T.Optional[RefError] = None
        self.variables: T.Dict[str, T.Any] = {}
        self.cover: T.Counter[str] = collections.Counter()

    @property
    def ok(self) -> bool:
        return self.error is None

    def message_lines(self) -> T.List[str]:
        out = []
        for sp, text in self.messages:
            prefix = f'{sp}| ' if sp else ''
            out += [prefix + l if i == 0 or sp else l for i, l in enumerate(('Message: ' + text).split('\n'))]
        return out

    def brief(self) -> dict:
        e = self.error
        return {'ok': self.ok, 'messages': [list(m) for m in self.messages],
                'error': None if e is None else {'cls': e.cls, 'file': e.file, 'line': e.line, 'end_line': e.end_line,
                                                 'msg': e.msg}}


class _Scope:
    """One project (main or subproject): its own variable table and visited directories."""

    def __init__(self, name: str, root: str) -> None:
        self.name = name
        self.root = root            # '' or 'subprojects/<name>'
        self.variables: T.Dict[str, T.Any] = {}
        self.subdir = ''
        self.visited: T.Set[str] = set()
        self.file = ''


class Evaluator:
    def __init__(self, files: T.Optional[T.Mapping[str, str]] = None, subproject_dir: str = 'subprojects',
                 env: T.Optional[T.Mapping[str, T.Any]] = None) -> None:
        self.files = dict(files or {})
        self.subproject_dir = subproject_dir
        self.out = Outcome()
        self.cover = self.out.cover
        self.scope = _Scope('', '')
        if env:
            self.scope.variables.update(env)
        self.subprojects: T.Dict[str, RefSubproject] = {}
        self.stmt: T.Optional[Node] = None     # innermost simple statement being evaluated (for error spans)
        self.steps = 0
        self.max_steps = 2_000_000
        self.max_value_len: T.Optional[int] = 1_000_000   # str/array longer than this: RefUnspecified (resource limit)

    # ---- driver -----------------------------------------------------------------------------
    def run(self) -> Outcome:
        try:
            self._run_project(self.scope, top=True)
        except RefError as e:
            self.out.error = e
        self.out.variables = self.scope.variables
        return self.out

    def _join(self, *parts: str) -> str:
        return '/'.join(p for p in parts if p)

    def _load(self, path: str) -> Node:
        try:
            return parse(self.files[path])
        except RefError as e:
            e.file = path
            raise

    def _run_project(self, scope: _Scope, top: bool) -> None:
        path = self._join(scope.root, 'meson.build')
        if path not in self.files:
            raise RefRuntimeError('no meson.build in ' + (scope.root or 'the source root'), file=path)
        if not self.files[path].strip():
            raise RefRuntimeError('empty build file', 1, file=path)
        tree = self._load(path)
        stmts = tree.a[0]
        if not stmts or stmts[0].kind != 'call' or stmts[0].a[0] != 'project':
            raise RefRuntimeError('first statement must be a call to project()', stmts[0].line if stmts else 1, file=path)
        scope.file = path
        scope.visited.add(self._join(scope.root, ''))
        self._exec_block(tree)

    # ---- statements -------------------------------------------------------------------------
    def _fail(self, e: RefError, node: T.Optional[Node]) -> RefError:
        if not e.file:
            e.file = self.scope.file
        if not e.line and node is not None:
            e.line, e.end_line = node.line, node.end_line
        return e

    def _exec_block(self, blk: Node) -> None:
        for st in blk.a[0]:
            self._exec(st)

    def _exec(self, st: Node) -> None:
        self.steps += 1
        if self.steps > self.max_steps:
            raise RefUnspecified('reference step budget exhausted')
        k = st.kind
        self.cover['node:' + k] += 1
        if k == 'if':
            for cond, blk in st.a[0]:
                c = self._simple(cond, lambda: self._cond(self.ev(cond), 'if'))
                if c:
                    self._exec_block(blk)
                    return
            if st.a[1] is not None:
                self._exec_block(st.a[1])
            return
        if k == 'foreach':
            self._foreach(st)
            return
        if k == 'break':
            raise _Break()
        if k == 'continue':
            raise _Continue()
        self._simple(st, lambda: self._simple_statement(st))

    def _simple(self, node: Node, fn: T.Callable[[], T.Any]) -> T.Any:
        prev = self.stmt
        self.stmt = node
        file = self.scope.file
        try:
            return fn()
        except RefError as e:
            if not e.file:
                e.file = file
            if not e.line:
                e.line, e.end_line = node.line, node.end_line
            if not e.frames:
                e.frames.append((e.file, e.line, e.end_line))
            if e.frames[-1] != (file, node.line, node.end_line) and (file != e.frames[-1][0] or not
                                                                     (node.line <= e.frames[-1][1] <= node.end_line)):
                e.frames.append((file, node.line, node.end_line))   # the subdir()/subproject() call site
            raise
        finally:
            self.stmt = prev

    def _simple_statement(self, st: Node) -> None:
        k = st.kind
        if k == 'assign':
            name, vnode = st.a
            v = self.ev(vnode)
            if v is VOID:
                raise RefRuntimeError('cannot assign void')
            self._set(name, v)
        elif k == 'plusassign':
            name, vnode = st.a
            add = self.ev(vnode)
            if add is VOID:
                raise RefRuntimeError('cannot add void')
            old = self._get(name)
            self._set(name, self._plus(old, add, plusassign=True))
        else:
            self.ev(st)   # expression statement: value (or void) is discarded

    def _foreach(self, st: Node) -> None:
        names, itnode, blk = st.a

        def items() -> T.List[T.Any]:
            it = self.ev(itnode)
            t = type(it)
            if t is list:
                want, seq = 1, list(it)
            elif t is dict:
                want, seq = 2, list(it.items())
            elif t is RefRange:
                want, seq = 1, list(it.r)
            else:
                raise RefRuntimeError(f'cannot iterate over a {tname(it)}')
            if len(names) != want:
                raise RefRuntimeError(f'foreach over a {tname(it)} takes {want} loop variable(s)')
            self.cover['foreach:' + tname(it)] += 1
            return seq
        seq = self._simple(itnode, items)
        for item in seq:
            if len(names) == 2:
                self._set(names[0], item[0])
                self._set(names[1], item[1])
            else:
                self._set(names[0], item)
            try:
                self._exec_block(blk)
            except _Continue:
                self.cover['foreach:continue'] += 1
                continue
            except _Break:
                self.cover['foreach:break'] += 1
                break

    # ---- variables --------------------------------------------------------------------------
    def _set(self, name: str, v: T.Any) -> None:
        if name in _BUILTIN_OBJECTS:
            raise RefUnspecified('assignment to a builtin object name')
        self.scope.variables[name] = v

    def _get(self, name: str) -> T.Any:
        try:
            return self.scope.variables[name]
        except KeyError:
            if name in _BUILTIN_OBJECTS:
                raise RefUnspecified('builtin objects are outside the core language')
            raise RefRuntimeError(f'unknown variable {name}')

    # ---- expressions ------------------------------------------------------------------------
    def _cond(self, v: T.Any, what: str) -> bool:
        if type(v) is not bool:
            raise RefRuntimeError(f'{what} needs a boolean, got {tname(v)}')
        return v

    def _novoid(self, v: T.Any, what: str) -> T.Any:
        if v is VOID:
            raise RefRuntimeError(f'void value used as {what}')
        return v

    def ev(self, n: Node) -> T.Any:
        k = n.kind
        a = n.a
        self.cover['node:' + k] += 1 if k not in ('assign', 'plusassign') else 0
        if k == 'int' or k == 'bool':
            return a[0]
        if k == 'str':
            return a[0]
        if k == 'fstr':
            return self._fstring(a[0])
        if k == 'id':
            return self._get(a[0])
        if k == 'paren':
            return self.ev(a[0])
        if k == 'array':
            return [self._novoid(self.ev(x), 'array element') for x in a[0]]
        if k == 'dict':
            d: T.Dict[str, T.Any] = {}
            for kn, vn in a[0]:
                key = self.ev(kn)
                if type(key) is not str:
                    raise RefRuntimeError(f'dictionary key must be a string, got {tname(key)}')
                val = self._novoid(self.ev(vn), 'dictionary value')
                if key in d:
                    raise RefRuntimeError(f'duplicate dictionary key {key!r}')
                d[key] = val
            return d
        if k == 'not':
            v = self._novoid(self.ev(a[0]), 'operand of not')
            return not self._cond(v, 'not')
        if k == 'neg':
            v = self._novoid(self.ev(a[0]), 'operand of unary minus')
            if type(v) is not int:
                raise RefRuntimeError(f'unary minus needs an integer, got {tname(v)}')
            self.cover['op:neg:int'] += 1
            return -v
        if k == 'and':
            l = self._cond(self._novoid(self.ev(a[0]), 'operand of and'), 'and')
            if not l:
                self.cover['op:and:short'] += 1
                return False
            self.cover['op:and:full'] += 1
            return self._cond(self._novoid(self.ev(a[1]), 'operand of and'), 'and')
        if k == 'or':
            l = self._cond(self._novoid(self.ev(a[0]), 'operand of or'), 'or')
            if l:
                self.cover['op:or:short'] += 1
                return True
            self.cover['op:or:full'] += 1
            return self._cond(self._novoid(self.ev(a[1]), 'operand of or'), 'or')
        if k == 'ternary':
            c = self._cond(self._novoid(self.ev(a[0]), 'ternary condition'), 'ternary condition')
            return self.ev(a[1] if c else a[2])
        if k == 'arith':
            l = self._novoid(self.ev(a[1]), 'operand')
            r = self._novoid(self.ev(a[2]), 'operand')
            return self._arith(a[0], l, r)
        if k == 'cmp':
            l = self._novoid(self.ev(a[1]), 'operand')
            r = self._novoid(self.ev(a[2]), 'operand')
            return self._compare(a[0], l, r)
        if k == 'index':
            o = self._novoid(self.ev(a[0]), 'indexed object')
            i = self._novoid(self.ev(a[1]), 'index')
            return self._index(o, i)
        if k == 'call':
            return self._call(n)
        if k == 'method':
            obj = self._novoid(self.ev(a[0]), 'object of a method call')
            pos, kw = self._args(a[2], a[3])
            return self._method(obj, a[1], pos, kw)
        if k in ('assign', 'plusassign'):
            raise RefSyntaxError('assignment is a statement, not an expression', n.line)
        raise RefSyntaxError(f'{k} is not an expression', n.line)

    def _args(self, pos: T.Sequence[Node], kw: T.Sequence[T.Tuple[str, Node]]) -> T.Tuple[T.List[T.Any], T.Dict[str, T.Any]]:
        p = [self._novoid(self.ev(x), 'argument') for x in pos]
        k: T.Dict[str, T.Any] = {}
        for name, vn in kw:
            if name in k:
                raise RefUnspecified('keyword argument given twice')
            k[name] = self._novoid(self.ev(vn), 'argument')
        if 'kwargs' in k:
            raise RefUnspecified('kwargs: expansion is outside the core language')
        return p, k

    def _fstring(self, template: str) -> str:
        def rep(m: T.Match[str]) -> str:
            name = m.group(1)
            if name not in self.scope.variables:
                if name in _BUILTIN_OBJECTS:
                    raise RefUnspecified('builtin object in an f-string')
                raise RefRuntimeError(f'f-string names unknown variable {name}')
            return render(self.scope.variables[name])
        self.cover['fstring'] += 1
        return _FSTR_RE.sub(rep, template)

    # ---- operators --------------------------------------------------------------------------
    def _plus(self, l: T.Any, r: T.Any, plusassign: bool = False) -> T.Any:
        tl, tr = type(l), type(r)
        self.cover[f'op:{"+=" if plusassign else "+"}:{tname(l)}:{tname(r)}'] += 1
        if tl is int and tr is int:
            return l + r
        if tl in (str, list) and tr is tl and self.max_value_len is not None and len(l) + len(r) > self.max_value_len:
            raise RefUnspecified('value larger than the reference is willing to build')
        if tl is str and tr is str:
            return l + r
        if tl is list:
            if tr is list:
                return list(l) + list(r)
            if plusassign:
                return list(l) + [r]          # "When adding a single item, you do not need to enclose it in an array"
            raise RefUnspecified('array + <non-array> with plain + (documented only for +=)')
        if tl is dict and tr is dict:
            d = dict(l)
            d.update(r)
            return d
        raise RefRuntimeError(f'+ is not defined for {tname(l)} and {tname(r)}')

    def _arith(self, op: str, l: T.Any, r: T.Any) -> T.Any:
        if op == '+':
            return self._plus(l, r)
        tl, tr = type(l), type(r)
        self.cover[f'op:{op}:{tname(l)}:{tname(r)}'] += 1
        if tl is int and tr is int:
            if op == '-':
                return l - r
            if op == '*':
                if self.max_value_len is not None and l.bit_length() + r.bit_length() > 4 * self.max_value_len:
                    raise RefUnspecified('integer larger than the reference is willing to build')
                return l * r
            if r == 0:
                raise RefRuntimeError('division by zero')
            return l // r if op == '/' else l % r
        if op == '/' and tl is str and tr is str:
            return self._pathjoin(l, r)
        raise RefRuntimeError(f'{op} is not defined for {tname(l)} and {tname(r)}')

    @staticmethod
    def _pathjoin(a: str, b: str) -> str:
        if re.match(r'[A-Za-z]:', a) or re.match(r'[A-Za-z]:', b):
            raise RefUnspecified('drive-letter paths are platform dependent')
        if '\\' in a or '\\' in b:
            a, b = a.replace('\\', '/'), b.replace('\\', '/')
        if b.startswith('/'):
            return b
        if a == '' or a.endswith('/'):
            return a + b
        return a + '/' + b

    def _compare(self, op: str, l: T.Any, r: T.Any) -> bool:
        tl, tr = type(l), type(r)
        self.cover[f'op:{op}:{tname(l)}:{tname(r)}'] += 1
        if op in ('==', '!='):
            if tl is not tr or tl not in (int, bool, str, list, dict):
                if tl is tr:
                    raise RefUnspecified(f'equality of {tname(l)} objects')
                raise RefRuntimeError(f'{op} between different types {tname(l)} and {tname(r)}')
            eq = strict_eq(l, r)
            return eq if op == '==' else not eq
        if op in ('<', '<=', '>', '>='):
            if tl is int and tr is int:
                return {'<': l < r, '<=': l <= r, '>': l > r, '>=': l >= r}[op]
            if tl is str and tr is str:
                raise RefUnspecified('ordering of strings is not documented')
            raise RefRuntimeError(f'{op} is not defined for {tname(l)} and {tname(r)}')
        # in / notin: container is the right operand
        if tr is list:
            res = any(strict_eq(l, x) for x in r)
        elif tr is dict:
            # Syntax.md: "if 42 in my_dict  # This condition is false"
            res = tl is str and l in r
        elif tr is str:
            if tl is not str:
                raise RefRuntimeError(f'{tname(l)} in str')
            res = l in r
        else:
            raise RefRuntimeError(f'in is not defined for a {tname(r)} container')
        return res if op == 'in' else not res

    def _index(self, o: T.Any, i: T.Any) -> T.Any:
        to, ti = type(o), type(i)
        self.cover[f'op:index:{tname(o)}:{tname(i)}'] += 1
        if to is dict:
            if ti is not str:
                raise RefRuntimeError(f'dictionary key must be a string, got {tname(i)}')
            if i not in o:
                raise RefRuntimeError(f'key {i!r} is not in the dictionary')
            return o[i]
        if to in (list, str, RefRange):
            if ti is not int:
                raise RefRuntimeError(f'index must be an integer, got {tname(i)}')
            seq = o.r if to is RefRange else o
            if i < -len(seq) or i >= len(seq):
                raise RefRuntimeError(f'index {i} out of range')
            return seq[i]
        raise RefRuntimeError(f'a {tname(o)} cannot be indexed')

    # ---- functions --------------------------------------------------------------------------
    def _call(self, n: Node) -> T.Any:
        name, posn, kwn = n.a
        self.cover['func:' + name] += 1
        if name == 'project':
            if self.stmt is not None and self.stmt is not n:
                raise RefRuntimeError('project() must be the first statement')
            self._args(posn, kwn)
            return VOID
        pos, kw = self._args(posn, kwn)
        if name not in _NOFLATTEN_FUNCS:
            pos = _flatten_args(pos)
        fn = getattr(self, '_f_' + name, None)
        if fn is None:
            raise RefRuntimeError(f'unknown function {name}')
        return fn(pos, kw)

    @staticmethod
    def _sig(what: str, pos: T.List[T.Any], kw: T.Dict[str, T.Any], types: T.Sequence[T.Any], opt: int = 0,
             kwtypes: T.Optional[T.Dict[str, type]] = None) -> None:
        """Positional arguments: len(types)-opt required, the rest optional; None in types = any value."""
        for k, v in kw.items():
            if not kwtypes or k not in kwtypes:
                raise RefRuntimeError(f'{what} got an unknown keyword argument {k}')
            if type(v) is not kwtypes[k]:
                raise RefRuntimeError(f'{what}: keyword {k} has the wrong type {tname(v)}')
        if not (len(types) - opt <= len(pos) <= len(types)):
            raise RefRuntimeError(f'{what} takes {len(types) - opt}..{len(types)} positional arguments, got {len(pos)}')
        for v, t in zip(pos, types):
            if t is not None and type(v) is not t:
                raise RefRuntimeError(f'{what}: argument of type {tname(v)} where {t.__name__} is required')

    def _f_message(self, pos: T.List[T.Any], kw: T.Dict[str, T.Any]) -> T.Any:
        if kw:
            raise RefRuntimeError('message() takes no keyword arguments')
        if not pos:
            raise RefUnspecified('message() without arguments')
        self.out.messages.append((self.scope.name, ' '.join(render(x) for x in pos)))
        return VOID

    def _f_assert(self, pos: T.List[T.Any], kw: T.Dict[str, T.Any]) -> T.Any:
        self._sig('assert()', pos, kw, [bool, str], opt=1)
        if not pos[0]:
            raise RefRuntimeError('assertion failed')
        return VOID

    _NAME_RE = re.compile(r'[A-Za-z_][A-Za-z_0-9]*\Z')

    def _f_set_variable(self, pos: T.List[T.Any], kw: T.Dict[str, T.Any]) -> T.Any:
        self._sig('set_variable()', pos, kw, [str, None])
        if not self._NAME_RE.match(pos[0]):
            raise RefUnspecified('set_variable() with a name that is not an identifier')
        self._set(pos[0], pos[1])
        return VOID

    def _f_get_variable(self, pos: T.List[T.Any], kw: T.Dict[str, T.Any]) -> T.Any:
        self._sig('get_variable()', pos, kw, [str, None], opt=1)
        if pos[0] in self.scope.variables:
            return self.scope.variables[pos[0]]
        if pos[0] in _BUILTIN_OBJECTS:
            raise RefUnspecified('get_variable() of a builtin object')
        if len(pos) == 2:
            return pos[1]
        raise RefRuntimeError(f'get_variable(): unknown variable {pos[0]}')

    def _f_is_variable(self, pos: T.List[T.Any], kw: T.Dict[str, T.Any]) -> T.Any:
        self._sig('is_variable()', pos, kw, [str])
        if pos[0] in _BUILTIN_OBJECTS:
            raise RefUnspecified('is_variable() of a builtin object')
        return pos[0] in self.scope.variables

    def _f_unset_variable(self, pos: T.List[T.Any], kw: T.Dict[str, T.Any]) -> T.Any:
        self._sig('unset_variable()', pos, kw, [str])
        if pos[0] not in self.scope.variables:
            raise RefUnspecified('unset_variable() of a variable that does not exist')
        del self.scope.variables[pos[0]]
        return VOID

    def _f_range(self, pos: T.List[T.Any], kw: T.Dict[str, T.Any]) -> T.Any:
        self._sig('range()', pos, kw, [int, int, int], opt=2)
        if len(pos) == 1:
            start, stop, step = 0, pos[0], 1
        else:
            start, stop, step = pos[0], pos[1], pos[2] if len(pos) == 3 else 1
        if start < 0 or stop < start or step < 1:
            raise RefRuntimeError('range(): start >= 0, stop >= start, step >= 1 are required')
        return RefRange(start, stop, step)

    def _f_subdir(self, pos: T.List[T.Any], kw: T.Dict[str, T.Any]) -> T.Any:
        if kw:
            raise RefUnspecified('subdir() keyword arguments are outside the core language')
        self._sig('subdir()', pos, kw, [str])
        d = pos[0]
        if '..' in d.split('/'):
            raise RefRuntimeError('subdir() cannot contain ..')
        if d == '' or d.startswith('/') or '..' in d or d in ('.',) or d.endswith('/') or '//' in d or '\\' in d:
            raise RefUnspecified('unusual subdir() argument')
        sc = self.scope
        if sc.subdir == '' and (d == self.subproject_dir or d.startswith('meson-')):
            raise RefUnspecified('reserved directory name')
        new = self._join(sc.subdir, d)
        key = self._join(sc.root, new)
        path = self._join(key, 'meson.build')
        if key in sc.visited:
            raise RefRuntimeError(f'directory {new} was already visited')
        if path not in self.files:
            raise RefRuntimeError(f'no build file {path}')
        sc.visited.add(key)
        tree = self._load(path)
        prev_sub, prev_file, prev_stmt = sc.subdir, sc.file, self.stmt
        sc.subdir, sc.file, self.stmt = new, path, None
        try:
            self._exec_block(tree)
        except (_Break, _Continue):
            raise RefUnspecified('break/continue crossing a subdir() boundary', file=path)
        finally:
            sc.subdir, sc.file, self.stmt = prev_sub, prev_file, prev_stmt
        return VOID

    def _f_subproject(self, pos: T.List[T.Any], kw: T.Dict[str, T.Any]) -> T.Any:
        if kw:
            raise RefUnspecified('subproject() keyword arguments are outside the core language')
        self._sig('subproject()', pos, kw, [str])
        name = pos[0]
        if not re.match(r'[A-Za-z0-9_][A-Za-z0-9_.+-]*\Z', name) or '..' in name:
            raise RefUnspecified('unusual subproject name')
        if self.scope.name:
            raise RefUnspecified('nested subprojects are outside the generated language')
        if name in self.subprojects:
            return self.subprojects[name]
        root = self._join(self.subproject_dir, name)
        if self._join(root, 'meson.build') not in self.files:
            raise RefRuntimeError(f'subproject {name} does not exist')
        sub = _Scope(name, root)
        prev_scope, prev_stmt = self.scope, self.stmt
        self.scope, self.stmt = sub, None
        try:
            self._run_project(sub, top=False)
        finally:
            self.scope, self.stmt = prev_scope, prev_stmt
        sp = RefSubproject(name, sub.variables)
        self.subprojects[name] = sp
        return sp

    # ---- methods ----------------------------------------------------------------------------
    def _method(self, obj: T.Any, name: str, pos: T.List[T.Any], kw: T.Dict[str, T.Any]) -> T.Any:
        tn = tname(obj)
        fn = getattr(self, f'_m_{tn}_{name}', None)
        self.cover[f'method:{tn}.{name}'] += 1
        if fn is None:
            if tn == 'str' and name == 'version_compare':
                raise RefUnspecified('version_compare belongs to the version reference (C19)')
            raise RefRuntimeError(f'{tn} has no method {name}')
        if f'{tn}.{name}' not in _NOFLATTEN_METHODS:
            pos = _flatten_args(pos)
        if self.max_value_len is not None and sum(len(x) for x in pos if type(x) in (str, list)) > self.max_value_len:
            raise RefUnspecified('arguments larger than the reference is willing to handle')
        return fn(obj, pos, kw)

    # str
    def _m_str_format(self, s: str, pos: T.List[T.Any], kw: T.Dict[str, T.Any]) -> T.Any:
        if kw:
            raise RefRuntimeError('format() takes no keyword arguments')
        texts = []
        for x in pos:
            try:
                texts.append(render(x))
            except RefRuntimeError:
                raise RefUnspecified('format() of an object that is not elementary')

        # "@number@ is replaced by the corresponding argument": one pass over the template; inserted text is never
        # looked at again; @01@ is the number 1.  Where two candidates share an '@' (as in '@1@0@') the documents
        # do not say which one is the placeholder.
        if _FMT_OVERLAP_RE.search(s):
            raise RefUnspecified('overlapping @N@ candidates in a format template')

        def rep(m: T.Match[str]) -> str:
            digits = m.group(1)
            i = int(digits)
            if i >= len(texts):
                raise RefUnspecified('format placeholder beyond the arguments')
            return texts[i]
        return _FMT_RE.sub(rep, s)

    def _m_str_replace(self, s: str, pos: T.List[T.Any], kw: T.Dict[str, T.Any]) -> T.Any:
        self._sig('replace()', pos, kw, [str, str])
        if pos[0] == '':
            raise RefUnspecified('replace() of the empty string')
        if self.max_value_len is not None and s.count(pos[0]) * len(pos[1]) > self.max_value_len:
            raise RefUnspecified('value larger than the reference is willing to build')
        return s.replace(pos[0], pos[1])

    def _m_str_strip(self, s: str, pos: T.List[T.Any], kw: T.Dict[str, T.Any]) -> T.Any:
        self._sig('strip()', pos, kw, [str], opt=1)
        if pos:
            if pos[0] == '':
                raise RefUnspecified('strip() with an empty character set')
            return s.strip(pos[0])
        core = s.strip(' \n')
        if core != s.strip():
            raise RefUnspecified('strip() of blanks other than spaces and newlines')
        return core

    def _m_str_to_lower(self, s: str, pos: T.List[T.Any], kw: T.Dict[str, T.Any]) -> T.Any:
        self._sig('to_lower()', pos, kw, [])
        return s.lower()

    def _m_str_to_upper(self, s: str, pos: T.List[T.Any], kw: T.Dict[str, T.Any]) -> T.Any:
        self._sig('to_upper()', pos, kw, [])
        return s.upper()

    def _m_str_to_int(self, s: str, pos: T.List[T.Any], kw: T.Dict[str, T.Any]) -> T.Any:
        self._sig('to_int()', pos, kw, [])
        if _DOC_INT_RE.match(s):
            return int(s)
        if _DOC_BASED_RE.match(s):
            return int(s, 0)
        for base in (10, 0):
            try:
                int(s.strip(), base)
            except ValueError:
                continue
            raise RefUnspecified('to_int() of a spelling the documents do not mention')
        raise RefRuntimeError(f'{s!r} cannot be converted to an integer')

    def _m_str_contains(self, s: str, pos: T.List[T.Any], kw: T.Dict[str, T.Any]) -> T.Any:
        self._sig('contains()', pos, kw, [str])
        return pos[0] in s

    def _m_str_startswith(self, s: str, pos: T.List[T.Any], kw: T.Dict[str, T.Any]) -> T.Any:
        self._sig('startswith()', pos, kw, [str])
        return s.startswith(pos[0])

    def _m_str_endswith(self, s: str, pos: T.List[T.Any], kw: T.Dict[str, T.Any]) -> T.Any:
        self._sig('endswith()', pos, kw, [str])
        return s.endswith(pos[0])

    def _m_str_substring(self, s: str, pos: T.List[T.Any], kw: T.Dict[str, T.Any]) -> T.Any:
        self._sig('substring()', pos, kw, [int, int], opt=2)
        n = len(s)

        def clamp(i: int) -> int:
            if i < 0:
                i += n
            return min(max(i, 0), n)
        start = clamp(pos[0]) if len(pos) >= 1 else 0
        end = clamp(pos[1]) if len(pos) == 2 else n
        return s[start:end] if start < end else ''

    def _m_str_split(self, s: str, pos: T.List[T.Any], kw: T.Dict[str, T.Any]) -> T.Any:
        self._sig('split()', pos, kw, [str], opt=1)
        if pos:
            if pos[0] == '':
                raise RefUnspecified('split() at the empty string')
            return s.split(pos[0])
        if _PY_ONLY_LINEBREAKS.search(s) or any(ch.isspace() and ch not in ' \t\n\r' for ch in s):
            raise RefUnspecified('split() with exotic whitespace')
        return s.split()

    def _m_str_splitlines(self, s: str, pos: T.List[T.Any], kw: T.Dict[str, T.Any]) -> T.Any:
        self._sig('splitlines()', pos, kw, [])
        if _PY_ONLY_LINEBREAKS.search(s):
            raise RefUnspecified('splitlines() with separators other than \\n, \\r, \\r\\n')
        out = re.split(r'\r\n|\n|\r', s)
        if out and out[-1] == '':
            out.pop()
        return out

    def _m_str_join(self, s: str, pos: T.List[T.Any], kw: T.Dict[str, T.Any]) -> T.Any:
        if kw:
            raise RefRuntimeError('join() takes no keyword arguments')
        if len(pos) == 1 and type(pos[0]) is list:
            items = pos[0]
        else:
            items = pos
        for x in items:
            if type(x) is list:
                raise RefUnspecified('join() of nested arrays')
            if type(x) is not str:
                raise RefRuntimeError(f'join() of a {tname(x)}')
        return s.join(items)

    def _m_str_underscorify(self, s: str, pos: T.List[T.Any], kw: T.Dict[str, T.Any]) -> T.Any:
        self._sig('underscorify()', pos, kw, [])
        return ''.join(ch if (ch.isascii() and ch.isalnum()) else '_' for ch in s)

    # int
    def _m_int_is_even(self, v: int, pos: T.List[T.Any], kw: T.Dict[str, T.Any]) -> T.Any:
        self._sig('is_even()', pos, kw, [])
        return v % 2 == 0

    def _m_int_is_odd(self, v: int, pos: T.List[T.Any], kw: T.Dict[str, T.Any]) -> T.Any:
        self._sig('is_odd()', pos, kw, [])
        return v % 2 == 1

    def _m_int_to_string(self, v: int, pos: T.List[T.Any], kw: T.Dict[str, T.Any]) -> T.Any:
        self._sig('to_string()', pos, kw, [], kwtypes={'fill': int, 'format': str})
        fmt = kw.get('format', 'dec')
        if fmt not in ('dec', 'hex', 'oct', 'bin'):
            raise RefRuntimeError('unknown number format ' + fmt)
        fill = kw.get('fill', 0)
        if fmt != 'dec':
            if fill > 0 or v < 0:
                raise RefUnspecified('fill:/negative numbers together with format:')
            return {'hex': '0x%x', 'oct': '0o%o'}[fmt] % v if fmt != 'bin' else '0b' + bin(v)[2:]
        s = str(abs(v))
        sign = '-' if v < 0 else ''
        width = fill - len(sign)
        if len(s) < width:
            s = '0' * (width - len(s)) + s
        return sign + s

    # bool
    def _m_bool_to_int(self, v: bool, pos: T.List[T.Any], kw: T.Dict[str, T.Any]) -> T.Any:
        self._sig('to_int()', pos, kw, [])
        return 1 if v else 0

    def _m_bool_to_string(self, v: bool, pos: T.List[T.Any], kw: T.Dict[str, T.Any]) -> T.Any:
        self._sig('to_string()', pos, kw, [str, str], opt=2)
        if len(pos) == 1:
            raise RefRuntimeError('to_string() takes no or two strings')
        if len(pos) == 2:
            return pos[0] if v else pos[1]
        return 'true' if v else 'false'

    # array
    def _m_array_length(self, v: list, pos: T.List[T.Any], kw: T.Dict[str, T.Any]) -> T.Any:
        self._sig('length()', pos, kw, [])
        return len(v)

    def _m_array_contains(self, v: list, pos: T.List[T.Any], kw: T.Dict[str, T.Any]) -> T.Any:
        self._sig('contains()', pos, kw, [None])
        if any(strict_eq(x, pos[0]) for x in v):
            return True

        def deep(l: list) -> bool:
            return any(strict_eq(x, pos[0]) or (type(x) is list and deep(x)) for x in l)
        if deep(v):
            raise RefUnspecified('contains() finding the item only inside a nested array')
        return False

    def _m_array_get(self, v: list, pos: T.List[T.Any], kw: T.Dict[str, T.Any]) -> T.Any:
        self._sig('get()', pos, kw, [int, None], opt=1)
        i = pos[0]
        if i < -len(v) or i >= len(v):
            if len(pos) == 2:
                return pos[1]
            raise RefRuntimeError(f'index {i} out of range')
        return v[i]

    def _m_array_slice(self, v: list, pos: T.List[T.Any], kw: T.Dict[str, T.Any]) -> T.Any:
        self._sig('slice()', pos, kw, [int, int], opt=2, kwtypes={'step': int})
        if len(pos) == 1:
            raise RefRuntimeError('slice() needs both or none of start and stop')
        step = kw.get('step', 1)
        if step == 0:
            raise RefRuntimeError('slice() step cannot be zero')
        if len(pos) == 2:
            return v[pos[0]:pos[1]:step]
        return v[::step]

    def _m_array_flatten(self, v: list, pos: T.List[T.Any], kw: T.Dict[str, T.Any]) -> T.Any:
        self._sig('flatten()', pos, kw, [])
        out: T.List[T.Any] = []

        def go(l: list) -> None:
            for x in l:
                if type(x) is list:
                    go(x)
                else:
                    out.append(x)
        go(v)
        return out

    # dict
    def _m_dict_has_key(self, d: dict, pos: T.List[T.Any], kw: T.Dict[str, T.Any]) -> T.Any:
        self._sig('has_key()', pos, kw, [str])
        return pos[0] in d

    def _m_dict_get(self, d: dict, pos: T.List[T.Any], kw: T.Dict[str, T.Any]) -> T.Any:
        self._sig('get()', pos, kw, [str, None], opt=1)
        if pos[0] in d:
            return d[pos[0]]
        if len(pos) == 2:
            return pos[1]
        raise RefRuntimeError(f'key {pos[0]!r} is not in the dictionary')

    def _m_dict_keys(self, d: dict, pos: T.List[T.Any], kw: T.Dict[str, T.Any]) -> T.Any:
        self._sig('keys()', pos, kw, [])
        return sorted(d)

    def _m_dict_values(self, d: dict, pos: T.List[T.Any], kw: T.Dict[str, T.Any]) -> T.Any:
        self._sig('values()', pos, kw, [])
        return [d[k] for k in sorted(d)]

    # subproject object
    def _m_subproject_get_variable(self, sp: RefSubproject, pos: T.List[T.Any], kw: T.Dict[str, T.Any]) -> T.Any:
        self._sig('subproject.get_variable()', pos, kw, [str, None], opt=1)
        if pos[0] in sp.variables:
            return sp.variables[pos[0]]
        if len(pos) == 2:
            return pos[1]
        raise RefRuntimeError(f'subproject {sp.name} has no variable {pos[0]}')

    def _m_subproject_found(self, sp: RefSubproject, pos: T.List[T.Any], kw: T.Dict[str, T.Any]) -> T.Any:
        self._sig('subproject.found()', pos, kw, [])
        return True


def evaluate_expression(text: str, env: T.Optional[T.Mapping[str, T.Any]] = None,
                        files: T.Optional[T.Mapping[str, str]] = None) -> T.Any:
    """Evaluate one expression in the variable environment env (name -> value); env is not modified."""
    tree = parse_expression(text)
    ev = Evaluator(files or {}, env=dict(env or {}))
    ev.scope.file = '<expression>'
    try:
        return ev._simple(tree, lambda: ev.ev(tree))
    except (_Break, _Continue):
        raise RefSyntaxError('break/continue in an expression')
