"""C05 - the generated build graph is dependency-complete: any valid schedule builds the same thing.

Three oracle layers per generated project (DESIGN.md C05), all on the REAL build.ninja written by the real
`meson setup` and executed by mini-ninja with the real gcc/ar/python:

  1b. undeclared byproducts: a build-dir file written by an edge that no statement declares, and written or read
     by another edge that is not ordered with it, is a write-write / write-read race => violation.
  1. race detector over one traced (strace) clean build: every file an edge e observed (successful
     open-for-read, execve, stat-family) that is an output of an executed edge p != e must have p among
     e's declared transitive ancestors (explicit + implicit + order-only).  Otherwise: *candidate*.
  2. hermetic replay in place: build dir reset to the post-configure snapshot + outputs of ancestors(e)
     only; e's command must succeed and reproduce the reference output bytes.  Candidates that replay
     identically are benign (evidence); failure / different bytes => violation.
  3. adversarial schedules executed for real (random / reverse / consumers-first / deepest-last x -j1,4,16)
     from the post-configure snapshot: must succeed and reproduce the reference artifacts.

Artifact equivalence (stated, sound w.r.t. false alarms): every declared output of every executed edge is
compared byte for byte with the reference build (same absolute paths, same commands => gcc/ar/ld and the
project's tools are deterministic).  A byte difference in a non-binary output, or a difference in the
observable behaviour (stdout + exit status) of any project executable, is a violation; a byte difference
confined to ELF/ar files with identical behaviour of all executables is counted as an inconclusive case
(`binary-bytes-differ`), never as a violation.  gcc precompiled headers (*.gch) are documented as not
reproducible and are compared by existence only.
"""
from __future__ import annotations

import hashlib
import io
import json
import os
import re
import shutil
import subprocess
import sys
import time
import typing as T

from vf import common, runner
from vf import mininja as mn
from vf.gen import gen_c05
from vf.monitors import c05 as mon_c05

POLICIES = ('random', 'reverse', 'consumers-first', 'deepest-last')
JOBS = (1, 4, 16)


# ------------------------------------------------------------------------------------------------
# strace log -> file events
# ------------------------------------------------------------------------------------------------
_LINE = re.compile(r'^(\d+)\s+(.*)$')
_CALL = re.compile(r'^(\w+)\((.*)\)\s+=\s+(-?\d+|\?)(.*)$', re.S)
_STR = re.compile(r'"((?:[^"\\]|\\.)*)"')
_DIRFD = re.compile(r'^(AT_FDCWD|\d+)(?:<((?:[^<>]|<[^<>]*>)*)>)?')
_RESUMED = re.compile(r'^<\.\.\. (\w+) resumed>\s?(.*)$', re.S)
_RETFD = re.compile(r'^<((?:[^<>]|<[^<>]*>)*)>')

STAT_CALLS = {'stat', 'lstat', 'newfstatat', 'statx', 'access', 'faccessat', 'faccessat2', 'readlink', 'readlinkat',
              'fstatat64', 'stat64', 'lstat64'}
OPEN_CALLS = {'open', 'openat', 'openat2', 'creat'}
EXEC_CALLS = {'execve', 'execveat'}
WRITE_CALLS = {'unlink', 'unlinkat', 'rename', 'renameat', 'renameat2', 'mkdir', 'mkdirat', 'rmdir', 'symlink',
               'symlinkat', 'link', 'linkat', 'chmod', 'fchmodat', 'truncate', 'utimensat', 'utime', 'utimes',
               'chown', 'lchown', 'fchownat', 'mknod', 'mknodat'}
AT_CALLS = {'openat', 'openat2', 'newfstatat', 'statx', 'faccessat', 'faccessat2', 'readlinkat', 'execveat',
            'unlinkat', 'mkdirat', 'fchmodat', 'utimensat', 'fchownat', 'fstatat64', 'mknodat'}


def _unescape(s: str) -> str:
    if '\\' not in s:
        return s
    out = []
    i = 0
    n = len(s)
    simple = {'n': '\n', 't': '\t', 'r': '\r', '"': '"', '\\': '\\', 'v': '\v', 'f': '\f', 'a': '\a', 'b': '\b', 'e': '\x1b'}
    raw = bytearray()

    def flush() -> None:
        if raw:
            out.append(raw.decode('utf-8', 'surrogateescape'))
            raw.clear()
    while i < n:
        c = s[i]
        if c != '\\':
            flush()
            out.append(c)
            i += 1
            continue
        i += 1
        if i >= n:
            break
        d = s[i]
        if d in simple:
            flush()
            out.append(simple[d])
            i += 1
        elif d == 'x':
            raw.append(int(s[i + 1:i + 3], 16))
            i += 3
        elif d in '01234567':
            j = i
            while j < n and j < i + 3 and s[j] in '01234567':
                j += 1
            raw.append(int(s[i:j], 8) & 0xff)
            i = j
        else:
            flush()
            out.append(d)
            i += 1
    flush()
    return ''.join(out)


class Ev(T.NamedTuple):
    kind: str      # 'read' | 'write' | 'exec' | 'stat'
    path: str      # absolute, normalised
    ok: bool
    err: str       # errno name when not ok
    call: str


def parse_strace(path: str, start_cwd: str) -> T.Tuple[T.List[Ev], T.Dict[str, int]]:
    """Offline parser of one edge's `strace -f -y -e trace=%file,execve,chdir,fchdir` log."""
    stats = {'lines': 0, 'calls': 0, 'unparsed': 0}
    events: T.List[Ev] = []
    cwd: T.Dict[str, str] = {}
    pending: T.Dict[str, str] = {}
    try:
        f = open(path, encoding='utf-8', errors='surrogateescape')
    except OSError:
        return events, stats
    with f:
        for line in f:
            stats['lines'] += 1
            line = line.rstrip('\n')
            m = _LINE.match(line)
            if not m:
                stats['unparsed'] += 1
                continue
            pid, rest = m.group(1), m.group(2)
            if rest.startswith('---') or rest.startswith('+++'):
                continue
            if rest.endswith('<unfinished ...>'):
                pending[pid] = rest[:-len('<unfinished ...>')]
                continue
            r = _RESUMED.match(rest)
            if r:
                head = pending.pop(pid, None)
                if head is None:
                    stats['unparsed'] += 1
                    continue
                rest = head + r.group(2)
            c = _CALL.match(rest)
            if not c:
                stats['unparsed'] += 1
                continue
            stats['calls'] += 1
            name, args, ret, tail = c.group(1), c.group(2), c.group(3), c.group(4)
            ok = ret not in ('-1', '?')
            err = ''
            if not ok:
                em = re.match(r'\s*(E\w+)', tail)
                err = em.group(1) if em else '?'
            base = cwd.get(pid, start_cwd)
            a = args
            if name in AT_CALLS:
                dm = _DIRFD.match(a)
                if dm:
                    if dm.group(2) is not None:
                        if dm.group(1) == 'AT_FDCWD':
                            cwd[pid] = dm.group(2)
                        base = dm.group(2)
                    a = a[dm.end():]
            if name == 'fchdir':
                dm = _DIRFD.match(a)
                if ok and dm and dm.group(2):
                    cwd[pid] = dm.group(2)
                continue
            sm = _STR.search(a)
            if not sm:
                continue
            p = _unescape(sm.group(1))
            if p == '':
                continue   # AT_EMPTY_PATH: fstat of an fd whose open was already seen
            ap = os.path.normpath(p if p.startswith('/') else os.path.join(base, p))
            if name == 'chdir':
                if ok:
                    cwd[pid] = ap
                continue
            if name in OPEN_CALLS:
                after = a[sm.end():]
                wr = name == 'creat' or 'O_WRONLY' in after or ('O_RDWR' in after and ('O_CREAT' in after or 'O_TRUNC' in after))
                if 'O_DIRECTORY' in after and not wr:
                    kind = 'stat'
                else:
                    kind = 'write' if wr else 'read'
                events.append(Ev(kind, ap, ok, err, name))
                if ok:
                    fm = _RETFD.match(tail)
                    if fm:
                        rp = fm.group(1)
                        if rp.startswith('/') and rp != ap and not rp.endswith(' (deleted)'):
                            events.append(Ev(kind, os.path.normpath(rp), True, '', name))
                    if 'O_RDWR' in after and not wr:
                        events.append(Ev('write', ap, ok, err, name))
            elif name in EXEC_CALLS:
                events.append(Ev('exec', ap, ok, err, name))
            elif name in STAT_CALLS:
                if name in ('readlink', 'readlinkat') and err == 'EINVAL':
                    ok = True   # exists, not a symlink: an existence observation
                events.append(Ev('stat', ap, ok, err, name))
            elif name in WRITE_CALLS:
                events.append(Ev('write', ap, ok, err, name))
                if name in ('rename', 'renameat', 'renameat2', 'link', 'linkat', 'symlink', 'symlinkat'):
                    # second path is written as well
                    sm2 = _STR.search(a, sm.end())
                    if sm2:
                        rest2 = a[sm.end():sm2.start()]
                        b2 = base
                        dm2 = re.search(r'(AT_FDCWD|\d+)<((?:[^<>]|<[^<>]*>)*)>', rest2)
                        if dm2:
                            b2 = dm2.group(2)
                        p2 = _unescape(sm2.group(1))
                        events.append(Ev('write', os.path.normpath(p2 if p2.startswith('/') else os.path.join(b2, p2)),
                                         ok, err, name))
                        if name.startswith('rename'):
                            events.append(Ev('read', ap, ok, err, name))
    return events, stats


_SELFTEST_LOG = r'''100 execve("/bin/sh", ["/bin/sh", "-c", "x"], 0x7 /* 8 vars */) = 0
100 openat(AT_FDCWD</b>, "sub/gen.h", O_RDONLY|O_NOCTTY) = 3</b/sub/gen.h>
100 openat(AT_FDCWD</b>, "out.o", O_RDWR|O_CREAT|O_TRUNC, 0666) = 4</b/out.o>
101 chdir("/b/sub")                  = 0
101 access("x.txt", R_OK)            = 0
101 execve("./tool", ["./tool", "a\"b"], 0x7 /* 3 vars */ <unfinished ...>
100 newfstatat(AT_FDCWD</b>, "missing.h", 0x7ffc, 0) = -1 ENOENT (No such file or directory)
101 <... execve resumed>)             = 0
101 readlink("/b/sub/tool", 0x7ffd, 1023) = -1 EINVAL (Invalid argument)
100 openat(AT_FDCWD</b>, "lnk.so", O_RDONLY|O_CLOEXEC) = 3</b/real.so.1>
100 newfstatat(3</b/real.so.1>, "", {st_mode=S_IFREG|0644, st_size=3, ...}, AT_EMPTY_PATH) = 0
100 unlink("old.a")                   = 0
100 rename("tmp.x", "final.x")        = 0
100 --- SIGCHLD {si_signo=SIGCHLD, si_code=CLD_EXITED, si_pid=101, si_uid=0, si_status=0, si_utime=0, si_stime=0} ---
102 openat(AT_FDCWD</b/d with space>, "a\303\251.h", O_RDONLY) = -1 ENOENT (No such file or directory)
'''


def parser_selftest(scratch: str) -> T.List[str]:
    """The offline checker is only as good as its reading of strace output: known log, known events."""
    p = os.path.join(scratch, 'selftest.strace')
    with open(p, 'w', encoding='utf-8') as f:
        f.write(_SELFTEST_LOG)
    evs, st = parse_strace(p, '/b')
    got = {(e.kind, e.path, e.ok) for e in evs}
    want = {('exec', '/bin/sh', True), ('read', '/b/sub/gen.h', True), ('write', '/b/out.o', True),
            ('stat', '/b/sub/x.txt', True), ('exec', '/b/sub/tool', True), ('stat', '/b/missing.h', False),
            ('stat', '/b/sub/tool', True), ('read', '/b/lnk.so', True), ('read', '/b/real.so.1', True),
            ('write', '/b/old.a', True), ('write', '/b/tmp.x', True), ('write', '/b/final.x', True),
            ('read', '/b/tmp.x', True), ('read', '/b/d with space/a\u00e9.h', False)}
    problems = []
    if got != want:
        problems.append(f'missing={sorted(want - got)} unexpected={sorted(got - want)}')
    if st['unparsed']:
        problems.append(f"unparsed={st['unparsed']}")
    os.unlink(p)
    return problems


# ------------------------------------------------------------------------------------------------
# graph helpers
# ------------------------------------------------------------------------------------------------
def rule_class(e: mn.Edge) -> str:
    r = e.rule.name
    if r.endswith('_COMPILER'):
        return 'compile'
    if r.endswith('_PREPROCESSOR'):
        return 'preprocess'
    if r.startswith('STATIC_LINKER'):
        return 'static-link'
    if r.endswith('_LINKER'):
        return 'link'
    if r.endswith('_PCH'):
        return 'precompile'
    if r.startswith('SHSYM'):
        return 'shsym'
    if r.startswith('CUSTOM_COMMAND'):
        # generator() rules write into a target's private directory (<target>.p/)
        outs = [o for o in e.all_outputs]
        if outs and all(os.path.basename(os.path.dirname(o)).endswith('.p') for o in outs):
            return 'generator'
        return 'custom'
    return r.lower()


def file_class(path: str) -> str:
    b = os.path.basename(path)
    ext = os.path.splitext(b)[1]
    if ext in ('.h', '.hpp', '.inc'):
        return 'header'
    if ext in ('.c', '.cpp', '.i'):
        return 'source'
    if ext == '.o':
        return 'object'
    if ext == '.a':
        return 'archive'
    if ext == '.so' or '.so.' in b:
        return 'shlib'
    if ext == '.symbols':
        return 'symbols'
    if ext in ('.txt', '.def', '.map'):
        return 'data'
    if ext == '':
        return 'exe-or-plain'
    return 'other'


def mechanism_for(e: mn.Edge, p: T.Optional[mn.Edge], path: str) -> str:
    """Classifier: WHY the step is not hermetic - consumer class, producer class, kind of file needed."""
    if p is None:
        return f'step-not-hermetic:{rule_class(e)}'
    return f'undeclared-dep:{rule_class(e)}-needs-{file_class(path)}-of-{rule_class(p)}'


def sha(path: str) -> T.Optional[str]:
    try:
        with open(path, 'rb') as f:
            return hashlib.sha256(f.read()).hexdigest()[:20]
    except OSError:
        return None


# gcc documents precompiled headers as not reproducible (they embed allocator state): compared by existence only
NONDETERMINISTIC_SUFFIXES = ('.gch', '.pch')


def is_binary_artifact(path: str) -> bool:
    try:
        with open(path, 'rb') as f:
            head = f.read(8)
    except OSError:
        return False
    return head.startswith(b'\x7fELF') or head.startswith(b'!<arch>') or head.startswith(b'!<thin>')


class Built:
    """One configured project + its manifest, with the operations the three layers need."""

    def __init__(self, root: str, proj: dict) -> None:
        self.root = root
        self.proj = proj
        self.src = os.path.join(root, 's')
        self.bdir = os.path.join(root, 'b')
        self.snap = os.path.join(root, 'snap')
        self.ref = os.path.join(root, 'ref')
        self.trace = os.path.join(root, 'tr')
        self.env = runner.base_env()
        self.env['PATH'] = '/venv/bin:' + self.env['PATH']
        self.m: mn.Manifest = None  # type: ignore[assignment]
        self.executed: T.List[int] = []
        self.ref_digest: T.Dict[str, T.Optional[str]] = {}
        self.ref_behaviour: T.Dict[str, T.Tuple[int, str]] = {}
        self.cfg_counts: T.Dict[str, int] = {}

    def rel(self, ap: str) -> T.Optional[str]:
        pre = self.bdir + '/'
        if ap.startswith(pre):
            return mn.canon(ap[len(pre):])
        return None

    def producer_of(self, ap: str) -> T.Optional[mn.Edge]:
        r = self.rel(ap)
        p = self.m.producer.get(r) if r is not None else None
        if p is None:
            p = self.m.producer.get(ap)
        return p

    def setup(self) -> runner.Result:
        runner.write_tree(self.src, self.proj['files'])
        r = runner.meson(['setup', self.bdir] + list(self.proj['setup_args']), cwd=self.src,
                         env={'PATH': self.env['PATH']}, monitors=[mon_c05.install], timeout=180)
        for recd in r.records:
            if 'c05' in recd:
                for k, v in recd['c05'].items():
                    self.cfg_counts[k] = self.cfg_counts.get(k, 0) + v
        if r.rc == 0 and not r.timed_out:
            shutil.copytree(self.bdir, self.snap, symlinks=True)
            self.m = mn.parse_manifest('build.ninja', cwd=self.bdir)
        return r

    def reset(self) -> None:
        shutil.rmtree(self.bdir, ignore_errors=True)
        shutil.copytree(self.snap, self.bdir, symlinks=True)

    def outputs_of(self, idxs: T.Iterable[int]) -> T.List[str]:
        res = []
        for i in idxs:
            e = self.m.edges[i]
            if not e.is_phony:
                res.extend(e.all_outputs)
        return res

    def digests(self, idxs: T.Iterable[int]) -> T.Dict[str, T.Optional[str]]:
        res: T.Dict[str, T.Optional[str]] = {}
        for o in self.outputs_of(idxs):
            ap = o if os.path.isabs(o) else os.path.join(self.bdir, o)
            if o.endswith(NONDETERMINISTIC_SUFFIXES):
                res[o] = 'exists' if os.path.exists(ap) else None
            else:
                res[o] = sha(ap)
        return res

    def behaviours(self) -> T.Dict[str, T.Tuple[int, str]]:
        res = {}
        for x in self.proj['exes']:
            try:
                p = subprocess.run([os.path.join(self.bdir, x['path'])], cwd=self.bdir, env=self.env, timeout=20,
                                   stdin=subprocess.DEVNULL, stdout=subprocess.PIPE, stderr=subprocess.STDOUT)
                res[x['name']] = (p.returncode, p.stdout.decode('utf-8', 'replace')[:400])
            except (OSError, subprocess.TimeoutExpired) as ex:
                res[x['name']] = (-999, repr(ex)[:200])
        return res

    def reference_build(self, jobs: int) -> T.Tuple[int, str, mn.Executor]:
        out = io.StringIO()
        ex = mn.Executor(self.m, self.bdir, jobs=jobs, policy='decl', trace_dir=self.trace, incremental=False,
                         env=self.env, out=out)
        rc = ex.run()
        self.executed = list(ex.order)
        if rc == 0:
            self.ref_digest = self.digests(self.executed)
            self.ref_behaviour = self.behaviours()
            os.rename(self.bdir, self.ref)
        return rc, out.getvalue(), ex

    def hermetic(self, e: mn.Edge) -> dict:
        """Reset to the post-configure snapshot, restore only outputs of ancestors(e), run e's command."""
        self.reset()
        for o in self.outputs_of(self.m.ancestors(e)):
            if os.path.isabs(o):
                continue
            srcp = os.path.join(self.ref, o)
            dst = os.path.join(self.bdir, o)
            if os.path.lexists(srcp):
                os.makedirs(os.path.dirname(dst), exist_ok=True)
                shutil.copy2(srcp, dst, follow_symlinks=False)
        ex = mn.Executor(self.m, self.bdir, env=self.env, out=io.StringIO())
        cmd, rsp, content = ex.command_for(e)
        for o in e.all_outputs:
            os.makedirs(os.path.dirname(os.path.join(self.bdir, o)) or '.', exist_ok=True)
        if rsp:
            rp = os.path.join(self.bdir, rsp)
            os.makedirs(os.path.dirname(rp) or '.', exist_ok=True)
            with open(rp, 'wb') as f:
                f.write((content or '').encode('utf-8', 'surrogateescape'))
        try:
            p = subprocess.run(['/bin/sh', '-c', cmd], cwd=self.bdir, env=self.env, stdin=subprocess.DEVNULL,
                               stdout=subprocess.PIPE, stderr=subprocess.STDOUT, timeout=120)
            rc, out = p.returncode, p.stdout.decode('utf-8', 'replace')
        except subprocess.TimeoutExpired:
            return {'timeout': True}
        got = self.digests([e.idx])
        diff = sorted(o for o, d in got.items() if d != self.ref_digest.get(o))
        return {'rc': rc, 'out': out[-1500:], 'diff': diff, 'command': cmd, 'timeout': False}


_MISSING = [re.compile(r"fatal error: ([^\s:]+): No such file or directory"),
            re.compile(r"No such file or directory: '([^']+)'"),
            re.compile(r"([^\s:'\"]+): No such file or directory"),
            re.compile(r"/bin/sh: \d+: ([^\s:]+): (?:not found|Text file busy|Permission denied|Exec format error)"),
            re.compile(r"error while loading shared libraries: ([^\s:]+):"),
            re.compile(r"cannot find ([^\s:]+)"),
            re.compile(r"cannot open ([^\s:]+)"),
            # a file read while its producer is still writing it (the producer is not an ancestor either)
            re.compile(r"([^\s:]+): (?:file not recognized|file truncated|error adding symbols|malformed archive|file format not recognized)"),
            re.compile(r"(?:not found|No such file)[^\n]*?([\w./+-]+\.(?:so[\w.]*|h|a|o|c|txt|map))")]


def missing_from_output(b: Built, e: mn.Edge, text: str) -> T.Tuple[T.Optional[mn.Edge], str]:
    """Best-effort: name a file mentioned as missing in a failing command's output that a non-ancestor edge produces."""
    anc = b.m.ancestors(e)
    text = re.sub(r'\x1b\[[0-9;]*[A-Za-z]', '', text)
    names: T.List[str] = []
    for rx in _MISSING:
        names += rx.findall(text)
    bybase: T.Dict[str, T.List[str]] = {}
    for o in b.m.producer:
        bybase.setdefault(os.path.basename(o), []).append(o)
    for nme in names:
        bn = os.path.basename(nme)
        hits = bybase.get(bn, [])
        if not hits and '.so' in bn:
            hits = [o for k, v in bybase.items() if k.startswith(bn) for o in v]   # soname -> versioned file
        for o in hits:
            p = b.m.producer[o]
            if p.idx != e.idx and p.idx not in anc and not p.is_phony:
                return p, o
    return None, (names[0] if names else '')


MECH_RPATH = 'step-fails-in-every-order:build-rpath-misses-shared-lib-behind-link_whole'
_LOADERR = re.compile(r'error while loading shared libraries: ([^\s:]+):')
_LDWARN = re.compile(r'warning: ([^\s,]+), needed by [^\s,]+, not found')
_ANSI = re.compile(r'\x1b\[[0-9;]*[A-Za-z]')


def _rpath_dirs(e: mn.Edge) -> T.Set[str]:
    """Build-dir relative directories named by the $ORIGIN rpath entries of a link edge."""
    dirs: T.Set[str] = set()
    here = os.path.dirname(e.outputs[0]) if e.outputs else ''
    for m in re.finditer(r"-rpath,([^'\s]+)", e.get('LINK_ARGS')):
        for part in m.group(1).split(':'):
            if part.startswith('$ORIGIN'):
                dirs.add(os.path.normpath(os.path.join(here, part[len('$ORIGIN'):].lstrip('/'))))
    return dirs


def classify_failure(b: Built, fe: T.Optional[mn.Edge], text: str) -> T.Tuple[str, T.Optional[mn.Edge], str]:
    """Mechanism of a failing build step under some schedule: (mechanism, producer of the missing file, missing file)."""
    if fe is None:
        return 'schedule-fails:unknown', None, ''
    p, o = missing_from_output(b, fe, text)
    if p is None:
        clean = _ANSI.sub('', text)
        lm = _LOADERR.search(clean) or _LDWARN.search(clean)
        if lm:
            # a built shared library is not found (by the loader when the step runs a built program, or by ld when
            # it resolves the dependencies of a library it links) although the library's producer IS an ancestor:
            # not an ordering problem - the step fails in every order.
            so = lm.group(1)
            anc = b.m.ancestors(fe)
            prods = [(k, v) for k, v in b.m.producer.items()
                     if os.path.basename(k).startswith(so) and v.idx in anc and rule_class(v) == 'link']
            if prods:
                lib, lp = prods[0]
                libdir = os.path.normpath(os.path.dirname(lib) or '.')
                behind = False
                for e2 in b.m.edges:
                    # a dependent ELF that whole-links an archive, links the shared library, and whose build rpath
                    # does not name the library's directory
                    if e2.is_phony or not rule_class(e2) == 'link':
                        continue
                    la = e2.get('LINK_ARGS')
                    if '--whole-archive' in la and lib in la.split() and libdir not in _rpath_dirs(e2):
                        behind = True
                if behind:
                    return MECH_RPATH, lp, lib
                return 'step-fails-in-every-order:built-shared-lib-not-found', lp, lib
    return 'schedule-fails:' + mechanism_for(fe, p, o), p, o


# ------------------------------------------------------------------------------------------------
# one project = one worker task
# ------------------------------------------------------------------------------------------------
def edge_brief(e: mn.Edge) -> dict:
    return {'idx': e.idx, 'rule': e.rule.name, 'outputs': e.all_outputs[:4], 'inputs': e.inputs[:6],
            'implicit': e.implicit[:8], 'order_only': e.order_only[:8]}


def run_project(task: dict) -> dict:
    """Worker: returns plain data only (counters, features, violations, notes)."""
    proj = task['proj']
    res: dict = {'index': proj.get('index'), 'key': proj['key'], 'features': proj['features'], 'blocks': proj['blocks'],
                 'counts': {}, 'violations': [], 'status': 'ok', 'notes': [], 'cells': {}, 'cfg': {},
                 'benign': [], 'negdeps': [], 'byproducts': []}
    cnt = res['counts']

    def bump(k: str, n: int = 1) -> None:
        cnt[k] = cnt.get(k, 0) + n

    def violation(mech: str, w: dict) -> None:
        w = dict(w)
        w['project'] = {'files': proj['files'], 'setup_args': proj['setup_args'], 'exes': proj['exes'],
                        'features': proj['features'], 'blocks': proj['blocks'], 'seed': proj.get('seed'),
                        'index': proj.get('index'), 'key': proj['key']}
        res['violations'].append((mech, w))

    if time.time() > task['deadline']:
        res['status'] = 'skipped-time'
        return res
    root = os.path.join(task['scratch'], f"p{task['slot']}")
    shutil.rmtree(root, ignore_errors=True)
    os.makedirs(root)
    b = Built(root, proj)
    try:
        r = b.setup()
        res['cfg'] = b.cfg_counts
        if r.timed_out:
            res['status'] = 'setup-timeout'
            return res
        if r.rc != 0:
            res['status'] = 'setup-failed'
            res['notes'].append((r.out[-800:] + r.err[-400:]))
            return res
        if b.m.find_cycle():
            res['status'] = 'cycle'
            return res
        bump('edges_total', sum(1 for e in b.m.edges if not e.is_phony))

        # ---- reference build (traced) -------------------------------------------------------
        try:
            rc, out, ex = b.reference_build(jobs=task['ref_jobs'])
        except mn.BuildFailure as bf:
            # an input that no statement produces and that does not exist: the graph is not even closed
            violation('schedule-fails:missing-input-without-rule',
                      {'layer': 'reference-build', 'schedule': {'policy': 'decl', 'jobs': task['ref_jobs']},
                       'output': str(bf)[:600]})
            res['status'] = 'reference-build-failed'
            return res
        if rc != 0:
            fe = b.m.edges[ex.failed[0]] if ex.failed else None
            mech, p, o = classify_failure(b, fe, out)
            violation(mech, {'layer': 'reference-build', 'schedule': {'policy': 'decl', 'jobs': task['ref_jobs']},
                             'failed_edge': edge_brief(fe) if fe else None,
                             'missing': o, 'producer': edge_brief(p) if p else None, 'output': out[-1500:]})
            res['status'] = 'reference-build-failed'
            return res
        bump('projects_built')
        bump('edges_executed', len(b.executed))
        if any(v[0] == -999 for v in b.ref_behaviour.values()):
            res['status'] = 'reference-exe-did-not-run'
            return res
        exp_bad = [(x['name'], b.ref_behaviour.get(x['name']), x['stdout']) for x in proj['exes']
                   if b.ref_behaviour.get(x['name']) != (0, x['stdout'])]
        loaderr = [t for t in exp_bad if t[1] is not None and t[1][0] == 127 and _LOADERR.search(t[1][1])]
        if loaderr:
            # the build succeeded; the produced executable cannot be run from the build dir (run-time search path,
            # not ordering): outside C05's statement, kept as an incidental observation
            bump('incidental_exe_cannot_load_shared_lib', len(loaderr))
            res['notes'].append('incidental (not C05): built executable cannot load a built shared library: '
                                + repr(loaderr)[:300])
            exp_bad = [t for t in exp_bad if t not in loaderr]
        bump('exe_outputs_checked_vs_generator', len(proj['exes']))
        if exp_bad:
            bump('exe_outputs_mismatch_vs_generator', len(exp_bad))
            res['notes'].append('expected-stdout mismatch: ' + repr(exp_bad)[:400])

        # ---- layer 1: race detector --------------------------------------------------------
        executed = set(b.executed)
        cands: T.Dict[int, T.List[T.Tuple[str, int, str]]] = {}
        wrote: T.Dict[int, T.Set[str]] = {}     # edge -> build-dir files it wrote (successful, not directory ops)
        readf: T.Dict[int, T.Set[str]] = {}     # edge -> build-dir files it opened for reading / executed
        ancs: T.Dict[int, T.Set[int]] = {}
        for i in b.executed:
            e = b.m.edges[i]
            evs, st = parse_strace(os.path.join(b.trace, f'{i}.strace'), b.bdir)
            wrote[i] = set()
            readf[i] = set()
            for ev in evs:
                if not ev.ok or ev.call in ('mkdir', 'mkdirat', 'rmdir'):
                    continue
                rp = b.rel(ev.path)
                if rp is None:
                    continue
                if ev.kind == 'write':
                    wrote[i].add(rp)
                elif ev.kind in ('read', 'exec'):
                    readf[i].add(rp)
            bump('strace_lines', st['lines'])
            bump('strace_unparsed', st['unparsed'])
            bump('edges_traced')
            if st['calls'] == 0:
                bump('edges_with_empty_trace')
            anc = b.m.ancestors(e)
            ancs[i] = anc
            seen: T.Set[T.Tuple[str, str, bool]] = set()
            for ev in evs:
                if ev.kind == 'write':
                    continue
                key = (ev.kind, ev.path, ev.ok)
                if key in seen:
                    continue
                seen.add(key)
                p = b.producer_of(ev.path)
                if p is None or p.idx == i or p.is_phony or p.idx not in executed:
                    continue
                o = b.rel(ev.path) or ev.path
                if ev.ok:
                    bump('race_reads_checked')
                    bump('race_reads_checked:' + ev.kind)
                    if p.idx in anc:
                        bump('race_reads_ordered')
                    else:
                        bump('race_candidates')
                        cands.setdefault(i, []).append((o, p.idx, ev.kind))
                elif ev.err == 'ENOENT' and p.idx not in anc:
                    bump('negative_dependency_notes')
                    if len(res['negdeps']) < 3:
                        res['negdeps'].append({'edge': e.all_outputs[:1], 'probed': o, 'producer': p.all_outputs[:1]})

        # ---- layer 1b: undeclared byproducts shared by unordered steps -------------------------
        # A build-dir file written by edge w that no statement declares (not an output of any edge, not w's depfile
        # or response file, not meson's own bookkeeping dirs) is an undeclared byproduct.  If another edge j wrote or
        # read the same path and neither is an ancestor of the other, the two steps communicate through a file the
        # graph does not know: a write-write / write-read race that some parallel schedule can interleave.
        byprod: T.Dict[str, T.Set[int]] = {}
        for i in b.executed:
            e = b.m.edges[i]
            own = set(e.all_outputs)
            for key in ('depfile', 'rspfile'):
                v = e.get(key)
                if v:
                    own.add(mn.canon(v))
            for f in wrote[i]:
                if f in own:
                    continue
                bump('writes_outside_declared_outputs')
                if f.startswith(('meson-logs/', 'meson-private/', 'meson-info/')):
                    bump('writes_to_meson_bookkeeping')
                    continue
                pf = b.m.producer.get(f)
                if pf is not None:
                    if not pf.is_phony and pf.idx != i:
                        bump('writes_to_another_edge_output')
                    continue
                byprod.setdefault(f, set()).add(i)
        bump('undeclared_byproducts', len(byprod))
        for f in sorted(byprod)[:3]:
            res['byproducts'].append({'file': f, 'written_by': [rule_class(b.m.edges[w]) for w in sorted(byprod[f])]})
        reported: T.Set[T.Tuple[int, int, str]] = set()
        for f, writers in sorted(byprod.items()):
            for w in sorted(writers):
                for j in b.executed:
                    if j == w or (f not in wrote[j] and f not in readf[j]):
                        continue
                    bump('byproduct_sharings_checked')
                    if j in ancs[w] or w in ancs[j]:
                        bump('byproduct_sharings_ordered')
                        continue
                    pair = (min(w, j), max(w, j), f)
                    if pair in reported:
                        continue
                    reported.add(pair)
                    ew, ej = b.m.edges[w], b.m.edges[j]
                    how = 'write-write' if f in wrote[j] else 'write-read'
                    violation(f'undeclared-shared-byproduct:{how}:{rule_class(ew)}-and-{rule_class(ej)}',
                              {'layer': 'race-detector-byproducts', 'file': f, 'how': how,
                               'edge_a': edge_brief(ew), 'edge_b': edge_brief(ej),
                               'command_a': ew.get('command')[:400], 'command_b': ej.get('command')[:400],
                               'note': 'neither step is a declared ancestor of the other; the file is declared by no build statement'})

        # ---- layer 2: hermetic replay ------------------------------------------------------
        real = [i for i in b.executed]
        if task['hermetic_all']:
            todo = list(real)
        else:
            rng = task_rng(task, 'herm')
            interesting = [i for i in real if i not in cands and b.m.ancestors(b.m.edges[i])]
            rng.shuffle(interesting)
            todo = sorted(cands) + interesting[:task['hermetic_sample']]
        for i in todo:
            if time.time() > task['deadline']:
                bump('hermetic_skipped_time')
                continue
            e = b.m.edges[i]
            h = b.hermetic(e)
            if h.get('timeout'):
                bump('hermetic_timeout')
                continue
            bump('hermetic_replays')
            bump('hermetic_replays:' + rule_class(e))
            bad = h['rc'] != 0 or h['diff']
            if not bad:
                bump('hermetic_identical')
                if i in cands:
                    bump('candidates_benign', len(cands[i]))
                    if len(res['benign']) < 4:
                        res['benign'].append({'edge': e.all_outputs[:1], 'reads': [c[0] for c in cands[i]][:4]})
                continue
            if i in cands:
                o, pidx, kind = cands[i][0]
                p: T.Optional[mn.Edge] = b.m.edges[pidx]
                # prefer the file the failing command names, if it is among the candidates
                pp, oo = missing_from_output(b, e, h['out'])
                if pp is not None and any(c[0] == oo for c in cands[i]):
                    p, o = pp, oo
            else:
                p, o = missing_from_output(b, e, h['out'])
            violation(mechanism_for(e, p, o),
                      {'layer': 'hermetic-replay', 'edge': edge_brief(e), 'needs': o,
                       'produced_by': edge_brief(p) if p else None,
                       'undeclared_reads': [{'file': c[0], 'producer': b.m.edges[c[1]].all_outputs[:1], 'how': c[2]}
                                            for c in cands.get(i, [])][:8],
                       'rc': h['rc'], 'outputs_differing': h['diff'], 'command': h['command'][:600],
                       'output': h['out'][-1200:]})
        for i in cands:
            if i not in todo:
                bump('candidates_unreplayed', len(cands[i]))

        # ---- layer 3: adversarial schedules ------------------------------------------------
        sched_list = task['schedules']
        if time.time() > task.get('soft_deadline', task['deadline']):
            # the run is behind its time budget (loaded machine / few workers): layers 1-2 stay complete, layer 3 is
            # thinned to its first two schedules for the remaining projects (counted, never silently)
            bump('schedules_thinned_for_time', max(0, len(sched_list) - 2))
            sched_list = sched_list[:2]
        for si, (policy, jobs, sseed) in enumerate(sched_list):
            if time.time() > task['deadline']:
                bump('schedules_skipped_time')
                continue
            b.reset()
            sout = io.StringIO()
            sx = mn.Executor(b.m, b.bdir, jobs=jobs, policy=policy, seed=sseed, incremental=False, env=b.env, out=sout)
            try:
                src = sx.run()
            except mn.BuildFailure as bf:
                src = 1
                sout.write(f'BuildFailure: {bf}\n')
            bump('schedules_run')
            cell = f'{policy}/j{jobs}'
            res['cells'][cell] = res['cells'].get(cell, 0) + 1
            sched = {'policy': policy, 'jobs': jobs, 'seed': sseed, 'order': [b.m.edges[i].all_outputs[0] for i in sx.order][:80]}
            if src != 0:
                fe = b.m.edges[sx.failed[0]] if sx.failed else None
                text = sout.getvalue()
                mech, p, o = classify_failure(b, fe, text)
                violation(mech, {'layer': 'schedule', 'schedule': sched, 'failed_edge': edge_brief(fe) if fe else None,
                                 'missing': o, 'producer': edge_brief(p) if p else None, 'output': text[-1500:]})
                continue
            if sorted(sx.order) != sorted(b.executed):
                bump('schedule_edge_set_differs')
            got = b.digests(b.executed)
            diff = sorted(o for o in got if got[o] != b.ref_digest.get(o))
            beh = b.behaviours()
            bump('artifacts_compared', len(got))
            bump('behaviours_compared', len(beh))
            if any(v[0] == -999 for v in beh.values()):
                bump('inconclusive:executable-did-not-run')   # watchdog / OS error of the harness, not a verdict
                continue
            if beh != b.ref_behaviour:
                bad_x = sorted(k for k in beh if beh[k] != b.ref_behaviour.get(k))
                violation('schedule-changes-artifact:executable-behaviour',
                          {'layer': 'schedule', 'schedule': sched, 'executables': bad_x,
                           'got': {k: beh[k] for k in bad_x}, 'reference': {k: b.ref_behaviour.get(k) for k in bad_x},
                           'outputs_differing': diff[:20]})
                continue
            if diff:
                nonbin = [o for o in diff if not is_binary_artifact(os.path.join(b.bdir, o))
                          or not is_binary_artifact(os.path.join(b.ref, o))]
                if nonbin:
                    violation('schedule-changes-artifact:' + file_class(nonbin[0]),
                              {'layer': 'schedule', 'schedule': sched, 'outputs_differing': diff[:20]})
                else:
                    bump('inconclusive:binary-bytes-differ')
                    res['notes'].append(f'binary bytes differ, behaviour same: {diff[:5]} under {policy}/j{jobs}')
                continue
            bump('schedules_ok')
        return res
    except Exception as exc:   # harness trouble is never a verdict about meson
        import traceback
        res['status'] = 'harness-error'
        res['notes'].append(traceback.format_exc()[-1500:])
        return res
    finally:
        shutil.rmtree(root, ignore_errors=True)


def task_rng(task: dict, salt: str) -> 'random.Random':
    import random
    return random.Random(f"{task['seed']}:{task['slot']}:{salt}")


def make_schedules(seed: T.Any, slot: int, n: int) -> T.List[T.Tuple[str, int, int]]:
    """n (policy, jobs, seed) triples; the 12 policy x jobs cells are walked round-robin from a per-project offset
    so that a run with >= 2 projects covers all cells; the adversarial -j1 cells come first."""
    import random
    rng = random.Random(f'c05sched:{seed}:{slot}')
    cells = [(p, j) for j in JOBS for p in POLICIES]
    off = (slot * 5) % len(cells)
    out = []
    for k in range(n):
        p, j = cells[(off + k * 7) % len(cells)]
        out.append((p, j, rng.randrange(1 << 30)))
    return out


# ------------------------------------------------------------------------------------------------
# directed projects (always part of the quick tier): one per mechanism of the property's anchors
# ------------------------------------------------------------------------------------------------
DIRECTED: T.List[T.Tuple[T.List[str], T.Dict[str, T.Any]]] = [
    # generated header (custom_target) shared by several targets + generator() header reached through link recursion
    (['ct_header', 'generator'], {'ct_header.variant': 'plain', 'ct_header.second': True, 'generator.rely': True,
                                  'generator.libkind': 'static_library', 'generator.depends': 'none', 'unity': False}),
    # generator(depends:) ; recursion through a shared library
    (['generator', 'libs'], {'generator.rely': True, 'generator.libkind': 'shared_library',
                             'generator.depends': 'generator', 'unity': False}),
    # custom-target chain through depends: + executable run at build time
    (['ct_chain', 'exe_capture'], {'ct_chain.how': 'depends', 'unity': False}),
    # chain through a target object in the command line + code generator built by the project
    (['ct_chain', 'built_tool'], {'ct_chain.how': 'command-target', 'ct_chain.multi': True, 'built_tool.ct': True,
                                  'built_tool.generator': True, 'built_tool.override': False}),
    # link_depends on a generated version script + custom-target archive linked with link_with
    (['link_depends', 'ct_object'], {'ct_object.how': 'archive-in-sources'}),
    # generated source including a generated header, unity build with generated sources
    (['gensrc_inc', 'generator'], {'gensrc_inc.generator': False, 'generator.source': True, 'unity': True,
                                   'generator.depends': 'none'}),
    (['preprocess', 'pch', 'configure_mix'], {'unity': False, 'preprocess.suffix': 'h'}),
    # included generated files that are neither header nor source by suffix (.inc / .tbl): preprocess(depends:),
    # custom_target in sources, end of a custom-target chain
    (['preprocess', 'ct_header'], {'preprocess.suffix': 'inc', 'ct_header.variant': 'plain', 'ct_header.suffix': 'tbl',
                                   'unity': False}),
    (['ct_chain', 'preprocess'], {'ct_chain.suffix': 'inc', 'preprocess.suffix': 'tbl', 'unity': False}),
    # chain of static libraries: the executable's link needs the transitive archives
    (['libs'], {'libs.kind': 'static_library', 'libs.how': 'link_with', 'default_library': 'static'}),
    # the code generator is found through meson.override_find_program() (LocalProgram)
    (['built_tool', 'ct_header'], {'built_tool.override': True, 'built_tool.generator': True, 'built_tool.ct': True,
                                   'ct_header.variant': 'capture'}),
    # generated headers nested in an umbrella dependency, consumed through partial_dependency(sources: true)
    (['ct_chain', 'ct_header'], {'app.partial': True, 'ct_header.variant': 'plain', 'unity': False}),
    # equally named outputs in two directories, both needed by one step (depends: / targets in the command)
    (['same_name'], {'same_name.how': 'depends'}),
    (['same_name', 'generator'], {'same_name.how': 'command', 'generator.depends': 'none'}),
    # link_whole: of a static library into a shared library and into an executable
    (['libs'], {'libs.kind.0': 'static_library', 'libs.kind.1': 'shared_library', 'libs.kind.2': 'static_library',
                'libs.kind.3': 'static_library', 'libs.how': 'link_whole', 'libs.exe_whole': True}),
    # shared library including a generated .inc from a two-output generator (.inc + .c)
    (['generator'], {'generator.two': True, 'generator.two_suffix': 'inc', 'generator.libkind': 'shared_library',
                     'generator.depends': 'none', 'generator.rely': False, 'unity': False}),
    # two captured outputs with the same stem in one directory
    (['ct_header'], {'ct_header.variant': 'capture-pair'}),
    # generator whose program is built by the project AND that is run with process(depends:) / generator(depends:)
    (['built_tool'], {'built_tool.generator': True, 'built_tool.gen_depends': 'process', 'built_tool.override': False}),
    (['built_tool', 'ct_chain'], {'built_tool.generator': True, 'built_tool.gen_depends': 'generator', 'built_tool.override': True}),
    # depends: naming an INDEXED custom target (ct[0]) of a two-output step
    (['ct_chain'], {'ct_chain.how': 'depends', 'ct_chain.multi': True, 'ct_chain.depends_index': True, 'unity': False}),
    # generator.process(preserve_path_from:) with inputs in sub-directories
    (['generator'], {'generator.preserve': True, 'generator.depends': 'none', 'generator.rely': True,
                     'generator.libkind': 'static_library'}),
    (['subproject', 'genlist_chain'], {'genlist_chain.ct': True, 'genlist_chain.nested': True}),
    # precompiled headers whose header #includes GENERATED files of every producer kind (custom target in sources,
    # generator() output, custom target through declare_dependency(sources:), indexed output) and of header as well
    # as non-header suffixes (.inc / .def / .tbl): the precompile step needs its own order-only edges
    (['pch'], {'pch.lang': 'c', 'pch.n': 3, 'pch.inc.0': 'ct', 'pch.sfx.0': 'inc', 'pch.inc.1': 'gen', 'pch.sfx.1': 'tbl',
               'pch.inc.2': 'dep', 'pch.sfx.2': 'def', 'unity': False}),
    (['pch', 'pch'], {'b0:pch.lang': 'cpp', 'b1:pch.lang': 'c', 'pch.n': 2, 'pch.inc.0': 'gen', 'pch.sfx.0': 'h',
                      'pch.inc.1': 'ct-index', 'pch.sfx.1': 'inc', 'unity': False}),
    # link_depends: of every kind: generated / indexed / source-tree version script and LIBRARY targets that the link
    # line reaches only through link_args (--whole-archive <path>, bare archive path, shared library by path), for
    # the link step of a shared library and of an executable
    (['link_depends'], {'link_depends.map': 'index', 'link_depends.helper': 'whole-archive', 'link_depends.exe': True,
                        'link_depends.exe_helper': 'whole-archive'}),
    (['link_depends', 'link_depends'], {'b0:link_depends.map': 'file', 'b1:link_depends.map': 'str',
                                        'b0:link_depends.helper': 'archive', 'b1:link_depends.helper': 'shared',
                                        'link_depends.exe': True, 'b0:link_depends.exe_helper': 'shared',
                                        'b1:link_depends.exe_helper': 'archive'}),
    (['generator', 'ct_object', 'ct_header'], {'generator.depends': 'process', 'ct_object.how': 'archive',
                                               'ct_header.variant': 'index'}),
    # bootstrap layout: a checked-in stub header of the SOURCE tree and a generated header with the same relative
    # path; the stub is a listed source of the earlier bootstrap tool, the generated twin travels through
    # declare_dependency(sources:) - the consumers' edges must name the generated file (a consumer compiled too early
    # silently gets the stub: only running the program tells)
    (['bootstrap'], {'bootstrap.stub_in': 'tool-sources', 'bootstrap.via': 'dep-sources', 'bootstrap.native': True,
                     'bootstrap.by_default': True, 'subdir': True}),
    # depends: holding a PROGRAM object (find_program() of an executable published with override_find_program) whose
    # path reaches the command line only as a string (prog.full_path() handed to a wrapper script)
    # (+ a generated source including a custom-target header, non-unity: the compile of a GENERATED source needs the
    # order-only edges as well - so far only reached by seeded random projects, which run last)
    (['built_tool', 'gensrc_inc'], {'built_tool.override': True, 'built_tool.ct': True, 'built_tool.ct_how': 'depends-path',
                                    'built_tool.generator': False, 'built_tool.depends_external': False,
                                    'gensrc_inc.generator': False, 'unity': False}),
    # both again in other variants: stub named in depend_files / twin directly in sources; depends: holding the
    # executable itself next to an external program
    (['bootstrap', 'built_tool'], {'bootstrap.stub_in': 'depend_files', 'bootstrap.via': 'direct', 'bootstrap.native': False, 'bootstrap.by_default': True,
                                   'built_tool.override': False, 'built_tool.ct': True, 'built_tool.ct_how': 'depends-path',
                                   'built_tool.depends_external': True}),
]


NEWEST_DIRECTED = 3   # trailing entries of DIRECTED that are scheduled first


def probe_rpath_project() -> dict:
    """Directed probe of the known finding MECH_RPATH: a program run at build time links a shared library that
    whole-links a static library that links another shared library.  Correct behaviour: the build succeeds and
    `pr` prints `pr 3`."""
    files = {
        'meson.build': ("project('c05probe', 'c')\n"
                        "l0 = shared_library('l0', 'l0.c')\n"
                        "l1 = static_library('l1', 'l1.c', link_with: l0)\n"
                        "l2 = shared_library('l2', 'l2.c', link_whole: l1)\n"
                        "pr = executable('pr', 'pr.c', link_with: l2)\n"
                        "out = custom_target('out', output: 'out.txt', command: [pr], capture: true, build_by_default: true)\n"),
        'l0.c': 'int f0(void) { return 1; }\n',
        'l1.c': 'int f0(void);\nint f1(void) { return f0() + 1; }\n',
        'l2.c': 'int f1(void);\nint f2(void) { return f1() + 1; }\n',
        'pr.c': '#include <stdio.h>\nint f2(void);\nint main(void) { printf("pr %d\\n", f2()); return 0; }\n',
    }
    return {'files': files, 'setup_args': [], 'features': ['probe:shared-lib-behind-link_whole-run-at-build-time'],
            'exes': [{'name': 'pr', 'path': 'pr', 'stdout': 'pr 3\n'}], 'blocks': ['probe-rpath'], 'ntargets': 5,
            'seed': 'probe', 'index': -1, 'key': 'probe:rpath-link_whole'}


def build_tasks(chk: common.Check, scratch: str, projects: T.List[dict], nsched: int, hermetic_all: bool,
                deadline: float) -> T.List[dict]:
    tasks = []
    for slot, proj in enumerate(projects):
        tasks.append({'proj': proj, 'slot': slot, 'scratch': scratch, 'seed': chk.seed, 'deadline': deadline,
                      'ref_jobs': 4, 'hermetic_all': hermetic_all, 'hermetic_sample': 4 if chk.tier == 'quick' else 6,
                      'soft_deadline': (chk.t0 + 0.25 * (deadline - chk.t0)) if chk.tier == 'quick' else deadline,
                      'schedules': make_schedules(chk.seed, slot, nsched)})
    return tasks


def aggregate(chk: common.Check, results: T.List[dict]) -> None:
    feats: T.Dict[str, int] = {}
    cells: T.Dict[str, int] = {}
    status: T.Dict[str, int] = {}
    for r in results:
        status[r['status']] = status.get(r['status'], 0) + 1
        if r['status'] in ('ok', 'reference-build-failed'):
            chk.case(r['key'])
            for f in r['features']:
                feats[f] = feats.get(f, 0) + 1
        else:
            chk.inconclusive_case(r['status'])
        for k, v in r['counts'].items():
            chk.count(('' if k.startswith('inconclusive:') else 'monitor:') + k, v)
        for k, v in r['cfg'].items():
            chk.count('cfg:' + k, v)
        for k, v in r['cells'].items():
            cells[k] = cells.get(k, 0) + v
        for mech, w in r['violations']:
            chk.violation(mech, w)
        if r['status'] == 'ok':
            chk.sample({'blocks': r['blocks'], 'features': r['features'][:12], 'edges': r['counts'].get('edges_executed'),
                        'race_reads_checked': r['counts'].get('race_reads_checked'),
                        'schedules_ok': r['counts'].get('schedules_ok')})
        for nte in r['notes'][:2]:
            chk.notes.setdefault('notes', [])
            if len(chk.notes['notes']) < 12:
                chk.notes['notes'].append({'project': r['index'], 'status': r['status'], 'note': nte[:600]})
        for bn in r['benign']:
            chk.notes.setdefault('benign_candidates', [])
            if len(chk.notes['benign_candidates']) < 8:
                chk.notes['benign_candidates'].append(bn)
        for bp in r.get('byproducts', []):
            chk.notes.setdefault('undeclared_byproducts_unshared', [])
            if len(chk.notes['undeclared_byproducts_unshared']) < 10:
                chk.notes['undeclared_byproducts_unshared'].append(bp)
        for nd in r['negdeps']:
            chk.notes.setdefault('negative_dependency', [])
            if len(chk.notes['negative_dependency']) < 6:
                chk.notes['negative_dependency'].append(nd)
    chk.notes['feature_coverage'] = dict(sorted(feats.items()))
    chk.notes['schedule_cells'] = dict(sorted(cells.items()))
    chk.notes['project_status'] = status


ASSUMPTIONS = [
    'a step result is a function of the files it reads and its command line (gcc/ar/ld/python tools are deterministic)',
    'clean builds only: depfile-driven incremental rebuilds are out of scope of the statement',
    'mini-ninja (trusted base) evaluates commands and declared edges as ninja does; strace sees every file access',
    'generated projects follow the documented rule: a target lists every generated header it includes in sources or '
    'through declare_dependency(sources:); one flagged extension relies on get_generated_headers() recursion over '
    'link_with libraries for generator() headers (feature rely-link-recursion)',
    'artifact equivalence: byte identity of every declared output; ELF/ar-only byte differences with identical '
    'behaviour of all executables are counted inconclusive, not violations',
]

RULE = ('projects are composed from 16 mechanism blocks by gen_c05 (seeded); a case is one project taken through '
        'traced build + race analysis + hermetic replays + adversarial schedules; distinct = distinct feature set '
        '(sorted feature names of the blocks/variants used)')


def replay(chk: common.Check, path: str) -> int:
    with open(path, encoding='utf-8') as f:
        w = json.load(f)
    proj = w.get('project')
    if not proj:
        print('replay: witness has no project')
        return 3
    runner.preload()
    scratch = os.path.realpath(common.scratch_dir('c05r'))
    proj.setdefault('key', 'replay')
    task = build_tasks(chk, scratch, [proj], 12, True, time.time() + 900)[0]
    if w.get('schedule') and w['schedule'].get('policy') in POLICIES:
        s = w['schedule']
        task['schedules'] = [(s['policy'], s['jobs'], s.get('seed', 0))] + task['schedules']
    r = run_project(task)
    mechs = sorted({m for m, _ in r['violations']})
    print(f"replay: status={r['status']} violations={len(r['violations'])} mechanisms={mechs}")
    if w.get('mechanism') in mechs:
        print('replay: the recorded mechanism is reproduced -> still failing')
        return 1
    if r['violations']:
        print('replay: fails, with a different mechanism than recorded')
        return 1
    print('replay: no violation reproduced')
    return 0


def main() -> int:
    chk = common.Check('C05')
    if os.environ.get('VERIF_REPLAY'):
        return replay(chk, os.environ['VERIF_REPLAY'])
    runner.preload()
    scratch = os.path.realpath(common.scratch_dir('c05'))
    st_problems = parser_selftest(scratch)
    chk.count('monitor:strace_parser_selftest_events', 14)
    if st_problems:
        chk.inconclusive.append('strace parser self-test failed: ' + '; '.join(st_problems)[:400])
    quick = chk.tier == 'quick'
    nproj = len(DIRECTED) + 1 + 8 if quick else 300
    nsched = 5 if quick else 20
    budget = float(os.environ.get('VERIF_C05_BUDGET', '0')) or (150.0 if quick else 1080.0)
    deadline = chk.t0 + budget
    projects: T.List[dict] = []
    for k, (blocks, force) in enumerate(DIRECTED if quick else DIRECTED * 3):
        projects.append(gen_c05.generate(f'{chk.seed}:directed', k, blocks, force))
    projects.append(probe_rpath_project())
    i = 0
    while len(projects) < nproj:
        projects.append(gen_c05.generate(chk.seed, i))
        i += 1
    tasks = build_tasks(chk, scratch, projects, nsched, hermetic_all=not quick, deadline=deadline)
    # under load the schedule layer of late projects is thinned (soft deadline): the directed projects of the most
    # recently added input classes run first (slots, hence project contents and schedules, are unchanged)
    nd = len(DIRECTED)
    tasks = tasks[nd - NEWEST_DIRECTED:nd] + tasks[:nd - NEWEST_DIRECTED] + tasks[nd:]
    results = common.pmap(run_project, tasks, chk.jobs, timeout=budget + 600)
    aggregate(chk, results)
    built = chk.counters.get('monitor:projects_built', 0)
    decided = built + sum(1 for r in results if r['status'] == 'reference-build-failed')
    chk.count('monitor:projects_decided', decided)
    # a slow or loaded machine decides fewer projects inside the time budget: that is less exploration, not an inconclusive
    # run, as long as every directed project (they run first) was decided
    chk.count('monitor:projects_not_decided_time_budget', max(0, nproj - decided))
    chk.require('monitor:projects_decided', max(1, min(int(0.8 * nproj), len(DIRECTED))))
    chk.require('monitor:race_reads_checked', 20 * max(1, built) // 2)
    chk.require('monitor:hermetic_replays', max(1, built))
    thinned = chk.counters.get('monitor:schedules_thinned_for_time', 0)
    chk.require('monitor:schedules_run', max(1, (built * nsched - thinned) * 8 // 10))
    chk.require('cfg:single_compile', built)
    chk.require('cfg:custom_target', 1)
    chk.require('cfg:link', built)
    chk.require('cfg:genlist', 1)
    chk.require('cfg:pch', 1)
    chk.require('cfg:link:with_link_depends', 1)
    if chk.counters.get('monitor:exe_outputs_mismatch_vs_generator', 0):
        chk.inconclusive.append('an executable of a reference build does not print the value the generator computed '
                                '(generator or build wrong - see notes)')
    if chk.counters.get('monitor:strace_unparsed', 0) > 0.01 * max(1, chk.counters.get('monitor:strace_lines', 0)):
        chk.inconclusive.append('more than 1% of strace lines could not be parsed')
    return chk.finish(rule=RULE, assumptions=ASSUMPTIONS, exhaustive=False)


if __name__ == '__main__':
    sys.exit(main())
