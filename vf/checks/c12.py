"""C12 - `meson test` runs each test once, isolates serial tests and reports truthfully.

Runtime monitoring of the real mesonbuild.mtest: generated language-less projects whose tests are all the probe
tools/c12_probe.py; every `meson test --no-rebuild` invocation is one observed interleaving.  The offline checker
(vf/ref/c12_oracle.py) works on the probes' own START/END log, meson-logs/testlog.json, the printed summary, the
exit status, the in-process monitor records (vf/monitors/c12_mon.py) and the liveness of the probes' pids after
`meson test` has returned.
"""
from __future__ import annotations

import json
import os
import random
import shutil
import signal
import sys
import time
import typing as T

from vf import common, runner
from vf.gen import gen_c12 as G
from vf.ref import c12_oracle as O
from vf.monitors import c12_mon

PID = 'C12'
QUICK = {'projects': 14, 'per_project': 5, 'budget_s': 100.0}
THOROUGH = {'projects': 250, 'per_project': 6, 'budget_s': 1080.0}
# --slice sweeps (projects of profile 'slices', on top of the ones above): (number of tests, groups, sample)
#   groups: n as a number / 'all' (= number of selected tests) / 'whole' (no suite selection, all tests) / 'rand' (10..selected) / 'over' (above it)
#   sample: 0 = every i of 1..n, k = only k of them when n > k (partial group: disjointness and acceptance only)
QUICK_SWEEPS = [((12, 25), [10, 'all'], 0), ((26, 40), ['rand', 'over'], 0), ((100, 125), ['whole', 'rand'], 14)]
THOROUGH_SWEEPS = ([((10, 40), [10, 'all', 'over'], 0), ((20, 60), ['rand', 'rand', 'over'], 0),
                    ((100, 130), ['whole'], 0), ((100, 130), ['whole', 'rand', 11], 20)] * 3)


# ---- one invocation ------------------------------------------------------------------------------
def _probe_alive(pid: int, logp: str) -> bool:
    """Is `pid` still one of OUR probes (guards against pid reuse: cmdline and C12_LOG must match)?"""
    try:
        with open(f'/proc/{pid}/cmdline', 'rb') as f:
            cmd = f.read()
        if b'c12_probe.py' not in cmd:
            return False
        with open(f'/proc/{pid}/environ', 'rb') as f:
            env = f.read()
        if ('C12_LOG=' + logp).encode() not in env.split(b'\0'):
            return False
        with open(f'/proc/{pid}/stat', 'rb') as f:
            st = f.read().rsplit(b')', 1)[-1].split()
        return st[0] not in (b'Z', b'X')
    except (OSError, IndexError):
        return False


def run_invocation(proj: dict, inv: dict, src: str, bdir: str, logp: str, shake: bool, seed: int) -> dict:
    for n in ('testlog.json', 'testlog.txt', 'testlog.junit.xml'):
        try:
            os.unlink(os.path.join(bdir, 'meson-logs', n))
        except OSError:
            pass
    try:
        os.unlink(logp)
    except OSError:
        pass
    env = {'C12_LOG': logp, 'C12_SCRIPT': os.path.join(src, 'c12_script.json')}
    r = runner.meson(G.argv_for(inv, bdir), cwd=src, env=env, monitors=[c12_mon.make(shake, seed)], timeout=150)
    try:
        with open(logp, encoding='utf-8') as f:
            evs, badlines = O.parse_events(f.read())
    except OSError:
        evs, badlines = [], 0
    # pids still alive after meson test has returned (then clean them up)
    # A probe is a child of meson and has been reaped when meson returns.  A leaked helper is nobody's child: all
    # the harness can do is SIGKILL its process group, and a SIGKILLed process disappears only when the kernel next
    # schedules it - under load that can be after `meson test` has returned.  So a helper whose group WAS sent SIGKILL
    # (h_signal record, a fact) gets time to vanish; one that was never sent SIGKILL is judged at once.
    sigkilled = {x.get('pid') for x in r.records if x.get('ev') == 'h_signal' and x.get('sig') == int(signal.SIGKILL)}
    alive = []
    waited = 0
    for e in evs:
        if e.get('ev') in ('START', 'CSTART') and _probe_alive(e['pid'], logp):
            if e['ev'] == 'CSTART' and e.get('ppid') in sigkilled:
                t_end = time.time() + 20.0
                while time.time() < t_end and _probe_alive(e['pid'], logp):
                    time.sleep(0.02)
                if not _probe_alive(e['pid'], logp):
                    waited += 1
                    continue
            alive.append({'pid': e['pid'], 'id': e['id'], 'it': e['it'], 'helper': e['ev'] == 'CSTART'})
    for a in alive:
        try:
            os.kill(a['pid'], signal.SIGKILL)
        except OSError:
            pass
    testlog: T.Optional[T.List[dict]] = None
    tl = os.path.join(bdir, 'meson-logs', 'testlog.json')
    if os.path.exists(tl):
        testlog = []
        with open(tl, encoding='utf-8') as f:
            for line in f:
                if line.strip():
                    try:
                        testlog.append(json.loads(line))
                    except ValueError:
                        testlog.append({'name': '<unparsable>', 'result': '<unparsable>'})
    if r.timed_out:
        return {'watchdog': True, 'violations': [], 'inconclusive': ['watchdog'], 'counters': {}, 'order': [],
                'started': [], 'selected': [], 'max_conc': 0, 'brief': r.brief()}
    res = O.check_run(proj, inv, evs, testlog, r.out, r.rc, r.records, alive, r.traceback)
    if waited:
        res['counters']['diag:sigkilled_helper_vanished_after_meson_returned'] = waited
    if badlines:
        res['inconclusive'].append('probe-log-unparsable-line')
    res['wall'] = round(r.wall, 2)
    res['rc'] = r.rc
    res['has_testlog'] = testlog is not None
    if res['violations']:
        res['brief'] = r.brief()
        res['events'] = evs[:400]
        res['records'] = [x for x in r.records if x.get('ev') != 'h_result'][:200]
    return res


def run_project(job: dict) -> dict:
    """Worker: set up one project, run its invocations sequentially, return plain data."""
    proj, invs, root, idx = job['proj'], job['invs'], job['root'], job['idx']
    out: dict = {'idx': idx, 'profile': proj['profile'], 'runs': [], 'setup_failed': None, 'skipped': 0,
                 'shake': job['shake']}
    src = os.path.join(root, f'p{idx}')
    bdir = os.path.join(src, 'b')
    try:
        runner.write_tree(src, {'meson.build': G.meson_build(proj),
                                'c12_script.json': json.dumps(G.script_json(proj))})
        r = runner.meson(['setup', bdir], cwd=src, timeout=150)
        if r.rc != 0 or r.timed_out:
            out['setup_failed'] = r.brief()
            return out
        groups: T.Dict[str, T.List[T.Tuple[dict, T.List[str]]]] = {}
        for k, inv in enumerate(invs):
            if time.time() > job['deadline']:
                out['skipped'] += 1
                continue
            sel = O.selected(proj, inv)
            if inv['slice'] and inv['slice'][1] > len(sel) and not inv.get('oversize'):
                out['skipped'] += 1       # meson rejects more slices than tests; not part of the property
                continue                  # (sweep groups marked 'oversize' run them: one answer for all i is demanded)
            res = run_invocation(proj, inv, src, bdir, os.path.join(src, f'log{k}.jsonl'), job['shake'],
                                 job['seed'] * 1000 + k)
            res['inv'] = inv
            out['runs'].append(res)
            if inv['group'] and not res.get('watchdog'):
                refused = res.get('rc') != 0 and not res['started'] and not res.get('has_testlog')
                groups.setdefault(inv['group'], []).append((inv, [s[0] for s in res['started']], refused))
        planned: T.Dict[str, int] = {}
        for inv in invs:
            if inv['group']:
                planned[inv['group']] = planned.get(inv['group'], 0) + 1
        out['slice_groups'] = []
        for g, members in groups.items():
            n = members[0][0]['slice'][1]
            partial = bool(members[0][0].get('partial'))
            if len(members) == (planned[g] if partial else n):
                v = O.check_slice_group(proj, [m[0] for m in members], [m[1] for m in members], partial=partial,
                                        rejected=[m[2] for m in members])
                out['slice_groups'].append({'n': n, 'violations': v, 'inv': members[0][0], 'partial': partial,
                                            'oversize': n > len(O.selected(proj, members[0][0])),
                                            'refused': sum(1 for m in members if m[2]),
                                            'sizes': [len(set(m[1])) for m in members]})
            else:
                out['skipped_groups'] = out.get('skipped_groups', 0) + 1
    finally:
        shutil.rmtree(src, ignore_errors=True)
    return out


# ---- workload ------------------------------------------------------------------------------------
def directed_invocations(profile: str) -> T.List[dict]:
    """Invocations that make sure each quick run reaches every monitor / mutant-relevant pattern."""
    b = {'j': 3, 'repeat': 1, 'maxfail': 0, 'slice': None, 'suites': [], 'no_suites': [], 'tmult': None, 'group': None}
    if profile == 'classify':
        return [dict(b, j=8), dict(b, j=1), dict(b, j=3, tmult=2)]
    if profile == 'allgood':
        return [dict(b, j=2), dict(b, j=3, tmult=0)]
    if profile == 'onebad':
        return [dict(b, j=3), dict(b, j=1)]
    if profile == 'saturate':
        return [dict(b, j=2), dict(b, j=3), dict(b, j=8)]
    if profile in ('long-par-before-serial', 'stragglers', 'serial-b2b'):
        return [dict(b, j=3), dict(b, j=8)]
    if profile == 'victims':
        return [dict(b, j=3, tmult=0.3)]
    if profile == 'leaky':
        return [dict(b, j=3, tmult=0.3), dict(b, j=1)]
    if profile == 'maxfail-race':
        return [dict(b, j=8, maxfail=1)]
    if profile == 'mixed':
        return [dict(b, j=2, slice=[i, 3], group='dslice') for i in (1, 2, 3)]
    if profile == 'zeros':
        return [dict(b, j=8, repeat=2)]
    if profile == 'protocols':
        # everything (victims killed at 0.3 s); only the tests scripted good, twice (the second iteration finds the
        # reports the first one left); everything with the limits as declared
        return [dict(b, j=3, tmult=0.3), dict(b, j=8, repeat=2, suites=['good']), dict(b, j=8)]
    return []


def build_jobs(chk: common.Check, cfg: dict, root: str) -> T.List[dict]:
    jobs = []
    deadline = chk.t0 + cfg['budget_s']
    for idx in range(cfg['projects']):
        rng = random.Random(f'C12:{chk.seed}:{chk.tier}:{idx}')
        profile = G.PROFILES[idx % len(G.PROFILES)] if idx < 2 * len(G.PROFILES) else rng.choice(G.PROFILES)
        proj = G.gen_project(rng, profile, idx)
        d = directed_invocations(profile) if idx < len(G.PROFILES) + 2 else []
        d = d[:cfg['per_project']]
        invs = d + G.gen_invocations(rng, proj, max(0, cfg['per_project'] - len(d)))
        jobs.append({'proj': proj, 'invs': invs, 'root': root, 'idx': idx, 'deadline': deadline,
                     'shake': chk.tier == 'thorough' and idx % 2 == 1, 'seed': chk.seed})
    # --slice i/n for n of two and three digits (n up to, equal to and above the number of selected tests), every i
    sweeps = []
    for k, ((lo, hi), ns, sample) in enumerate(QUICK_SWEEPS if chk.tier == 'quick' else THOROUGH_SWEEPS):
        idx = cfg['projects'] + k
        rng = random.Random(f'C12:sweep:{chk.seed}:{chk.tier}:{k}')
        proj = G.gen_project(rng, G.SLICE_SWEEP_PROFILE, idx, count=rng.randint(lo, hi))
        sweeps.append({'proj': proj, 'invs': G.gen_slice_sweep(rng, proj, ns, sample), 'root': root, 'idx': idx,
                       'deadline': deadline, 'shake': False, 'seed': chk.seed})
    # the longest sweeps first, then the regular projects (workers take jobs in order)
    sweeps.sort(key=lambda j: -len(j['invs']))
    return sweeps + jobs


def aggregate(chk: common.Check, results: T.Sequence[dict]) -> dict:
    orders: T.Set[str] = set()
    profiles: T.Dict[str, int] = {}
    runs = 0
    for pr in results:
        if pr['setup_failed']:
            # `meson setup` of a language-less project failed: nothing about `meson test` was observed
            chk.inconclusive_case('setup-failed')
            chk.notes.setdefault('setup_failed', pr['setup_failed'])
            continue
        chk.count('skipped:deadline-or-slice', pr['skipped'])
        for res in pr['runs']:
            runs += 1
            inv = res['inv']
            profiles[pr['profile']] = profiles.get(pr['profile'], 0) + 1
            key = common.digest({'order': res['order'], 'inv': {k: inv[k] for k in inv if k != 'group'},
                                 'p': pr['idx']})
            chk.case(key)
            chk.count('runs')
            chk.merge_counts(res['counters'])
            for why in res['inconclusive']:
                chk.inconclusive_case(why)
            if res.get('watchdog'):
                continue
            if not res['inconclusive']:
                chk.count('runs_conclusive')
            orders.add(common.digest([pr['idx'], res['order']]))
            chk.count('cov:script_mode_' + str((pr.get('proj') or {}).get('script_mode')))
            chk.count('cov:j_%d' % inv['j'])
            chk.count('cov:repeat_%d' % inv['repeat'])
            if inv['maxfail']:
                chk.count('cov:maxfail')
            if inv['slice']:
                chk.count('cov:slice')
            if inv['suites'] or inv['no_suites']:
                chk.count('cov:suite_selection')
            if inv['tmult'] is not None:
                chk.count('cov:timeout_multiplier')
            if res is pr['runs'][0] or res['max_conc'] >= 8:
                chk.sample({'profile': pr['profile'], 'argv': G.argv_for(inv, '<b>')[2:], 'start_order': res['order'][:24],
                            'max_concurrency': res['max_conc'], 'wall_s': res.get('wall')})
            for mech, det in res['violations']:
                chk.violation(mech, {'detail': det, 'project': pr['proj'] if 'proj' in pr else None,
                                     'inv': inv, 'idx': pr['idx'], 'shake': pr.get('shake'), 'brief': res.get('brief'),
                                     'events': res.get('events'), 'records': res.get('records')})
        chk.count('skipped:slice_group_incomplete_deadline', pr.get('skipped_groups', 0))
        for g in pr.get('slice_groups', []):
            if g.get('oversize'):
                chk.count('monitor:slice_oversized_n_one_answer')
                chk.count('cov:slice_oversized_n_' + ('refused_for_all_i' if g['refused'] == len(g['sizes'])
                                                      else 'accepted_for_all_i' if not g['refused'] else 'mixed'))
            elif g.get('partial'):
                chk.count('monitor:slice_disjoint_partial_group')
            else:
                chk.count('monitor:slice_partition')
                chk.count('monitor:slice_partition_n_ge_10', 1 if g['n'] >= 10 else 0)
            chk.count('cov:slice_n_digits_%d' % len(str(g['n'])))
            chk.count('cov:slice_n_%d' % g['n'])
            for mech, det in g['violations']:
                chk.violation(mech, {'detail': det, 'project': pr.get('proj'), 'inv': g['inv'], 'idx': pr['idx'],
                                     'sizes': g['sizes']})
    return {'distinct_start_orders': len(orders), 'runs': runs, 'runs_per_profile': profiles,
            'violation_mechanisms': sorted({w.get('mechanism', '?') for w in chk.violations})}


def replay(chk: common.Check, path: str) -> int:
    with open(path, encoding='utf-8') as f:
        w = json.load(f)
    proj, inv = w.get('project'), w.get('inv')
    if not proj or not inv:
        print('replay: witness has no project/invocation')
        return 2
    root = common.scratch_dir('c12r')
    invs = [inv]
    if inv.get('slice') and str(w.get('mechanism', '')).startswith('slice-'):
        invs = [dict(inv, slice=[i, inv['slice'][1]]) for i in range(1, inv['slice'][1] + 1)]
    fails = 0
    for attempt in range(5):
        pr = run_project({'proj': proj, 'invs': invs, 'root': root, 'idx': attempt, 'deadline': time.time() + 600,
                          'shake': bool(w.get('shake')), 'seed': chk.seed + attempt})
        mechs = [m for res in pr['runs'] for m, _ in res['violations']]
        mechs += [m for g in pr.get('slice_groups', []) for m, _ in g['violations']]
        print(f'replay attempt {attempt}: mechanisms {sorted(set(mechs))}')
        if w.get('mechanism') in mechs:
            fails += 1
    print(f'replay: mechanism {w.get("mechanism")!r} reproduced in {fails}/5 attempts (each attempt is one interleaving)')
    return 1 if fails else 0


def main() -> int:
    chk = common.Check(PID)
    runner.preload()
    if os.environ.get('VERIF_REPLAY'):
        return replay(chk, os.environ['VERIF_REPLAY'])
    cfg = dict(QUICK if chk.tier == 'quick' else THOROUGH)
    if os.environ.get('C12_PROJECTS'):          # development aid only: smaller/larger sweep
        cfg['projects'] = int(os.environ['C12_PROJECTS'])
    root = common.scratch_dir('c12')
    jobs = build_jobs(chk, cfg, root)
    by_idx = {j['idx']: j['proj'] for j in jobs}
    results = common.pmap(run_project, jobs, chk.jobs)
    for pr in results:
        pr['proj'] = by_idx[pr['idx']]
    extra = aggregate(chk, results)
    # deciding monitors must have been reached
    for m, minimum in (('monitor:probe_starts', 50), ('monitor:overlap_sweep', 10), ('monitor:serial_intervals', 10),
                       ('monitor:classification', 50), ('monitor:summary_compare', 10), ('monitor:exit_status', 10),
                       ('monitor:exactly_once', 50), ('monitor:pids_gone', 50), ('monitor:slice_partition', 1),
                       ('monitor:slice_partition_n_ge_10', 2), ('monitor:slice_accepted', 40),
                       ('cov:slice_digits_i1_n2', 9), ('cov:slice_digits_i2_n2', 2), ('cov:slice_digits_i1_n3', 1),
                       ('cov:slice_digits_i2_n3', 1), ('cov:slice_digits_i3_n3', 1),
                       ('monitor:slice_oversized_n_one_answer', 1),
                       ('monitor:harness_run', 50), ('monitor:harness_result', 50), ('monitor:tally_crosscheck', 10),
                       ('monitor:kill_reported', 1), ('cov:result_TIMEOUT', 1), ('cov:job_bound_saturated', 1),
                       ('cov:all_good_run', 1), ('cov:timeout_kw_negative', 5), ('cov:timeout_kw_zero', 5),
                       ('cov:timeout_kw_negative_with_multiplier', 1), ('cov:nolimit_test_non_OK_classification', 1),
                       ('cov:classified_tests_in_suites', 20), ('cov:suite_selection', 1),
                       ('monitor:limit_passed', 2), ('cov:leaky_victim_TIMEOUT', 1), ('monitor:helpers_seen', 2),
                       ('cov:leaky_sigterm_ignoring_helper_probe', 1),
                       ('cov:tap_no_result_line_but_bad_exit', 2), ('cov:death_by_signal_exitcode', 1),
                       ('cov:death_by_signal_tap', 1), ('cov:interrupted_in_flight_test_not_plain_exit0', 1),
                       ('cov:output_over_64KiB_without_newline_stdout', 1),
                       ('cov:output_over_64KiB_without_newline_stderr', 1),
                       ('cov:tap_description_with_hash_passing', 1), ('cov:tap_description_with_hash_failing', 1),
                       # protocols 'gtest' (every kind of XML report x exit status) and 'rust' (libtest lines)
                       ('cov:gtest_report_full', 1), ('cov:gtest_report_lie', 1), ('cov:gtest_report_none', 1),
                       ('cov:gtest_report_cut', 1), ('cov:gtest_report_empty', 1), ('cov:gtest_report_garbage', 1),
                       ('cov:gtest_unreadable_report_exit0', 1), ('cov:gtest_unreadable_report_exit77', 1),
                       ('cov:gtest_unreadable_report_exitother', 1), ('cov:gtest_unreadable_report_should_fail', 1),
                       ('cov:gtest_contradicting_report_exit0', 1), ('cov:gtest_contradicting_report_exitother', 1),
                       ('cov:gtest_victim_TIMEOUT_report_half-written', 1),
                       ('cov:rust_all-ok-plain', 1), ('cov:rust_all-ok-some-decorated', 1),
                       ('cov:rust_fail-on-plain-name', 1), ('cov:rust_fail-on-decorated-name-only', 1),
                       ('cov:rust_fail-on-decorated-name-only_should_fail', 1), ('cov:rust_all-ignored', 1),
                       ('monitor:rust_subtests_seen', 1)):
        chk.require(m, minimum)
    chk.require('runs_conclusive', int(0.6 * cfg['projects'] * cfg['per_project']))
    # (the sweep runs come on top of projects x per_project)
    if chk.tier == 'thorough':
        chk.require('diag:shake_sleeps', 1)
    return chk.finish(
        rule='one case = one `meson test` invocation (project x options); distinct by (project, options, observed '
             'START order of the probes); projects drawn from 12 adversarial duration/ordering profiles and one that '
             'crosses the protocols gtest (XML report full/contradicting/absent/cut/empty/garbage/stale x exit status, '
             'also at the time limit) and rust (plain, doctest and decorated libtest names x ok/FAILED/ignored); '
             'in the other profiles a share of the exit-code tests speak gtest or rust instead',
        assumptions=['time.monotonic_ns() is one system-wide clock (CLOCK_MONOTONIC) shared by all probes',
                     'a probe interval [START, END|TERM] lies inside the process lifetime, so interval overlap '
                     'implies real overlap; absence of overlap in the log does not prove absence of real overlap',
                     'a TIMEOUT of a test that is not a scripted victim is attributed to machine load '
                     '(inconclusive case), never to meson',
                     'TAP streams are limited to well-formed ones whose outcome is undisputed (C18 owns TAP parsing)',
                     "protocol 'rust': only what libtest itself prints (a FAILED line <=> exit status 101); demanded is "
                     'good/bad agreement with the exit-status rule, FAIL vs ERROR and OK vs SKIP (nothing ran) are open',
                     "protocol 'gtest': classified by the exit-status rule alone; nothing is demanded of how the XML "
                     'report appears in the junit log',
                     'each run samples one interleaving of the asyncio scheduler'],
        exhaustive=False, extra=extra)


if __name__ == '__main__':
    sys.exit(main())
