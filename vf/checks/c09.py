"""C09 — a killed meson command never bricks the build directory (fault enumeration).

For each mutating command x directory history: a counting run lists every Python-level file-system mutation
point on the build directory (vf/monitors/crash.py); then for every point k (and the torn variant of every write)
the history snapshot is restored, the command is run and SIGKILLed at k, and the follow-up a user would run
(`meson setup --reconfigure` when the directory was configured before, else the same setup command again)
is executed.  Oracle: follow-up exits 0 without a traceback; state files load; build.ninja exists and parses;
every tracked option has its value from before the interrupted command or the value that command was setting.
A strace run of each command cross-checks that the injector saw every path the command mutated.
"""
from __future__ import annotations

import json
import os
import re
import shutil
import subprocess
import sys
import time
import typing as T

from vf import common, runner, optprobe
from vf import mininja as mn
from vf.monitors import crash

PID = 'C09'

SRC = {
    'meson.build': """project('kp', meson_version: '>=1.1', default_options: ['warning_level=2'])
message('OPT x=' + get_option('x'))
message('OPT n=' + get_option('n').to_string())
message('OPT warning_level=' + get_option('warning_level'))
message('OPT buildtype=' + get_option('buildtype'))
cfg = configuration_data({'X': get_option('x')})
configure_file(output: 'conf.h', configuration: cfg)
py = find_program('python3')
custom_target('ct', output: 'ct.txt', command: [py, '-c', 'print(1)'], capture: true, build_by_default: true)
custom_target('ctenv', output: 'ctenv.txt', command: [py, '-c', 'import os; print(os.environ["KP"] + get_option_x)'.replace('get_option_x', '""')],
              env: {'KP': get_option('x')}, capture: true, build_by_default: true)
install_data('data.txt', install_dir: get_option('datadir'))
subproject('sub')
""",
    'meson.options': "option('x', type: 'string', value: 'xdef')\noption('n', type: 'integer', value: 1, min: 0, max: 100)\n",
    'data.txt': 'data\n',
    'nf.ini': "[project options]\nx = 'nfx'\n[built-in options]\nwarning_level = '3'\n",
    'subprojects/sub/meson.build': "project('sub')\nmessage('OPT sub:s=' + get_option('s'))\n",
    'subprojects/sub/meson.options': "option('s', type: 'string', value: 'sdef')\n",
}

SRC_C = dict(SRC)
SRC_C['meson.build'] = SRC['meson.build'].replace("project('kp',", "project('kp', 'c',") + \
    "lib = static_library('kl', 'kl.c')\nexe = executable('ke', 'ke.c', link_with: lib, install: true)\ntest('kt', exe)\n"
SRC_C['kl.c'] = 'int kl(void) { return 0; }\n'
SRC_C['ke.c'] = 'int kl(void); int main(void) { return kl(); }\n'

KEYS: T.List[T.Tuple[str, T.Optional[str]]] = [('x', ''), ('n', ''), ('s', 'sub'), ('warning_level', None), ('buildtype', None)]
LABEL = {('x', ''): 'x', ('n', ''): 'n', ('s', 'sub'): 'sub:s', ('warning_level', None): 'warning_level', ('buildtype', None): 'buildtype'}
DEFAULTS = {'x': 'xdef', 'n': 1, 'sub:s': 'sdef', 'warning_level': '2', 'buildtype': 'debug'}


class Case(T.NamedTuple):
    name: str
    kind: str                       # setup | reconfigure | configure | wipe
    history: T.List[T.List[str]]    # argv lists; '@B' = build dir, '@S' = source dir
    command: T.List[str]
    before: T.Optional[T.Dict[str, T.Any]]   # None: directory did not exist
    target: T.Dict[str, T.Any]
    followup: T.List[str]
    listing: str = 'natural'        # order in which os.listdir/os.scandir return entries to the command: natural | sorted | reversed


def _vals(**kw: T.Any) -> T.Dict[str, T.Any]:
    d = dict(DEFAULTS)
    for k, v in kw.items():
        d[k.replace('__', ':')] = v
    return d


def cases(tier: str) -> T.List[Case]:
    setup1 = ['setup', '@B', '@S', '-Dx=v1', '-Dn=7', '-Dsub:s=s1', '-Dbuildtype=release']
    v1 = _vals(x='v1', n=7, sub__s='s1', buildtype='release')
    cs = [
        Case('fresh-setup', 'setup', [], setup1, None, v1, setup1),
        Case('reconfigure', 'reconfigure', [setup1],
             ['setup', '--reconfigure', '@B', '@S', '-Dx=v2', '-Dsub:s=s2'],
             v1, _vals(x='v2', n=7, sub__s='s2', buildtype='release'), ['setup', '--reconfigure', '@B', '@S']),
        Case('configure', 'configure', [setup1],
             ['configure', '@B', '-Dx=v2', '-Dn=8', '-Dwarning_level=1'],
             v1, _vals(x='v2', n=8, sub__s='s1', buildtype='release', warning_level='1'), ['setup', '--reconfigure', '@B', '@S']),
        Case('wipe', 'wipe', [setup1], ['setup', '--wipe', '@B', '@S'], v1, v1, ['setup', '--reconfigure', '@B', '@S']),
    ]
    setup_nf = ['setup', '@B', '@S', '--native-file', '@S/nf.ini', '-Dn=5']
    vnf = _vals(x='nfx', n=5, warning_level='3')
    if tier == 'quick':
        # the machine-file variant subsumes the plain one (it also records -Dn=5); the directory has been reconfigured once
        # (coredata.dat.prev exists) and the deletion loop sees the entries in sorted order (coredata.dat before coredata.dat.prev:
        # directory order is unspecified, each order is a different sequence of intermediate states)
        cs[-1] = Case('wipe-nativefile', 'wipe', [setup_nf[:-1] + ['-Dn=4'], ['configure', '@B', '-Dn=5']], ['setup', '--wipe', '@B', '@S'], vnf, vnf,
                      ['setup', '--reconfigure', '@B', '@S'], 'sorted')
    if tier == 'thorough':
        cs.append(Case('wipe-after-configure', 'wipe', [setup1, ['configure', '@B', '-Dx=v3', '-Dn=9']],
                       ['setup', '--wipe', '@B', '@S'],
                       _vals(x='v3', n=9, sub__s='s1', buildtype='release'), _vals(x='v3', n=9, sub__s='s1', buildtype='release'),
                       ['setup', '--reconfigure', '@B', '@S']))
        cs += [
            Case('reconfigure-nativefile', 'reconfigure', [setup_nf],
                 ['setup', '--reconfigure', '@B', '@S', '-Dn=6'], vnf, _vals(x='nfx', n=6, warning_level='3'),
                 ['setup', '--reconfigure', '@B', '@S']),
            Case('wipe-nativefile', 'wipe', [setup_nf], ['setup', '--wipe', '@B', '@S'], vnf, vnf,
                 ['setup', '--reconfigure', '@B', '@S']),
            Case('configure-after-reconfigure', 'configure',
                 [setup1, ['setup', '--reconfigure', '@B', '@S', '-Dx=v2']],
                 ['configure', '@B', '-Dsub:s=s3', '-Dbuildtype=plain'],
                 _vals(x='v2', n=7, sub__s='s1', buildtype='release'), _vals(x='v2', n=7, sub__s='s3', buildtype='plain'),
                 ['setup', '--reconfigure', '@B', '@S']),
            Case('reconfigure-c', 'reconfigure', [setup1],
                 ['setup', '--reconfigure', '@B', '@S', '-Dx=v2', '-Dsub:s=s2'],
                 v1, _vals(x='v2', n=7, sub__s='s2', buildtype='release'), ['setup', '--reconfigure', '@B', '@S']),
            Case('fresh-setup-c', 'setup', [], setup1, None, v1, setup1),
            Case('reconfigure-twice', 'reconfigure',
                 [setup1, ['configure', '@B', '-Dn=9']],
                 ['setup', '--reconfigure', '@B', '@S', '-Dn=10', '-Dbuildtype=debug'],
                 _vals(x='v1', n=9, sub__s='s1', buildtype='release'), _vals(x='v1', n=10, sub__s='s1', buildtype='debug'),
                 ['setup', '--reconfigure', '@B', '@S']),
        ]
        cs += [
            Case('configure-clearcache', 'configure', [setup1], ['configure', '@B', '--clearcache', '-Dx=v2'],
                 v1, _vals(x='v2', n=7, sub__s='s1', buildtype='release'), ['setup', '--reconfigure', '@B', '@S']),
            Case('reconfigure-clearcache-c', 'reconfigure', [setup1], ['setup', '--reconfigure', '--clearcache', '@B', '@S', '-Dn=11'],
                 v1, _vals(x='v1', n=11, sub__s='s1', buildtype='release'), ['setup', '--reconfigure', '@B', '@S']),
            Case('wipe-with-options', 'wipe', [setup1], ['setup', '--wipe', '@B', '@S', '-Dx=v9', '-Dsub:s=s9'],
                 v1, _vals(x='v9', n=7, sub__s='s9', buildtype='release'), ['setup', '--reconfigure', '@B', '@S']),
        ]
        # every --wipe history again under the two extreme directory-listing orders, on a directory that has a coredata.dat.prev
        for c in [c for c in cs if c.kind == 'wipe']:
            for order in ('sorted', 'reversed'):
                # coredata.dat.prev must hold OTHER values than coredata.dat, or falling back to it could not be told apart
                n = c.before['n']
                hist = [c.history[0] + [f'-Dn={n + 30}']] + c.history[1:] + [['configure', '@B', f'-Dn={n}']]
                cs.append(c._replace(name=f'{c.name}-ls-{order}', history=hist, listing=order))
    return cs


def listing_monitor(order: str) -> T.Callable:
    """os.listdir / os.scandir hand their entries to the command in the given order (an order a file system may return)."""
    def monitor(rec: T.Callable[[dict], None]) -> None:
        if order == 'natural':
            return
        rev = order == 'reversed'
        real_listdir, real_scandir = os.listdir, os.scandir

        def listdir(path: T.Any = '.') -> T.List[T.Any]:
            return sorted(real_listdir(path), reverse=rev)

        class Scan:
            def __init__(self, path: T.Any) -> None:
                with real_scandir(path) as it:
                    self._items = sorted(it, key=lambda e: e.name, reverse=rev)
                self._iter = iter(self._items)

            def __iter__(self) -> 'Scan':
                return self

            def __next__(self) -> T.Any:
                return next(self._iter)

            def __enter__(self) -> 'Scan':
                return self

            def __exit__(self, *a: T.Any) -> bool:
                return False

            def close(self) -> None:
                pass

        os.listdir = listdir  # type: ignore
        os.scandir = lambda path='.': Scan(path)  # type: ignore
    return monitor


def subst(argv: T.Sequence[str], b: str, s: str) -> T.List[str]:
    return [a.replace('@B', b).replace('@S', s) for a in argv]


class Arena:
    """One worker's private source + build directory (absolute paths are baked into the state files)."""

    def __init__(self, root: str, case: Case) -> None:
        self.root = root
        self.case = case
        self.src = os.path.join(root, 'src')
        self.b = os.path.join(root, 'b')
        self.snap = os.path.join(root, 'snap')
        runner.write_tree(self.src, SRC_C if case.name.endswith('-c') else SRC)
        self.ok = True
        self.err = ''
        for h in case.history:
            r = runner.meson(subst(h, self.b, self.src), cwd=self.src)
            if r.rc != 0:
                self.ok = False
                self.err = f'history command {h} failed: {r.out[-500:]} {r.err[-500:]}'
                return
        if os.path.isdir(self.b):
            shutil.copytree(self.b, self.snap, symlinks=True)

    def restore(self) -> None:
        shutil.rmtree(self.b, ignore_errors=True)
        if os.path.isdir(self.snap):
            shutil.copytree(self.snap, self.b, symlinks=True)

    def run_cmd(self, kill_at: int, torn: bool) -> runner.Result:
        return runner.meson(subst(self.case.command, self.b, self.src), cwd=self.src,
                            monitors=[listing_monitor(self.case.listing), crash.make_injector(self.b, kill_at, torn)])


_MSG = re.compile(r'^Message: OPT ([\w:]+)=(.*)$', re.M)


def assess(ar: Arena) -> T.Optional[T.Dict[str, T.Any]]:
    """Run the follow-up a user would run and judge the directory. Returns None if fine, else a symptom record.
    After an interrupted FRESH setup the state is ambiguous to the user: the same command is re-run first; if
    meson then answers "already configured" / fails / leaves no build.ninja, `meson setup --reconfigure` (what
    meson's own message tells the user to run) is tried; only if that does not give a usable directory either
    is it a violation.  ('plain_rerun_insufficient' is reported back for the evidence.)"""
    case = ar.case
    if case.kind == 'setup':
        first = assess_with(ar, case.followup)
        if first is None:
            return later_wipe(ar)
        second = assess_with(ar, ['setup', '--reconfigure', '@B', '@S'])
        if second is None:
            return later_wipe(ar) or {'symptom': 'note-plain-rerun-insufficient', 'first': first['symptom']}
        second['after_plain_rerun'] = first['symptom']
        return second
    sym = assess_with(ar, case.followup)
    if sym is None and os.environ.get('VERIF_TIER') == 'thorough':
        return later_wipe(ar)
    return sym


def later_wipe(ar: Arena) -> T.Optional[T.Dict[str, T.Any]]:
    """The recovered directory is used on: a later `meson setup --wipe` re-derives the configuration from what was recorded.
    "Afterwards every option has either its value from before the interrupted command or the value that command was
    setting - never anything else" must survive that too (a recovery that only looks right until the next wipe lost data)."""
    case = ar.case
    w = runner.meson(subst(['setup', '--wipe', '@B', '@S'], ar.b, ar.src), cwd=ar.src)
    if w.timed_out:
        return {'symptom': 'inconclusive-timeout'}
    if w.rc != 0 or w.traceback:
        return {'symptom': 'later-wipe-failed', 'rc': w.rc, 'tail': (w.out + w.err)[-600:]}
    vals = optprobe.read_options(ar.b, KEYS)
    if '__load_error__' in vals:
        return {'symptom': 'coredata-unreadable-after-later-wipe', 'detail': vals['__load_error__']}
    for k in KEYS:
        lab = LABEL[k]
        allowed = {json.dumps(case.target[lab])} | ({json.dumps(case.before[lab])} if case.before is not None else set())
        if json.dumps(vals.get(lab)) not in allowed:
            return {'symptom': 'value-lost-by-later-wipe', 'option': lab, 'got': vals.get(lab), 'allowed': sorted(allowed)}
    return None


def assess_with(ar: Arena, followup: T.List[str]) -> T.Optional[T.Dict[str, T.Any]]:
    case = ar.case
    fu = runner.meson(subst(followup, ar.b, ar.src), cwd=ar.src)
    if fu.timed_out:
        return {'symptom': 'inconclusive-timeout'}
    text = fu.out + fu.err
    if fu.rc != 0 or fu.traceback:
        ms = re.findall(r'^([\w.]*?(\w+(?:Error|Exception|Interrupt))): ', text, re.M)
        exc = ms[-1][1] if ms else ('MesonException' if 'ERROR:' in text else 'unknown')
        return {'symptom': 'followup-failed', 'exc': exc, 'rc': fu.rc, 'tail': text[-700:]}
    # state files readable, directory usable
    allowed = {}
    for k in KEYS:
        lab = LABEL[k]
        allowed[lab] = {json.dumps(case.target[lab])}
        if case.before is not None:
            allowed[lab].add(json.dumps(case.before[lab]))
    for lab, val in _MSG.findall(fu.out):
        if lab in allowed and not any(str(json.loads(a)) == val for a in allowed[lab]):
            return {'symptom': 'value-neither', 'option': lab, 'got': val, 'allowed': sorted(allowed[lab]), 'via': 'get_option() in follow-up'}
    vals = optprobe.read_options(ar.b, KEYS)
    if '__load_error__' in vals:
        return {'symptom': 'coredata-unreadable-after-followup', 'detail': vals['__load_error__']}
    for k in KEYS:
        lab = LABEL[k]
        got = vals.get(lab)
        if json.dumps(got) not in allowed[lab]:
            return {'symptom': 'value-neither', 'option': lab, 'got': got, 'allowed': sorted(allowed[lab]), 'via': 'coredata after follow-up'}
    bn = os.path.join(ar.b, 'build.ninja')
    if not os.path.isfile(bn):
        return {'symptom': 'unusable-no-build-ninja', 'followup_said': 'already configured' if 'already configured' in fu.out else 'configured'}
    try:
        m = mn.parse_manifest('build.ninja', cwd=ar.b)
        if not m.edges:
            return {'symptom': 'unusable-empty-build-ninja'}
    except mn.ManifestError as e:
        return {'symptom': 'unusable-build-ninja-corrupt', 'detail': str(e)}
    # every pickled state file the build / test / install steps load must be readable again (meson_exe_*.dat wrappers,
    # install.dat, test setup data ...): checked by unpickling them with the repository's code in a forked child
    bad = unreadable_dat_files(ar.b)
    if bad:
        return {'symptom': 'unusable-state-file-unreadable-after-followup', 'files': bad}
    if os.environ.get('VERIF_TIER') == 'thorough' and (hash(ar.b) + len(fu.out)) % 10 == 0:
        try:
            import io
            buf = io.StringIO()
            rc = mn.Executor(m, ar.b, jobs=2, incremental=False, out=buf, env=runner.base_env()).run([])
            if rc != 0:
                return {'symptom': 'unusable-build-fails-after-followup', 'tail': buf.getvalue()[-600:]}
        except mn.BuildFailure as e:
            return {'symptom': 'unusable-build-fails-after-followup', 'tail': str(e)}
    import glob as _glob
    names = {'intro-buildoptions.json', 'meson-info.json'} | {os.path.basename(p) for p in _glob.glob(os.path.join(ar.b, 'meson-info', '*.json'))}
    for f in sorted(names):
        try:
            with open(os.path.join(ar.b, 'meson-info', f), encoding='utf-8') as fh:
                json.load(fh)
        except (OSError, ValueError) as e:
            return {'symptom': 'unusable-intro-unreadable', 'file': 'tmp' if 'tmp' in f else f, 'detail': str(e)[:200]}
    if os.environ.get('VERIF_TIER') != 'thorough':
        return None
    # the directory must also accept the next ordinary command
    r2 = runner.meson(['configure', ar.b], cwd=ar.src)
    if r2.rc != 0 or r2.traceback:
        return {'symptom': 'configure-print-failed-after-followup', 'tail': (r2.out + r2.err)[-500:]}
    return None


def unreadable_dat_files(bdir: str) -> T.List[str]:
    common.use_repo()
    r, w = os.pipe()
    pid = os.fork()
    if pid == 0:
        os.close(r)
        bad = []
        try:
            import pickle
            import glob
            for p in sorted(glob.glob(os.path.join(bdir, 'meson-private', '*.dat'))):
                try:
                    with open(p, 'rb') as f:
                        pickle.load(f)
                except BaseException as e:
                    bad.append(f'{os.path.basename(p)}: {type(e).__name__}')
        finally:
            try:
                os.write(w, json.dumps(bad).encode())
            finally:
                os._exit(0)
    os.close(w)
    data = b''
    while True:
        chunk = os.read(r, 65536)
        if not chunk:
            break
        data += chunk
    os.close(r)
    os.waitpid(pid, 0)
    try:
        return json.loads(data.decode())
    except ValueError:
        return ['<probe failed>']


def file_class(path: str) -> str:
    b = os.path.basename(path)
    b = re.sub(r'[0-9a-f]{16,}', 'H', b)
    if path.startswith('meson-logs'):
        return 'meson-logs'
    if path.startswith('meson-info'):
        return 'meson-info/' + ('tmp' if 'tmp' in b else 'intro' if b.startswith('intro') else b)
    return b or '.'


def classify(case: Case, op: T.Dict[str, T.Any], sym: T.Dict[str, T.Any]) -> str:
    """Mechanism key: command kind / symptom class / where the kill landed (coarse, stable)."""
    s = sym['symptom']
    if s == 'followup-failed':
        s = 'followup-failed:' + sym.get('exc', 'unknown')
    if s == 'value-neither':
        s = 'value-neither-before-nor-target'
    where = file_class(op.get('path', '?'))
    if case.kind == 'wipe' and op.get('phase') == 'wipe-delete-window':
        where = 'between-delete-and-restore'
    return f'{case.kind}/{s}/{where}'


def count_ops(ar: Arena) -> T.Tuple[T.List[dict], runner.Result]:
    ar.restore()
    r = ar.run_cmd(0, False)
    ops = [x for x in r.records if 'n' in x]
    # mark the --wipe window: from the first removal until cmd_line.txt is back
    if ar.case.kind == 'wipe':
        started = False
        for o in ops:
            if o['op'] in ('remove', 'rmdir') and not started:
                started = True
            if started:
                o['phase'] = 'wipe-delete-window'
            if started and o['op'] == 'rename' and o['path'].endswith('cmd_line.txt'):
                o['phase'] = 'wipe-delete-window'
                started = False
                break
    return ops, r


def select_points(ops: T.List[dict], tier: str) -> T.List[T.Tuple[int, bool]]:
    """Every op is a kill point, writes also in the torn variant.  Long runs of the same (file, op) class
    (json.dump / log lines issue thousands of small writes to one file that is renamed or ignored afterwards)
    are thinned: quick keeps first, second, middle, last; thorough keeps first 3, last 3 and every 8th.
    State files with <= 12 ops of a class (coredata, cmd_line.txt, *.dat) are never thinned."""
    groups: T.Dict[T.Tuple[str, str], T.List[dict]] = {}
    for o in ops:
        groups.setdefault((o['path'], o['op']), []).append(o)
    keep: T.Set[int] = set()
    for (path, op), g in groups.items():
        if len(g) <= 12:
            keep.update(o['n'] for o in g)
        elif tier == 'quick':
            keep.update(g[i]['n'] for i in (0, 1, len(g) // 2, len(g) - 1))
        else:
            keep.update(o['n'] for o in g[:3] + g[-3:] + g[::8])
    if tier == 'quick':
        # the --wipe deletion window is one equivalence class per deleted entry: sample it
        # (not the state files directly inside meson-private: which of them still exist decides what the follow-up loads)
        win = [o['n'] for o in ops if o.get('phase') == 'wipe-delete-window' and o['n'] in keep]
        sampled = set(win[:3] + win[-3:] + win[::5])
        sampled |= {o['n'] for o in ops if o.get('phase') == 'wipe-delete-window' and os.path.dirname(o['path']) == 'meson-private'}
        keep -= set(win) - sampled
    pts: T.List[T.Tuple[int, bool]] = []
    for o in ops:
        if o['n'] not in keep:
            continue
        pts.append((o['n'], False))
        if o['op'] == 'write' and (o.get('len') or 0) > 1:
            pts.append((o['n'], True))
    return pts


def worker(job: T.Tuple[T.Any, ...]) -> dict:
    case_name, widx, pts, root, tier = job[:5]
    deadline = job[5] if len(job) > 5 else None
    case = next(c for c in cases(tier) if c.name == case_name)
    ar = Arena(os.path.join(root, f'{case_name}-{widx}'), case)
    res: T.Dict[str, T.Any] = {'case': case_name, 'done': 0, 'not_reached': 0, 'timeouts': 0, 'problems': [], 'survived': 0,
                               'recovered_from_scratch': 0, 'visited': [], 'budget_skipped': 0}
    if not ar.ok:
        res['arena_error'] = ar.err
        return res
    ops, _ = count_ops(ar)
    byn = {o['n']: o for o in ops}
    for i, (k, torn) in enumerate(pts):
        if deadline is not None and time.time() > deadline:
            # wall-clock budget used up (loaded machine): the rest of this chunk is reported as not explored, never as held
            res['budget_skipped'] = len(pts) - i
            break
        res['visited'].append((k, torn))
        ar.restore()
        r = ar.run_cmd(k, torn)
        killed = [x for x in r.records if 'killed_at' in x]
        if r.timed_out:
            res['timeouts'] += 1
            continue
        if not killed or r.signal != 9:
            res['not_reached'] += 1
            continue
        op = dict(byn.get(k, {}))
        op.update(killed[0])
        sym = assess(ar)
        res['done'] += 1
        if sym is None:
            res['survived'] += 1
        elif sym['symptom'] == 'inconclusive-timeout':
            res['timeouts'] += 1
        elif sym['symptom'] == 'note-plain-rerun-insufficient':
            res['survived'] += 1
            res['plain_rerun_insufficient'] = res.get('plain_rerun_insufficient', 0) + 1
        else:
            res['problems'].append({'case': case_name, 'k': k, 'torn': torn, 'op': op, 'symptom': sym,
                                    'mechanism': classify(case, op, sym)})
    shutil.rmtree(ar.root, ignore_errors=True)
    return res


_STRACE_MUT = re.compile(r'^\d+\s+(open|openat|creat|rename|renameat|renameat2|unlink|unlinkat|mkdir|mkdirat|rmdir|symlink|symlinkat|link|linkat|truncate)\((.*)\)\s+=\s+(-?\d+)', re.M)


def strace_crosscheck(ar: Arena, ops: T.List[dict]) -> T.Tuple[int, T.List[str]]:
    """Paths the command mutates according to the kernel vs paths the injector saw. Returns (#syscalls matched, unmatched)."""
    ar.restore()
    log = os.path.join(ar.root, 'strace.log')
    env = runner.base_env()
    argv = ['strace', '-f', '-qq', '-o', log, '-e', 'trace=%file', '/venv/bin/python', runner.MESON_PY] + subst(ar.case.command, ar.b, ar.src)
    try:
        subprocess.run(argv, cwd=ar.src, env=env, stdout=subprocess.DEVNULL, stderr=subprocess.DEVNULL, timeout=300)
    except subprocess.TimeoutExpired:
        return 0, ['<strace timeout>']
    seen = {os.path.normpath(os.path.join(ar.b, o['path'])) for o in ops}
    seen_dirs = {os.path.dirname(p) for p in seen}
    matched = 0
    unmatched: T.Set[str] = set()
    try:
        with open(log, encoding='utf-8', errors='replace') as f:
            text = f.read()
    except OSError:
        return 0, ['<no strace log>']
    for m in _STRACE_MUT.finditer(text):
        call, args, ret = m.group(1), m.group(2), int(m.group(3))
        if ret < 0:
            continue
        if call in ('open', 'openat', 'creat') and not re.search(r'O_WRONLY|O_RDWR|O_CREAT|O_TRUNC', args) and call != 'creat':
            continue
        paths = re.findall(r'"((?:[^"\\]|\\.)*)"', args)
        for p in paths:
            if not os.path.isabs(p):
                p = os.path.join(ar.src, p)  # cwd of the command; dirfd-relative unlinks are resolved by name only
            p = os.path.normpath(p)
            if p.startswith(ar.b + os.sep):
                if p in seen or os.path.basename(p) in {os.path.basename(s) for s in seen}:
                    matched += 1
                elif '__pycache__' in p:
                    continue
                else:
                    unmatched.add(os.path.relpath(p, ar.b))
    os.unlink(log)
    return matched, sorted(unmatched)


def main() -> int:
    chk = common.Check(PID, level='fault_enumeration')
    runner.preload()
    root = common.scratch_dir('c09')
    replay_path = os.environ.get('VERIF_REPLAY')
    tier = chk.tier
    cs = cases(tier)
    only = os.environ.get('VERIF_C09_ONLY')     # development aid: comma separated case names
    if only:
        cs = [c for c in cs if c.name in only.split(',')]
    if replay_path:
        with open(replay_path, encoding='utf-8') as f:
            w = json.load(f)
        res = worker((w['case'], 0, [(w['k'], w['torn'])], root, 'thorough'))
        print(json.dumps(res, indent=1, default=repr))
        if res['problems']:
            print(f'VIOLATION property={PID} replay={replay_path}')
            return 1
        print('replay: no problem observed')
        return 0

    jobs: T.List[T.Tuple[str, int, T.List[T.Tuple[int, bool]], str, str]] = []
    oplists: T.Dict[str, T.List[dict]] = {}
    strace_unmatched: T.Dict[str, T.List[str]] = {}
    for c in cs:
        ar = Arena(os.path.join(root, f'count-{c.name}'), c)
        if not ar.ok:
            chk.violation('harness/history-failed', {'case': c.name, 'error': ar.err})
            continue
        ops, r = count_ops(ar)
        if r.rc != 0:
            chk.violation('harness/command-failed-without-kill', {'case': c.name, 'out': r.out[-800:], 'err': r.err[-800:]})
            continue
        # determinism of the op list (enumeration is only exhaustive if numbering is stable)
        ops2, _ = count_ops(ar)
        if [(o['op'], o['path']) for o in ops] != [(o['op'], o['path']) for o in ops2]:
            chk.count('oplist_unstable')
        oplists[c.name] = ops
        matched, unmatched = strace_crosscheck(ar, ops)
        chk.count('strace:mutating_syscalls_matched', matched)
        strace_unmatched[c.name] = unmatched
        state_unmatched = [u for u in unmatched if re.search(r'coredata|cmd_line|build\.dat|build\.ninja|intro-', u)]
        if state_unmatched:
            chk.inconclusive.append(f'{c.name}: state-file mutations invisible to the injector: {state_unmatched}')
        pts = select_points(ops, tier)
        chk.count(f'ops:{c.name}', len(ops))
        chk.count(f'killpoints:{c.name}', len(pts))
        nchunks = max(1, min(len(pts), (chk.jobs * 2) // max(1, len(cs)) + 1))
        # strided chunks: when the time budget cuts a chunk short, what is lost is a uniform sample of the command's run
        for i in range(nchunks):
            jobs.append((c.name, i, pts[i::nchunks], root, tier))
        shutil.rmtree(ar.root, ignore_errors=True)
    budget = float(os.environ.get('VERIF_C09_BUDGET', '150' if tier == 'quick' else '2700'))
    deadline = time.time() + budget
    chk.rng.shuffle(jobs)       # no case is systematically last when the budget runs out
    results = common.pmap(worker, [j + (deadline,) for j in jobs], chk.jobs, timeout=budget + 1500)
    opkinds: T.Set[T.Tuple[str, str]] = set()
    for name, ops in oplists.items():
        for o in ops:
            opkinds.add((o['op'], file_class(o['path'])))
    for res in results:
        if 'arena_error' in res:
            chk.violation('harness/history-failed', {'case': res['case'], 'error': res['arena_error']})
            continue
        chk.count('kills_assessed', res['done'])
        chk.count('kills_survived', res['survived'])
        chk.count('kill_not_reached', res['not_reached'])
        chk.count('watchdog_timeouts', res['timeouts'])
        chk.count('killpoints_not_explored_time_budget', res.get('budget_skipped', 0))
        for k, torn in res.get('visited', []):
            chk.case(f"{res['case']}:{k}:{torn}")
        chk.count('note:fresh_setup_plain_rerun_insufficient_but_reconfigure_recovers', res.get('plain_rerun_insufficient', 0))
        for p in res['problems']:
            chk.violation(p['mechanism'], {'case': p['case'], 'k': p['k'], 'torn': p['torn'], 'op': p['op'], 'symptom': p['symptom']})
    for c in cs[:3]:
        ops = oplists.get(c.name, [])
        chk.sample({'case': c.name, 'command': c.command, 'history': c.history,
                    'first_ops': [(o['n'], o['op'], o['path']) for o in ops[:6]], 'n_ops': len(ops)})
    chk.require('kills_assessed', 50)
    if chk.counters.get('kill_not_reached', 0) > 0.05 * max(1, chk.counters.get('kills_assessed', 0)):
        chk.inconclusive.append('more than 5% of the kill points were not reached (op numbering unstable)')
    return chk.finish(
        rule='case = (command x history, kill point k of the enumerated Python-level mutation ops on the build dir, torn-write variant); '
             'distinct = distinct (case,k,variant); every enumerated point is executed except that runs of >12 identical (file,op) ops are thinned (see select_points)',
        assumptions=['kill = SIGKILL of the meson process (page cache survives; rename(2) atomic; fsync durability not tested)',
                     'granularity = Python-level operation + torn writes, cross-checked against strace %file syscalls',
                     'language-less project with a subproject, custom target, configure_file; ninja backend through mini-ninja shim'],
        exhaustive=False,
        extra={'op_kinds_seen': sorted(f'{a}:{b}' for a, b in opkinds), 'strace_unmatched_paths': strace_unmatched})


if __name__ == '__main__':
    sys.exit(main())
