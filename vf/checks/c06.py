"""C06 — configuration is deterministic and does not disturb unchanged outputs (perturbation monitor).

Per generated project, in ONE absolute source/build path (removed in between, so no path normalisation):
  * reference configuration (fork server, PYTHONHASHSEED=0);
  * cold configurations under perturbed nondeterminism sources: PYTHONHASHSEED values, shuffled insertion order
    of the process environment, shuffled directory-listing order (vf/inject/sitecustomize.py readdir_shuffle);
  * different histories ending in the same options: configured-with-other-options-then-reconfigured-back,
    `configure -D` there-and-back + reconfigure, `--wipe`;
  every generated text file (build.ninja, meson-info/*.json, configure_file outputs, *.pc) is compared byte for
  byte with the reference;
  * a no-change `setup --reconfigure`: build.ninja content identical, and every file that went through
    replace_if_different with unchanged content keeps (mtime_ns, inode).
"""
from __future__ import annotations

import glob
import hashlib
import json
import os
import random
import shutil
import sys
import time
import typing as T

from vf import common, runner
from vf.gen import gen_c06

PID = 'C06'
OPTS0 = ['-Dname=v', '-Dlvl=y', '-Dspx:sval=cmd']


def text_files(b: str) -> T.Dict[str, bytes]:
    # everything textual outside meson-private/meson-logs (cmake package files, depmf.json, unity sources, command outputs ...)
    out: T.Dict[str, bytes] = corpus_text_files(b)
    pats = ['build.ninja', 'meson-info/*.json', 'config.h', 'tmpl.out', 'meson-private/*.pc', 'meson-uninstalled/*.pc', 'depmf.json',
            'meson-private/*.cmake']
    # names of the wrapped-command pickles are content digests: the set of names is generated text too (build.ninja refers to them)
    out['<meson_exe pickle names>'] = '\n'.join(sorted(os.path.basename(p) for p in glob.glob(os.path.join(b, 'meson-private', 'meson_exe_*')))).encode()
    for pat in pats:
        for p in sorted(glob.glob(os.path.join(b, pat))):
            try:
                with open(p, 'rb') as f:
                    out[os.path.relpath(p, b)] = f.read()
            except OSError:
                pass
    return out


def corpus_text_files(b: str) -> T.Dict[str, bytes]:
    """For corpus projects the set of configure-time outputs is not known in advance: take build.ninja, meson-info/*.json
    and every other regular non-binary file outside meson-private/meson-logs (configure_file outputs, generated *.pc ...)."""
    out: T.Dict[str, bytes] = {}
    for root, dirs, files in os.walk(b):
        rel = os.path.relpath(root, b)
        if rel.split(os.sep)[0] in ('meson-logs', 'meson-private') and not rel.startswith('meson-private'):
            dirs[:] = []
            continue
        # outputs of external tools run at configure time (cmake's own build tree) are not meson's generated text
        dirs[:] = [d for d in dirs if d not in ('__CMake_build', 'CMakeFiles', '__pycache__')]
        for fn in files:
            p = os.path.join(root, fn)
            r = os.path.relpath(p, b)
            if r.startswith('meson-private') and not r.endswith('.pc'):
                continue
            if r in ('compile_commands.json',) or r.startswith('meson-logs'):
                continue
            # housekeeping files written once when the directory is created (only if absent), not by configuration proper
            if r in ('.gitignore', '.hgignore', 'CACHEDIR.TAG'):
                continue
            try:
                if os.path.islink(p) or os.path.getsize(p) > 4_000_000:
                    continue
                with open(p, 'rb') as f:
                    data = f.read()
            except OSError:
                continue
            if b'\0' in data[:4096]:
                continue
            out[r] = data
    return out


def run_corpus(job: T.Tuple[T.Any, ...]) -> dict:
    """One project of the repository's test corpus: cold configurations under PYTHONHASHSEED 0/1/2 (the latter two with
    shuffled env and readdir order) in one fixed path; every generated text file must be byte-identical."""
    srcdir, root, idx = job[:3]
    if len(job) > 3 and time.time() > job[3]:
        return {'corpus': os.path.basename(srcdir), 'problems': [], 'compared': 0, 'skipped': 'time budget', 'runs': 0}
    base = os.path.join(root, f'c{idx}')
    src, b = os.path.join(base, 'src'), os.path.join(base, 'b')
    res: T.Dict[str, T.Any] = {'corpus': os.path.basename(srcdir), 'problems': [], 'compared': 0, 'skipped': None, 'runs': 0}
    try:
        shutil.copytree(srcdir, src, symlinks=True)
    except (OSError, shutil.Error) as e:
        res['skipped'] = f'copy failed: {e}'
        return res
    ref: T.Optional[T.Dict[str, bytes]] = None
    for hs in (0, 1, 2):
        shutil.rmtree(b, ignore_errors=True)
        # some corpus projects write into their source tree at configure time: start every run from a pristine copy
        shutil.rmtree(src, ignore_errors=True)
        shutil.copytree(srcdir, src, symlinks=True)
        env = runner.base_env()
        env['PYTHONHASHSEED'] = str(hs)
        how = {'PYTHONHASHSEED': hs, 'env_order': 'natural', 'readdir': 'natural'}
        if hs:
            items = list(env.items())
            random.Random(idx * 10 + hs).shuffle(items)
            env = dict(items)
            env['MESON_VERIF'] = '1'
            env['MESON_VERIF_MONITORS'] = f'readdir_shuffle:{idx + hs}'
            env['PYTHONPATH'] = runner.INJECT_DIR
            how.update(env_order='shuffled', readdir='shuffled')
        rc = runner.meson_cold(['setup', b, src], cwd=src, env=env, timeout=240)
        if rc.timed_out or rc.rc != 0:
            if ref is None:
                res['skipped'] = 'does not configure here: ' + (rc.out + rc.err)[-200:]
                break
            if rc.timed_out:
                res['skipped'] = 'timeout'
                break
            res['problems'].append({'mechanism': 'corpus/configure-outcome-differs', 'corpus': res['corpus'], 'how': how, 'tail': (rc.out + rc.err)[-400:]})
            break
        got = corpus_text_files(b)
        res['runs'] += 1
        if ref is None:
            ref = got
            continue
        for rel in sorted(set(ref) | set(got)):
            res['compared'] += 1
            if rel not in got or rel not in ref:
                res['problems'].append({'mechanism': 'corpus/file-set-differs', 'corpus': res['corpus'], 'file': rel, 'how': how})
            elif got[rel] != ref[rel]:
                locus = json_locus(rel, ref[rel], got[rel]) if rel.endswith('.json') else 'text'
                res['problems'].append({'mechanism': f'corpus/{os.path.basename(rel) if rel.startswith("meson-info") or rel == "build.ninja" else "generated-file"}/{locus}',
                                        'corpus': res['corpus'], 'file': rel, 'how': how, 'diff': first_diff(ref[rel], got[rel])})
    shutil.rmtree(base, ignore_errors=True)
    return res


def first_diff(a: bytes, b: bytes) -> T.Dict[str, T.Any]:
    la, lb = a.split(b'\n'), b.split(b'\n')
    for i, (x, y) in enumerate(zip(la, lb)):
        if x != y:
            # narrow inside long JSON lines
            j = 0
            while j < min(len(x), len(y)) and x[j] == y[j]:
                j += 1
            return {'line': i + 1, 'ref': x[max(0, j - 60):j + 100].decode('utf-8', 'replace'),
                    'got': y[max(0, j - 60):j + 100].decode('utf-8', 'replace')}
    return {'line': min(len(la), len(lb)) + 1, 'ref': f'{len(la)} lines', 'got': f'{len(lb)} lines'}


def json_locus(relpath: str, ref: bytes, got: bytes) -> str:
    """For intro JSON: name the key path where the documents first differ (mechanism classification)."""
    try:
        a, b = json.loads(ref), json.loads(got)
    except ValueError:
        return 'not-json'

    def walk(x: T.Any, y: T.Any, path: str) -> T.Optional[str]:
        if type(x) is not type(y):
            return path + ':type'
        if isinstance(x, dict):
            if list(x.keys()) != list(y.keys()):
                return path + (':key-order' if sorted(x.keys()) == sorted(y.keys()) else ':keys')
            for k in x:
                r = walk(x[k], y[k], f'{path}.{k}' if not k.startswith('/') else f'{path}.<path>')
                if r:
                    return r
            return None
        if isinstance(x, list):
            if len(x) != len(y):
                return path + ':length'
            for i, (p, q) in enumerate(zip(x, y)):
                r = walk(p, q, path + '[]')
                if r:
                    try:
                        if sorted(json.dumps(e, sort_keys=True) for e in x) == sorted(json.dumps(e, sort_keys=True) for e in y):
                            return path + ':order'
                    except TypeError:
                        pass
                    return r
            return None
        return None if x == y else path + ':value'
    return walk(a, b, '') or 'formatting'


def rid_monitor(rec: T.Callable[[dict], None]) -> None:
    """Record every destination going through replace_if_different (which outputs the mtime obligation covers)."""
    import sys as _sys
    from mesonbuild.utils import universal
    orig = universal.replace_if_different

    def wrapper(dst: str, dst_tmp: str) -> None:
        try:
            with open(dst_tmp, 'rb') as f:
                new = hashlib.sha256(f.read()).hexdigest()
            try:
                with open(dst, 'rb') as f:
                    old = hashlib.sha256(f.read()).hexdigest()
            except OSError:
                old = None
            rec({'rid': os.path.abspath(dst), 'same': old == new})
        except Exception:
            pass
        return orig(dst, dst_tmp)
    for name, mod in list(_sys.modules.items()):
        if name.startswith('mesonbuild') and getattr(mod, 'replace_if_different', None) is orig:
            setattr(mod, 'replace_if_different', wrapper)


def run_project(job: T.Tuple[T.Any, ...]) -> dict:
    pseed, root, tier, hashseeds, norders = job[:5]
    deadline: float = job[5] if len(job) > 5 else float('inf')

    def late() -> bool:
        """Wall-clock budget used up: the remaining perturbations / histories of this project are not run (and counted)."""
        if time.time() > deadline:
            res['not_run_time_budget'] = res.get('not_run_time_budget', 0) + 1
            return True
        return False

    base = os.path.join(root, f'p{pseed}')
    src, b = os.path.join(base, 'src'), os.path.join(base, 'b')
    runner.write_tree(src, gen_c06.gen_project(pseed))
    res: T.Dict[str, T.Any] = {'project': pseed, 'runs': 0, 'files_compared': 0, 'problems': [], 'skipped': None,
                               'perturbations': [], 'rid_files': 0, 'mtime_checked': 0, 'histories': 0}
    rng = random.Random(pseed)

    def fresh() -> None:
        shutil.rmtree(b, ignore_errors=True)

    def problem(mech: str, **kw: T.Any) -> None:
        res['problems'].append({'mechanism': mech, 'project': pseed, **kw})

    pc_a, pc_b = '-Dpkg_config_path=' + os.path.join(src, 'pcA'), '-Dpkg_config_path=' + os.path.join(src, 'pcB')
    OPTS = OPTS0 + [pc_b]
    fresh()
    r0 = runner.meson(['setup', b, src] + OPTS, cwd=src, monitors=[rid_monitor])
    if r0.rc != 0:
        res['skipped'] = (r0.out + r0.err)[-600:]
        shutil.rmtree(base, ignore_errors=True)
        return res
    ref = text_files(b)
    res['ref_files'] = sorted(ref)
    res['runs'] += 1

    def compare(label: str, how: dict) -> None:
        got = text_files(b)
        res['runs'] += 1
        for rel in sorted(set(ref) | set(got)):
            res['files_compared'] += 1
            if rel not in got or rel not in ref:
                problem(f'{label}/file-set-differs', file=rel, how=how)
                continue
            if got[rel] != ref[rel]:
                locus = json_locus(rel, ref[rel], got[rel]) if rel.endswith('.json') else 'text'
                problem(f'{label}/{os.path.basename(rel)}/{locus}', file=rel, how=how, diff=first_diff(ref[rel], got[rel]))

    # ---- no-change reconfigure (mtime / inode) on the reference directory --------------------
    rid = sorted({x['rid'] for x in r0.records if 'rid' in x})
    res['rid_files'] = len(rid)
    # outputs that go through replace_if_different on the unchanged tree, named independently of what the code under test
    # reports (a writer that stops using replace_if_different must not drop out of the watched set)
    static = [p for pat in ('config.h', 'tmpl.out', '*.cmake', 'meson-private/*.cmake', '*.p/*-unity*.c', 'subprojects/*/*.p/*-unity*.c') for p in glob.glob(os.path.join(b, pat))]
    res['static_watched'] = len(static)
    watched = sorted(set(rid) | set(static) | {os.path.join(b, 'build.ninja')})
    before = {}
    for p in watched:
        try:
            st = os.stat(p)
            with open(p, 'rb') as f:
                before[p] = (st.st_mtime_ns, st.st_ino, hashlib.sha256(f.read()).hexdigest())
        except OSError:
            pass
    def umask_monitor(mask: int) -> T.Callable:
        def mon(rec: T.Callable[[dict], None]) -> None:
            os.umask(mask)
        return mon

    # twice: under the umask of the original configuration, then under a different one (another session / sudo / CI)
    for label, mask in (('reconfigure-nochange', 0o022), ('reconfigure-nochange-other-umask', 0o027)):
        time.sleep(0.02)
        r1 = runner.meson(['setup', '--reconfigure', b, src], cwd=src, monitors=[rid_monitor, umask_monitor(mask)])
        if r1.rc != 0:
            problem(f'{label}/failed', tail=(r1.out + r1.err)[-500:])
            continue
        for p, (mt, ino, dg) in before.items():
            try:
                st = os.stat(p)
                with open(p, 'rb') as f:
                    dg2 = hashlib.sha256(f.read()).hexdigest()
            except OSError:
                problem(f'{label}/output-vanished', file=os.path.relpath(p, b))
                continue
            if p.endswith('build.ninja'):
                if dg2 != dg:
                    problem(f'{label}/build.ninja-content-changed', file='build.ninja')
                continue
            res['mtime_checked'] += 1
            if dg2 == dg and (st.st_mtime_ns != mt or st.st_ino != ino):
                problem(f'{label}/unchanged-output-touched', file=os.path.relpath(p, b),
                        mtime=[mt, st.st_mtime_ns], inode=[ino, st.st_ino])
        compare(label, {'history': ['setup', 'setup --reconfigure'], 'umask': oct(mask)})

    # ---- cold runs under perturbed nondeterminism sources ---------------------------------------
    for hs in hashseeds:
        for order in range(norders):
            env = runner.base_env()
            env['PYTHONHASHSEED'] = str(hs)
            for i in range(6):
                env[f'VERIF_DUMMY_{i}'] = str(i)
            how = {'PYTHONHASHSEED': hs, 'env_order': 'natural', 'readdir': 'natural'}
            if order > 0:
                items = list(env.items())
                random.Random(pseed * 1000 + hs * 10 + order).shuffle(items)
                env = dict(items)
                how['env_order'] = f'shuffled:{order}'
                env['MESON_VERIF'] = '1'
                env['MESON_VERIF_MONITORS'] = f'readdir_shuffle:{pseed + hs + order}'
                env['PYTHONPATH'] = runner.INJECT_DIR
                how['readdir'] = f'shuffled:{pseed + hs + order}'
            if res['perturbations'] and late():     # the first perturbation of a project always runs
                continue
            fresh()
            rc = runner.meson_cold(['setup', b, src] + OPTS, cwd=src, env=env)
            res['perturbations'].append(how)
            if rc.timed_out:
                res['timeouts'] = res.get('timeouts', 0) + 1
                continue
            if rc.rc != 0:
                problem('perturbed/setup-failed', how=how, tail=(rc.out + rc.err)[-500:])
                continue
            compare('perturbed', how)

    # ---- histories ending in the same options ---------------------------------------------------------
    hists = [
        ('other-options-then-back', [['setup', b, src, '-Dname=other', '-Dlvl=x', '-Dspx:sval=zzz', '-Dfeat=false', pc_b],
                                     ['setup', '--reconfigure', b, src, '-Dname=v', '-Dlvl=y', '-Dspx:sval=cmd', '-Dfeat=true']]),
        ('configure-there-and-back', [['setup', b, src] + OPTS, ['configure', b, '-Dlvl=z', '-Dname=w'],
                                      ['configure', b, '-Dlvl=y', '-Dname=v'], ['setup', '--reconfigure', b, src]]),
        ('wipe', [['setup', b, src] + OPTS, ['setup', '--wipe', b, src]]),
        # the wipe itself re-sets options that were recorded with other values
        ('wipe-with-new-values', [['setup', b, src, '-Dname=other', '-Dlvl=x', '-Dspx:sval=zzz', pc_a],
                                  ['setup', '--wipe', b, src] + OPTS]),
        # a subproject is configured for the first time by a reconfigure
        ('subproject-first-reached-by-reconfigure', [['setup', b, src] + OPTS + ['-Dwith_spy=false'],
                                                     ['setup', '--reconfigure', b, src, '-Dwith_spy=true']]),
        # the option file grows between two configurations: an option is inserted BEFORE existing ones
        ('option-inserted-then-reconfigure', [['@old-options'], ['setup', b, src, '-Dlvl=y', '-Dspx:sval=cmd', pc_b], ['@new-options'],
                                              ['setup', '--reconfigure', b, src], ['configure', b, '-Dname=v'],
                                              ['setup', '--reconfigure', b, src]]),
        # the dependency search path changes between two configurations: found dependencies are cached in coredata.dat
        ('pkg-config-path-changed', [['setup', b, src] + OPTS0 + [pc_a], ['setup', '--reconfigure', b, src, pc_b]]),
        ('pkg-config-path-changed-by-configure', [['setup', b, src] + OPTS0 + [pc_a], ['configure', b, pc_b], ['setup', '--reconfigure', b, src]]),
    ]
    if tier == 'quick':
        hists = [hists[rng.randrange(4)], hists[4], hists[5], hists[6 + rng.randrange(2)]]
    for hidx, (name, cmds) in enumerate(hists):
        if hidx > 0 and late():                     # so does its first history
            continue
        fresh()
        ok = True
        all_files = gen_c06.gen_project(pseed)
        for argv in cmds:
            if argv == ['@old-options']:
                # drop every option declared before the last one that the build files do not read at configure time
                lines = all_files['meson.options'].splitlines(True)
                runner.write_tree(src, {'meson.options': ''.join(l for l in lines if "option('name'" not in l)})
                continue
            if argv == ['@new-options']:
                runner.write_tree(src, {'meson.options': all_files['meson.options']})
                continue
            rr = runner.meson(argv, cwd=src)
            if rr.rc != 0:
                problem(f'history:{name}/command-failed', argv=argv[:3], tail=(rr.out + rr.err)[-500:])
                ok = False
                break
        if ok:
            res['histories'] += 1
            compare(f'history:{name}', {'history': [' '.join(a.replace(base, '') for a in c) for c in cmds]})
        runner.write_tree(src, {'meson.options': all_files['meson.options']})
    # ---- a configuration that was killed part-way and then recovered is one more history ----------------------------
    from vf.monitors import crash
    nkills = 1 if tier == 'quick' else 4
    fresh()
    rc0 = runner.meson(['setup', b, src] + OPTS, cwd=src, monitors=[crash.make_injector(b, 0)])
    total = max([x.get('total_ops', 0) for x in rc0.records] + [0])
    rcount = runner.meson(['setup', '--reconfigure', b, src, '-Dlvl=z'], cwd=src, monitors=[crash.make_injector(b, 0)])
    total_re = max([x.get('total_ops', 0) for x in rcount.records] + [0])
    for j in range(nkills if total and total_re else 0):
        if late():
            break
        # (a) the first setup is killed, the user runs it again (and reconfigures if meson says "already configured")
        k = rng.randint(1, total)
        fresh()
        kr = runner.meson(['setup', b, src] + OPTS, cwd=src, monitors=[crash.make_injector(b, k)])
        if kr.signal == 9:
            rr = runner.meson(['setup', b, src] + OPTS, cwd=src)
            if rr.rc != 0 or not os.path.isfile(os.path.join(b, 'build.ninja')) or 'already configured' in rr.out:
                rr = runner.meson(['setup', '--reconfigure', b, src] + OPTS, cwd=src)
            if rr.rc == 0:
                res['histories'] += 1
                res['killed_histories'] = res.get('killed_histories', 0) + 1
                compare('history:killed-setup-then-recovered', {'history': [f'setup {" ".join(OPTS0)} killed at mutation {k}/{total}', 'setup again / --reconfigure']})
            else:
                problem('history:killed-setup-then-recovered/recovery-failed', k=k, tail=(rr.out + rr.err)[-400:])
        # (b) a reconfigure towards OTHER options is killed, the user reconfigures with the reference options
        k = rng.randint(1, total_re)
        fresh()
        if runner.meson(['setup', b, src] + OPTS, cwd=src).rc != 0:
            continue
        kr = runner.meson(['setup', '--reconfigure', b, src, '-Dlvl=z', '-Dname=w'], cwd=src, monitors=[crash.make_injector(b, k)])
        if kr.signal == 9:
            rr = runner.meson(['setup', '--reconfigure', b, src] + OPTS, cwd=src)
            if rr.rc == 0:
                res['histories'] += 1
                res['killed_histories'] = res.get('killed_histories', 0) + 1
                compare('history:killed-reconfigure-then-recovered', {'history': ['setup', f'setup --reconfigure -Dlvl=z -Dname=w killed at mutation {k}/{total_re}', 'setup --reconfigure <reference options>']})
            else:
                problem('history:killed-reconfigure-then-recovered/recovery-failed', k=k, tail=(rr.out + rr.err)[-400:])
    shutil.rmtree(base, ignore_errors=True)
    return res


def main() -> int:
    chk = common.Check(PID)
    runner.preload()
    root = common.scratch_dir('c06')
    rp = os.environ.get('VERIF_REPLAY')
    if chk.tier == 'quick':
        nproj, hashseeds, norders = 10, [0, 1, 7], 2
    else:
        nproj, hashseeds, norders = 96, [0, 1, 2, 3, 4, 5, 7, 11, 13, 42, 1234, 99999], 3
    if rp:
        with open(rp, encoding='utf-8') as f:
            w = json.load(f)
        res = run_project((w['project'], root, 'thorough', hashseeds, norders))
        print(json.dumps(res['problems'][:3], indent=1)[:3000])
        if res['problems']:
            print(f'VIOLATION property={PID} replay={rp}')
            return 1
        print('replay: no difference observed')
        return 0
    budget = float(os.environ.get('VERIF_C06_BUDGET', '120' if chk.tier == 'quick' else '2700'))
    deadline = time.time() + budget
    jobs = [(chk.seed * 1000 + i, root, chk.tier, hashseeds, norders, deadline) for i in range(nproj)]
    results = common.pmap(run_project, jobs, chk.jobs, timeout=budget + 1500)
    # ---- repository corpus (test cases/common): many more meson features than the generator knows about ----------
    cdir = os.path.join(common.REPO, 'test cases', 'common')
    names = sorted(n for n in os.listdir(cdir) if os.path.isfile(os.path.join(cdir, n, 'meson.build')))
    chk.rng.shuffle(names)
    ncorpus = 14 if chk.tier == 'quick' else 160
    cjobs = [(os.path.join(cdir, n), root, i, deadline + (60 if chk.tier == 'quick' else 900)) for i, n in enumerate(names[:ncorpus])]
    for res in common.pmap(run_corpus, cjobs, chk.jobs, timeout=3400):
        if res['skipped'] is not None:
            chk.count('corpus_skipped')
            continue
        chk.count('corpus_projects')
        chk.count('monitor:corpus_files_byte_compared', res['compared'])
        chk.case(('corpus', res['corpus']))
        for p in res['problems']:
            chk.violation(p['mechanism'], {k: v for k, v in p.items() if k != 'mechanism'})
    for res in results:
        if res['skipped'] is not None:
            chk.count('projects_skipped_configure_failed')
            chk.notes.setdefault('skipped', []).append(res['skipped'][-200:])
            continue
        chk.count('projects')
        chk.count('configurations_compared', res['runs'])
        chk.count('monitor:files_byte_compared', res['files_compared'])
        chk.count('monitor:replace_if_different_outputs', res['rid_files'])
        chk.count('monitor:mtime_inode_checked', res['mtime_checked'])
        chk.count('histories_compared', res['histories'])
        chk.count('histories_with_a_killed_command_compared', res.get('killed_histories', 0))
        chk.count('watchdog_timeouts', res.get('timeouts', 0))
        chk.count('perturbations_or_histories_not_run_time_budget', res.get('not_run_time_budget', 0))
        for how in res['perturbations']:
            chk.case((res['project'], how))
        for p in res['problems']:
            chk.violation(p['mechanism'], {k: v for k, v in p.items() if k != 'mechanism'})
    for res in results[:2]:
        chk.sample({'project': res['project'], 'files': res.get('ref_files'), 'perturbations': res['perturbations'][:3]})
    chk.require('projects', 4)
    chk.require('monitor:files_byte_compared', 200)
    chk.require('monitor:mtime_inode_checked', 4)
    chk.require('histories_compared', 4)
    chk.require('corpus_projects', 1)
    return chk.finish(
        rule='case = (generated C project, perturbation {PYTHONHASHSEED, env insertion order, readdir order}) configured cold in one fixed '
             'absolute path and byte-compared with the reference; plus histories and a no-change reconfigure per project; distinct = distinct (project, perturbation)',
        assumptions=['same absolute source/build paths across runs; same tools', 'mtime obligation applies to files that go through replace_if_different',
                     'readdir perturbation = shuffled os.listdir/os.scandir results (an order the OS may legitimately return)'])


if __name__ == '__main__':
    sys.exit(main())
