"""C08 — option state persists faithfully across the build-directory lifecycle (history + executable model).

Seeded histories of lifecycle commands (each a separate forked meson process, so everything goes through
coredata.dat / cmd_line.txt) are run on a scratch project with a subproject; after EVERY step the effective
value of every option is read back with the real coredata.load + optstore.get_value_for (vf/optprobe.py) and
compared with the reference lifecycle model (vf/ref/reflifecycle.py); get_option() messages of successful
(re)configurations are compared too; the predicted success/failure of every command is compared with the exit
status (failures must be clean MesonExceptions).

Workload dimensions beyond the step kinds: option VALUES from a hostile alphabet (vf/gen/gen_c08.py; own random stream) for
string / free array options, top-level and per-subproject, which therefore pass through every reader of the recorded
command line (configure / reconfigure rewrite it, --wipe and a late subproject re-derive from it); option files that end
up with ZERO option() calls while they keep existing, and get options again (stratified first edits + directed scripts);
BUILTIN options whose handling is special at the first configuration (prefix, the directory options, buildtype,
default_library ...; reference table L.GLOBALS) given - in every spelling: -Dname=value, --name=value, --name value, --flag - to
the command that CREATES the configuration and then to nobody, to later commands, or not at all, and observed (option store,
get_option(), recorded command line) after every later step, --wipe above all;
failures injected at three stages (error() in the build file, backend, postconf script at the very end) after any number of
successful saves.  Coverage cells (`cell:*`) say which of these a run compared; the deciding ones are required.
"""
from __future__ import annotations

import configparser
import copy
import json
import os
import random
import re
import shutil
import sys
import typing as T

from vf import common, runner, optprobe
from vf.ref import reflifecycle as L
from vf.gen import gen_c08 as G

PID = 'C08'


def initial_files() -> T.Tuple[L.Files, L.Files]:
    top = {
        's': L.Spec('s', 'string', 's0'),
        'b': L.Spec('b', 'boolean', 'false'),
        'i': L.Spec('i', 'integer', '5', min=0, max=100),
        'c': L.Spec('c', 'combo', 'a', choices=['a', 'b', 'c']),
        'arr': L.Spec('arr', 'array', 'x', choices=['x', 'y', 'z']),
        'f': L.Spec('f', 'feature', 'auto'),
        'tags': L.Spec('tags', 'array', 'a', choices=None),
        'y': L.Spec('y', 'string', 'ytop'),
        'yc': L.Spec('yc', 'combo', 'a', choices=['a', 'b', 'c']),
        'ds': L.Spec('ds', 'string', 'ds0'),
        'z': L.Spec('z', 'integer', '-2', min=-20, max=20),
    }
    sub = {
        'dt': L.Spec('dt', 'string', 'dt0'),
        't': L.Spec('t', 'string', 't0'),
        'k': L.Spec('k', 'combo', 'p', choices=['p', 'q', 'r']),
        'j': L.Spec('j', 'integer', '3', min=0, max=50),
        'y': L.Spec('y', 'string', 'ysub', yielding=True),
        'yc': L.Spec('yc', 'combo', 'b', choices=['a', 'b', 'c'], yielding=True),
    }
    return top, sub


def initial_dopts() -> T.Dict[str, T.Dict[str, str]]:
    """default_options: of the project() calls (never name an option that an edit adds later)."""
    return {'': {'warning_level': '2', 'ds': 'dsdo'}, 'sub': {'werror': 'true', 'dt': 'dtdo'}, 'late': {'unity_size': '8', 'lv': 'lvdo'}}


def late_files() -> L.Files:
    """Option file of the subproject that is only reached while use_late is true."""
    return {'lv': L.Spec('lv', 'string', 'lv0'), 'lc': L.Spec('lc', 'combo', 'p', choices=['p', 'q', 'r'])}


def _do(d: T.Mapping[str, str]) -> str:
    return (', default_options: [' + ', '.join(f"'{k}={v}'" for k, v in d.items()) + ']') if d else ''


def render_project(m: L.Model) -> T.Dict[str, str]:
    top, sub = m.files[''], m.files['sub']
    bi = list(L.BUILTINS)
    t = ["project('p', meson_version: '>=1.1'%s)" % _do(m.dopts[''])]
    for n in list(top) + bi + list(L.GLOBALS):
        t.append(f"message('OPT {n}=@0@'.format(get_option('{n}')))")
    t.append("subproject('sub')")
    if 'late' in m.files:
        t.append("if get_option('use_late')\n  subproject('late')\nendif")
    t.append("if import('fs').exists(meson.current_source_dir() / 'FAIL')\n  error('injected configuration failure')\nendif")
    # a failure that only the backend detects, i.e. AFTER coredata has been dumped (needs the .prev restore path)
    t.append("if import('fs').exists(meson.current_source_dir() / 'FAIL2')\n"
             "  custom_target('dup1', output: 'dup.out', command: ['true'])\n"
             "  custom_target('dup2', output: 'dup.out', command: ['true'])\nendif")
    # a failure at the very end of a (re)configuration: coredata, build.dat, the recorded command line and the introspection
    # files have all been written when a postconf script fails
    t.append("meson.add_postconf_script('sh', '-c', 'test ! -e \"$MESON_SOURCE_ROOT/FAIL3\"')")
    s = ["project('sub', meson_version: '>=1.1'%s)" % _do(m.dopts['sub'])]
    for n in list(sub) + bi:
        s.append(f"message('OPT sub:{n}=@0@'.format(get_option('{n}')))")
    out = {
        'meson.build': '\n'.join(t) + '\n',
        'meson.options': ''.join(sp.decl() + '\n' for sp in top.values()),
        'subprojects/sub/meson.build': '\n'.join(s) + '\n',
        'subprojects/sub/meson.options': ''.join(sp.decl() + '\n' for sp in sub.values()),
    }
    # a project that declares nothing may also have NO option file at all (m.absent: the file is deleted, not emptied)
    absent = getattr(m, 'absent', set())
    # an option file that is still there but has no option() call left: blank, or only comments
    blank = getattr(m, 'blank', {})
    if not top:
        out['meson.options'] = blank.get('', '')
    if not sub:
        out['subprojects/sub/meson.options'] = blank.get('sub', '')
    if '' in absent and not top:
        out['meson.options'] = None     # type: ignore
    if 'sub' in absent and not sub:
        out['subprojects/sub/meson.options'] = None     # type: ignore
    if 'late' in m.files:
        lt = ["project('late', meson_version: '>=1.1'%s)" % _do(m.dopts.get('late', {}))]
        for n in list(m.files['late']) + bi:
            lt.append(f"message('OPT late:{n}=@0@'.format(get_option('{n}')))")
        out['subprojects/late/meson.build'] = '\n'.join(lt) + '\n'
        out['subprojects/late/meson.options'] = ''.join(sp.decl() + '\n' for sp in m.files['late'].values())
    return out


class Gen:
    """Seeded history generator steering by the model (so that steps are legal) while staying hostile."""

    def __init__(self, rng: random.Random, nsteps: int, hr: T.Optional[random.Random] = None, p_hostile: float = 0.0) -> None:
        self.rng = rng
        self.nsteps = nsteps
        self.uid = 0
        # own random stream for the hostile value alphabet: the main stream (and with it the shape of every history of
        # earlier versions of this check) stays what it was
        self.hr = hr or random.Random(0)
        self.p_hostile = p_hostile

    def fresh(self, prefix: str = 'v') -> str:
        self.uid += 1
        return f'{prefix}{self.uid}'

    def value_for(self, spec: L.Spec, valid: bool = True) -> str:
        r = self.rng
        if spec.kind == 'string':
            v = '' if (valid and r.random() < 0.12) else self.fresh()
            if v and self.hr.random() < self.p_hostile:
                v = G.hostile_string(self.hr)
            return v
        if spec.kind == 'boolean':
            return r.choice(['true', 'false']) if valid else 'maybe'
        if spec.kind == 'integer':
            lo = spec.min if spec.min is not None else 0
            hi = spec.max if spec.max is not None else lo + 1000
            if valid:
                return str(r.choice([lo, hi, 0]) if (r.random() < 0.2 and lo <= 0 <= hi) else r.randint(lo, hi))
            x = r.random()
            if x < 0.4 or spec.min is None:
                return str(hi + r.randint(1, 9)) if x < 0.8 else 'notanint'
            return str(lo - r.randint(1, 9)) if x < 0.8 else 'notanint'
        if spec.kind == 'combo':
            return r.choice(spec.choices or ['?']) if valid else 'zzz'
        if spec.kind == 'feature':
            return r.choice(['enabled', 'disabled', 'auto']) if valid else 'yes'
        if spec.kind == 'array':
            if valid and r.random() < 0.12:
                return ''       # -Dopt= : the empty array
            if spec.choices is None:
                v = ','.join(self.fresh('e') for _ in range(r.randint(1, 3)))
                if self.hr.random() < self.p_hostile:
                    v = G.hostile_array(self.hr)
                return v
            ch = spec.choices or []
            if not valid:
                return 'nochoice'
            if not ch:
                return ''
            k = r.randint(1, len(ch))
            return L.fmt_items(r.sample(ch, k)) or ''
        raise AssertionError

    def assignable_keys(self, m: L.Model, files_view: bool) -> T.List[str]:
        src = m.files if files_view else m.st.applied
        ks = []
        for sub in ('', 'sub'):
            for n, sp in src[sub].items():
                if n == 'use_late':
                    continue        # only ever switched on, by late_extra()
                if m.st.configured:
                    # an option whose declaration was edited but not yet re-read: whether the same command may
                    # already set it by the new declaration differs between configure and reconfigure and is not
                    # documented -> not generated
                    ap = m.st.applied[sub].get(n)
                    if ap is None or ap.constraints() != sp.constraints():
                        continue
                ks.append(L.key(sub, n))
        ks += ['warning_level', 'sub:warning_level', 'werror', 'sub:werror', 'unity_size']
        return ks

    def assignment(self, m: L.Model, n: int, p_invalid: float, p_unknown: float) -> T.Dict[str, str]:
        r = self.rng
        out: T.Dict[str, str] = {}
        # the command re-reads the option files first: assign against what is on disk now
        keys = self.assignable_keys(m, True)
        for _ in range(n):
            if r.random() < p_unknown:
                out[r.choice(['nope', 'sub:nope'])] = 'x'
                continue
            k = r.choice(keys)
            sub, _, name = k.rpartition(':')
            if name in L.BUILTINS:
                b = L.BUILTINS[name]
                spec = L.Spec(name, b['kind'], b['default'], b.get('choices'), b.get('min'), b.get('max'))
            else:
                spec = m.files[sub][name]
            out[k] = self.value_for(spec, valid=r.random() >= p_invalid)
        return out

    def late_extra(self, m: L.Model, kind: str, assign: T.Dict[str, str], r: random.Random) -> None:
        """Options of / the switch for the late subproject.  `-Dlate:x=v` for a subproject the build directory does not know
        yet is only accepted by a first configuration (setup, --wipe); afterwards only once `late` has been configured."""
        if 'late' not in m.files:
            return
        if r.random() < 0.22:
            assign['use_late'] = 'true'
        if (kind in ('setup', 'wipe') or m.st.late) and r.random() < 0.3:
            k = r.choice(['late:lv', 'late:lc', 'late:warning_level', 'late:unity_size', 'late:lv'])
            sub, _, name = k.rpartition(':')
            if name in L.BUILTINS:
                b = L.BUILTINS[name]
                spec = L.Spec(name, b['kind'], b['default'], b.get('choices'), b.get('min'), b.get('max'))
            else:
                spec = m.files['late'][name]
            assign[k] = self.value_for(spec)

    def edit_directed(self, m: L.Model, what: str) -> T.Dict[str, T.Any]:
        if what == 'remove-parent-y':
            del m.files['']['y']
            return {'edit': 'remove', 'sub': '', 'name': 'y'}
        if what == 'shrink-sub-yc':
            m.files['sub']['yc'].choices = ['a', 'b']
            return {'edit': 'shrink', 'sub': 'sub', 'name': 'yc', 'removed': 'c'}
        if what == 'extend-top-yc':
            m.files['']['yc'].choices = ['a', 'b', 'c', 'd']
            return {'edit': 'extend', 'sub': '', 'name': 'yc', 'added': 'd'}
        if what == 'new-defaults-s-i':
            m.files['']['s'].default = 'snew'
            m.files['']['i'].default = '77'
            return {'edit': 'change-default', 'sub': '', 'name': 's,i', 'default': 'snew,77'}
        if what == 'restrict-tags':
            m.files['']['tags'].choices = ['k1', 'k2']
            m.files['']['tags'].default = 'k1'
            return {'edit': 'add-choices', 'sub': '', 'name': 'tags', 'choices': ['k1', 'k2'], 'default': 'k1'}
        if what == 'unrestrict-arr':
            m.files['']['arr'].choices = None
            return {'edit': 'remove-choices', 'sub': '', 'name': 'arr'}
        if what == 'grow-top':
            self.__dict__['directed_snap'] = copy.deepcopy(m.files[''])
            m.files['']['extra'] = L.Spec('extra', 'string', 'dflt')
            m.files['']['c'].choices = list(m.files['']['c'].choices or []) + ['d']
            return {'edit': 'add', 'sub': '', 'name': 'extra,c', 'kind': 'string+extend'}
        if what == 'revert-top':
            # the file is again byte for byte what it was when the directory was set up
            m.files[''].clear()
            m.files[''].update(self.__dict__['directed_snap'])
            return {'edit': 'revert', 'sub': '', 'name': 'c', 'removed': ['extra']}
        if what in ('empty-sub', 'empty-top'):
            # the option file stays where it is but loses every option() call
            sub = 'sub' if what == 'empty-sub' else ''
            names = list(m.files[sub])
            for n in names:
                del m.files[sub][n]
                m.dopts[sub].pop(n, None)
            m.blank[sub] = G.empty_option_file(self.hr)     # type: ignore
            return {'edit': 'remove-all', 'sub': sub, 'name': ','.join(names) or '-', 'file': 'kept:' + repr(m.blank[sub])}     # type: ignore
        if what in ('refill-sub', 'refill-top'):
            # ... and gets options again (new names: re-adding a removed name is not generated, see assumptions)
            sub = 'sub' if what == 'refill-sub' else ''
            sfx = 's' if sub else 't'
            m.files[sub]['nt' + sfx] = L.Spec('nt' + sfx, 'string', 'nd' + sfx)
            m.files[sub]['nk' + sfx] = L.Spec('nk' + sfx, 'combo', 'm', choices=['l', 'm', 'n'])
            return {'edit': 'add', 'sub': sub, 'name': f'nt{sfx},nk{sfx}', 'kind': 'string+combo'}
        raise AssertionError(what)

    def edit(self, m: L.Model) -> T.Dict[str, T.Any]:
        r = self.rng
        fk = self.__dict__.get('force_kind')
        if isinstance(fk, str) and fk.startswith('remove-all:'):
            # stratification: the option file of this (sub)project keeps existing but ends up with ZERO option() calls
            self.__dict__.pop('force_kind')
            sub = '' if fk.endswith(':top') else 'sub'
            f = m.files[sub]
            self.__dict__.setdefault('snaps', {'': [], 'sub': []})[sub].append(copy.deepcopy(f))
            names = [n for n in f if n != 'use_late']
            for n in names:
                del f[n]
                m.dopts[sub].pop(n, None)
            m.blank[sub] = G.empty_option_file(self.hr)     # type: ignore
            return {'edit': 'remove-all', 'sub': sub, 'name': ','.join(names) or '-', 'file': 'kept:' + repr(m.blank[sub])}     # type: ignore
        sub = r.choice(['', 'sub'])
        f = m.files[sub]
        snaps = self.__dict__.setdefault('snaps', {'': [], 'sub': []})[sub]
        # the option file goes BACK to exactly an earlier text (an undone edit): never one that would re-add a removed name
        cands_back = [sn for sn in snaps if set(sn) <= set(f) and {n: (sp.kind, sp.default, sp.choices, sp.min, sp.max) for n, sp in sn.items()}
                      != {n: (sp.kind, sp.default, sp.choices, sp.min, sp.max) for n, sp in f.items()}]
        if cands_back and r.random() < 0.3:
            sn = cands_back[-1] if r.random() < 0.7 else r.choice(cands_back)
            removed = [n for n in f if n not in sn]
            for n in removed:
                m.dopts[sub].pop(n, None)
            f.clear()
            f.update(copy.deepcopy(sn))
            getattr(m, 'absent', set()).discard(sub)
            return {'edit': 'revert', 'sub': sub, 'name': ','.join(sorted(sn)) or '-', 'removed': removed}
        snaps.append(copy.deepcopy(f))
        del snaps[:-4]
        kinds = ['add', 'change-default', 'shrink', 'extend', 'range', 'add-choices', 'remove-choices']
        if len(f) > 1:
            kinds.append('remove')
        if m.dopts[sub] and r.random() < 0.12:
            # the default_options: of project() are rewritten: no effect before the next --wipe
            name = r.choice(sorted(m.dopts[sub]))
            if name in L.BUILTINS:
                b = L.BUILTINS[name]
                val = self.value_for(L.Spec(name, b['kind'], b['default'], b.get('choices'), b.get('min'), b.get('max')))
            else:
                val = self.fresh('do')
            m.dopts[sub][name] = val
            return {'edit': 'default-options', 'sub': sub, 'name': name, 'value': val}
        if f and r.random() < 0.12:
            # hostile: the option file ends up declaring nothing at all
            # in the subproject really everything goes (zero declarations left); at top level the parents of the
            # yielding options go too in one case out of three (known finding: children keep a stale parent)
            keep = () if (sub == 'sub' or r.random() < 0.33) else ('y', 'yc')
            names = [n for n in f if n not in keep and n != 'use_late']
            for n in names:
                del f[n]
                m.dopts[sub].pop(n, None)
            if not f and r.random() < 0.5:
                m.absent.add(sub)      # type: ignore  # the file is deleted instead of emptied
            elif not f:
                m.blank[sub] = G.empty_option_file(self.hr)     # type: ignore
            return {'edit': 'remove-all', 'sub': sub, 'name': ','.join(names) or '-'}
        suits = {
            'shrink': lambda sp: sp.kind in ('combo', 'array') and sp.choices is not None and len(sp.choices) > 1,
            'extend': lambda sp: sp.kind in ('combo', 'array') and sp.choices is not None,
            'range': lambda sp: sp.kind == 'integer',
            'add-choices': lambda sp: sp.kind == 'array' and sp.choices is None,
            'remove-choices': lambda sp: sp.kind == 'array' and sp.choices is not None,
        }
        for attempt in range(10):
            kind = r.choice(kinds)
            forced = self.__dict__.pop('force_kind', None) if attempt == 0 else None
            if forced in kinds:
                # stratification: every kind of edit is the first edit of some history (see main)
                kind = forced
                if kind in suits and not any(suits[kind](sp) for n, sp in f.items() if n not in ('y', 'yc', 'use_late')):
                    other = 'sub' if sub == '' else ''
                    if any(suits[kind](sp) for sp in m.files[other].values()):
                        sub, f = other, m.files[other]
            if kind == 'add':
                name = self.fresh('n')
                k = r.choice(['string', 'boolean', 'integer', 'combo'])
                spec = {'string': L.Spec(name, 'string', self.fresh('d')), 'boolean': L.Spec(name, 'boolean', r.choice(['true', 'false'])),
                        'integer': L.Spec(name, 'integer', '7', min=0, max=20), 'combo': L.Spec(name, 'combo', 'm', choices=['l', 'm', 'n'])}[k]
                f[name] = spec
                return {'edit': 'add', 'sub': sub, 'name': name, 'kind': k}
            cands = [n for n in f if n not in ('y', 'yc', 'use_late') and (kind not in suits or suits[kind](f[n]))]
            if not cands:
                continue
            name = r.choice(cands)
            sp = f[name]
            if kind == 'remove':
                del f[name]
                m.dopts[sub].pop(name, None)    # a default_options: entry for an option that no longer exists is an error
                return {'edit': 'remove', 'sub': sub, 'name': name}
            if kind == 'change-default':
                if sp.kind == 'string':
                    sp.default = self.fresh('d')
                elif sp.kind == 'boolean':
                    sp.default = 'true' if sp.default == 'false' else 'false'
                elif sp.kind == 'integer':
                    sp.default = self.value_for(sp)
                elif sp.kind in ('combo', 'feature'):
                    sp.default = self.value_for(sp)
                else:
                    sp.default = self.value_for(sp)
                return {'edit': 'change-default', 'sub': sub, 'name': name, 'default': sp.default}
            if kind == 'shrink' and sp.kind in ('combo', 'array') and sp.choices is not None and len(sp.choices) > 1:
                # hostile: prefer to remove the value currently in effect
                cur = None
                k = L.key(sub, name)
                if m.st.configured and name in m.st.applied[sub]:
                    cur = m.value(k)
                ch = list(sp.choices or [])
                victim = None
                if cur is not None and r.random() < 0.7:
                    for c in (L.items(cur) if sp.kind == 'array' else [cur]):
                        if c in ch:
                            victim = c
                            break
                if victim is None:
                    victim = r.choice(ch)
                ch.remove(victim)
                sp.choices = ch
                if any(d not in ch for d in (L.items(sp.default) if sp.kind == 'array' else [sp.default])):
                    sp.default = L.fmt_items([ch[0]]) or '' if sp.kind == 'array' else ch[0]
                return {'edit': 'shrink', 'sub': sub, 'name': name, 'removed': victim, 'default': sp.default}
            if kind == 'add-choices' and sp.kind == 'array' and sp.choices is None:
                k = L.key(sub, name)
                cur = L.items(m.value(k)) if (m.st.configured and name in m.st.applied[sub] and m.value(k)) else []
                ch = [self.fresh('ch'), self.fresh('ch')]
                if cur and r.random() < 0.4:
                    ch += cur               # the value in effect stays valid
                elif cur:
                    ch += cur[1:]           # hostile: one item of the value in effect is no longer allowed
                sp.choices = ch
                if any(d not in ch for d in L.items(sp.default)):
                    sp.default = ch[0]
                return {'edit': 'add-choices', 'sub': sub, 'name': name, 'choices': ch, 'default': sp.default}
            if kind == 'remove-choices' and sp.kind == 'array' and sp.choices is not None:
                sp.choices = None
                return {'edit': 'remove-choices', 'sub': sub, 'name': name}
            if kind == 'extend' and sp.kind in ('combo', 'array') and sp.choices is not None:
                new = self.fresh('ch')
                sp.choices = list(sp.choices or []) + [new]
                return {'edit': 'extend', 'sub': sub, 'name': name, 'added': new}
            if kind == 'range' and sp.kind == 'integer':
                k = L.key(sub, name)
                cur = int(m.value(k)) if (m.st.configured and name in m.st.applied[sub]) else int(sp.default)
                if r.random() < 0.3 and cur != 0 and (sp.min is None or sp.min <= 0) and (sp.max is None or sp.max >= 0):
                    # the range now ENDS exactly at 0, on the side that excludes the current value
                    if cur > 0:
                        sp.max = 0
                    else:
                        sp.min = 0
                elif r.random() < 0.6:
                    # exclude the current value
                    if cur - 1 >= (sp.min or 0) and r.random() < 0.5:
                        sp.max = cur - 1
                    else:
                        sp.min = cur + 1
                        if sp.max is not None and sp.max < sp.min:
                            sp.max = sp.min + 10
                else:
                    sp.max = (sp.max or 100) + 10
                if not sp.valid(sp.default):
                    lo2, hi2 = sp.min, sp.max
                    sp.default = str(lo2 if lo2 is not None else hi2 if hi2 is not None else 0)
                return {'edit': 'range', 'sub': sub, 'name': name, 'min': sp.min, 'max': sp.max, 'default': sp.default}
        name = self.fresh('n')
        f[name] = L.Spec(name, 'string', self.fresh('d'))
        return {'edit': 'add', 'sub': sub, 'name': name, 'kind': 'string'}


def flags(assign: T.Mapping[str, str], unset: T.Sequence[str] = (), spell: T.Optional[T.Mapping[str, str]] = None) -> T.List[str]:
    """The command-line words for the assignments; spell: builtin option -> 'long=' | 'long ' | 'flag' (default -Dname=value)."""
    out: T.List[str] = []
    for k, v in assign.items():
        sp = (spell or {}).get(k, 'D')
        if sp == 'long=':
            out.append(f'{L.long_spelling(k)}={v}')
        elif sp == 'long ':
            out += [L.long_spelling(k), v]
        elif sp == 'flag':
            assert v == 'true'
            out.append(L.long_spelling(k))
        else:
            out.append(f'-D{k}={v}')
    return out + [f'-U{k}' for k in unset]


def choose_spelling(rx: random.Random, m: L.Model, assign: T.Mapping[str, str]) -> T.Dict[str, str]:
    """Dedicated spellings for the builtin options of this command (top-level keys only, valid values only: the argument
    parser itself rejects an unknown choice, which is not the failure path these histories are about)."""
    out: T.Dict[str, str] = {}
    for k, v in assign.items():
        if k in L.ALL_BUILTINS:
            spec = m._spec_for(k, m.files)
            if spec is not None and spec.valid(v) and not v.startswith('-') and not (spec.kind == 'integer' and not v.lstrip('-').isdigit()):
                sp = G.spelling(rx, spec.kind, v)
                if sp != 'D':
                    out[k] = sp
    return out


_MSG = re.compile(r'^(?:\w+\| )?Message: OPT ([\w:]+)=(.*)$', re.M)


def msg_form(spec_kind: str, v: str) -> str:
    if spec_kind == 'array':
        return '[' + ', '.join("'" + x + "'" for x in L.items(v)) + ']'
    return v


def kind_of(m: L.Model, k: str) -> str:
    sub, _, name = k.rpartition(':')
    if name in L.BUILTINS or (not sub and name in L.GLOBALS):
        return L.ALL_BUILTINS[name]['kind']
    sp = m.st.applied[sub].get(name)
    return sp.kind if sp else '?'


def key_class(m: L.Model, k: str) -> str:
    sub, _, name = k.rpartition(':')
    if name in L.BUILTINS:
        return 'builtin-augment' if sub else 'builtin'
    if not sub and name in L.GLOBALS:
        return 'builtin-prefix' if name == 'prefix' else 'builtin-prefix-derived-default' if name in L.PREFIX_DEPENDENT else \
            'builtin-directory' if name.endswith('dir') else 'builtin-core'
    sp = m.st.applied[sub].get(name)
    if sub and sp is not None and sp.yielding:
        return 'sub-yielding'
    return ('sub-' if sub else 'top-') + (sp.kind if sp else 'unknown')


_TAME = set('abcdefghijklmnopqrstuvwxyzABCDEFGHIJKLMNOPQRSTUVWXYZ0123456789_.,-')


def is_hostile(v: str) -> bool:
    return any(c not in _TAME for c in v)


def hostile_classes(v: str) -> T.List[str]:
    """Which classes of the hostile alphabet a value given on a command line contains (coverage cells)."""
    if not is_hostile(v):
        return []
    out = []
    tests = [('blank-then-hash', lambda: re.search(r'\s#', v)), ('blank-then-semicolon', lambda: re.search(r'\s;', v)),
             ('hash', lambda: '#' in v), ('semicolon', lambda: ';' in v), ('equals', lambda: '=' in v), ('colon', lambda: ':' in v),
             ('percent', lambda: '%' in v), ('quote', lambda: "'" in v or '"' in v), ('bracket', lambda: any(c in v for c in '[](){}')),
             ('comma-inside-array-element', lambda: v.startswith('[') and any(',' in x for x in _safe_items(v))),
             ('backslash', lambda: '\\' in v), ('tab-or-blank-run', lambda: '\t' in v or '  ' in v),
             ('non-ascii', lambda: any(ord(c) > 127 for c in v)), ('outer-blank', lambda: v != v.strip()),
             ('line-break', lambda: '\n' in v or '\r' in v)]
    for name, t in tests:
        if t():
            out.append(name)
    return out or ['other-punctuation']


def _safe_items(v: str) -> T.List[str]:
    try:
        return L.items(v)
    except (AssertionError, ValueError):
        return []


def classify_record_difference(step: T.Mapping[str, T.Any], expect_ok: bool, got: T.Optional[T.Mapping[str, str]],
                               exp: T.Mapping[str, str]) -> T.Optional[str]:
    """Narrow mechanisms for a recorded command line (meson-private/cmd_line.txt) that differs from what the user gave."""
    cr = [k for k, v in exp.items() if '\r' in v]
    if cr and (got is None or all(got.get(k) == exp[k].split('\r')[0].rstrip() for k in cr)):
        # the file cannot be parsed at all (or, read leniently, the value ends at the carriage return)
        return 'recorded-command-line/carriage-return-in-value-makes-file-unparseable'
    if got is None:
        return None
    if set(got) == set(exp):
        diff = [k for k in exp if got[k] != exp[k]]
        if diff and all(exp[k] != exp[k].strip() and got[k] == exp[k].strip() and '\n' not in exp[k] for k in diff):
            # exactly the value without the blanks it begins / ends with
            return 'recorded-command-line/outer-blanks-of-value-lost'
    a = step.get('assign') or {}
    missing = sorted(k for k in exp if k not in got)
    if expect_ok and missing and all(k in a for k in missing) and all(got.get(k) == v for k, v in exp.items() if k not in missing) \
            and set(got) <= set(exp):
        # everything is recorded except options this very command was given
        cls = sorted({('prefix' if k == 'prefix' else 'builtin' if k.rpartition(':')[2] in L.ALL_BUILTINS else 'project-option') for k in missing})
        return f'{step.get("step")}/recorded-command-line-lacks-option-given-to-this-command/' + '+'.join(cls)
    if step.get('step') == 'reconfigure' and not expect_ok and step.get('failure_kind') == 'FAIL3' and a \
            and dict(got) == {**exp, **a}:
        # the failed command's own -D options are in the file, everything else is as expected
        return 'reconfigure-failed/postconf-stage/recorded-command-line-keeps-rejected-values'
    return None


def monitors(rec: T.Callable[[dict], None]) -> None:
    """Count the persistence paths a command exercised (evidence)."""
    from mesonbuild import coredata, cmdline, options
    counts: T.Dict[str, int] = {}

    def wrap(obj: T.Any, name: str, label: str) -> None:
        orig = getattr(obj, name)

        def w(*a: T.Any, **kw: T.Any) -> T.Any:
            counts[label] = counts.get(label, 0) + 1
            return orig(*a, **kw)
        setattr(obj, name, w)
    wrap(coredata, 'save', 'coredata.save')
    wrap(cmdline, 'write_cmd_line_file', 'cmdline.write')
    wrap(cmdline, 'update_cmd_line_file', 'cmdline.update')
    wrap(options.OptionStore, 'update_project_options', 'optstore.update_project_options')
    wrap(coredata.CoreData, 'set_from_configure_command', 'coredata.set_from_configure_command')
    runner.at_child_exit(lambda rec2: rec2({'paths': counts}))
    import atexit
    atexit.register(lambda: rec({'paths': counts}))


FORCE_KINDS = ['shrink', 'extend', 'range', 'add-choices', 'remove-choices', 'change-default', 'remove', 'add']
# (forced first edits, job options): the option file of the subproject / of both projects / of the top-level project (the
# subproject then has no option file at all: a yielding child whose parent vanishes is a known finding) declares nothing any more
FORCE_ZERO: T.List[T.Tuple[T.List[str], T.Dict[str, T.Any]]] = [
    (['remove-all:sub'], {}),
    (['remove-all:sub', 'remove-all:top'], {'late': False}),
    (['remove-all:top'], {'late': False, 'sub_absent': True}),
]

_HS = 'x # y ; z = w : v %(q)s "d" [b] ü'
# wave 7: (script, job options)
DIRECTED_W7: T.List[T.Tuple[T.List[T.Dict[str, T.Any]], T.Dict[str, T.Any]]] = [
    # values from the hostile alphabet go through every path that reads the recorded command line back: meson configure and
    # setup --reconfigure (read + rewrite), setup --wipe (re-derivation), a --wipe after the file was rewritten
    ([{'kind': 'setup', 'assign': {'s': _HS, 'tags': "['p,q', 'r #s ; t=u']", 'sub:t': "it's ; 100% #1", 'y': '@H'}},
      {'kind': 'configure', 'assign': {'i': '9'}}, {'kind': 'reconfigure'}, {'kind': 'wipe'}, {'kind': 'reconfigure'},
      {'kind': 'configure', 'assign': {'sub:t': '@H', 'tags': '@HA', 'sub:y': '@H'}}, {'kind': 'wipe'}, {'kind': 'reconfigure', 'assign': {'ds': '@H'}},
      {'kind': 'wipe', 'assign': {'s': '@H'}}], {}),
    ([{'kind': 'setup', 'assign': {'s': '@H', 'tags': '@HA', 'sub:t': '@H', 'sub:dt': '@H'}}, {'kind': 'wipe'},
      {'kind': 'configure', 'assign': {'warning_level': '3'}}, {'kind': 'wipe'}], {}),
    # a subproject that is configured for the first time by a later reconfigure takes the value the user once gave from the
    # recorded command line
    ([{'kind': 'setup', 'assign': {'late:lv': '@H', 's': '@H'}}, {'kind': 'configure', 'assign': {'tags': '@HA'}},
      {'kind': 'reconfigure', 'assign': {'use_late': 'true'}}, {'kind': 'reconfigure'}, {'kind': 'wipe'}], {'late': True}),
    # option files that lose every option() call while they keep existing - and get options again
    ([{'kind': 'setup', 'assign': {'s': 'first', 'sub:k': 'q'}}, {'kind': 'configure', 'assign': {'sub:t': 'tv'}}, {'kind': 'edit', 'what': 'empty-sub'},
      {'kind': 'reconfigure'}, {'kind': 'configure', 'assign': {'werror': 'true'}}, {'kind': 'edit', 'what': 'refill-sub'}, {'kind': 'reconfigure'},
      {'kind': 'configure', 'assign': {'sub:nts': 'back'}}, {'kind': 'reconfigure'}], {}),
    ([{'kind': 'setup', 'assign': {}}, {'kind': 'edit', 'what': 'empty-sub'}, {'kind': 'edit', 'what': 'empty-top'},
      {'kind': 'reconfigure'}, {'kind': 'configure', 'assign': {'werror': 'true'}}, {'kind': 'edit', 'what': 'refill-top'},
      {'kind': 'reconfigure'}, {'kind': 'configure', 'assign': {'ntt': 'val'}}, {'kind': 'wipe'}, {'kind': 'reconfigure'}], {'late': False}),
    ([{'kind': 'setup', 'assign': {}}, {'kind': 'edit', 'what': 'empty-sub'}, {'kind': 'edit', 'what': 'empty-top'},
      {'kind': 'configure', 'assign': {'unity_size': '9'}}, {'kind': 'reconfigure'}, {'kind': 'edit', 'what': 'refill-sub'},
      {'kind': 'configure', 'assign': {'werror': 'true'}}, {'kind': 'configure', 'assign': {'sub:nks': 'n'}}, {'kind': 'wipe'}], {'late': False}),
    ([{'kind': 'setup', 'assign': {'i': '8'}}, {'kind': 'edit', 'what': 'empty-top'}, {'kind': 'reconfigure'},
      {'kind': 'configure', 'assign': {'warning_level': '3'}}, {'kind': 'edit', 'what': 'refill-top'}, {'kind': 'configure', 'assign': {'warning_level': '2'}},
      {'kind': 'configure', 'assign': {'nkt': 'l'}}, {'kind': 'reconfigure'}], {'late': False, 'sub_absent': True}),
    # a reconfiguration that fails AFTER coredata was dumped, once later commands have saved: what comes back is the state
    # before the failing command, not the state of the first setup (backend stage, and postconf stage at the very end)
    ([{'kind': 'setup', 'assign': {'i': '2'}}, {'kind': 'configure', 'assign': {'i': '4', 'c': 'c'}},
      {'kind': 'reconfigure', 'assign': {}, 'inject': 'FAIL2'}, {'kind': 'reconfigure'},
      {'kind': 'reconfigure', 'assign': {'i': '7', 'sub:k': 'r'}}, {'kind': 'reconfigure', 'assign': {'c': 'b'}, 'inject': 'FAIL2'},
      {'kind': 'reconfigure'}, {'kind': 'configure', 'assign': {'s': 'late'}}, {'kind': 'reconfigure', 'assign': {}, 'inject': 'FAIL3'},
      {'kind': 'reconfigure'}, {'kind': 'wipe'}], {}),
    ([{'kind': 'setup', 'assign': {}}, {'kind': 'reconfigure', 'assign': {'b': 'true', 'warning_level': '3'}},
      {'kind': 'reconfigure', 'assign': {}, 'inject': 'FAIL3'}, {'kind': 'configure', 'assign': {'sub:werror': 'false'}},
      {'kind': 'reconfigure', 'assign': {}, 'inject': 'FAIL2'}, {'kind': 'reconfigure'}], {}),
]

# wave 8: builtin options given to the command that creates the configuration - in their dedicated spellings - and never again
_W8_SPELL = {'prefix': 'long=', 'libdir': 'long ', 'buildtype': 'long=', 'default_library': 'long ', 'werror': 'flag', 'warning_level': 'long=',
             'unity_size': 'long=', 'strip': 'flag'}
DIRECTED_W8: T.List[T.Tuple[T.List[T.Dict[str, T.Any]], T.Dict[str, T.Any]]] = [
    ([{'kind': 'setup', 'assign': {'prefix': '/usr', 'libdir': 'lib64', 'buildtype': 'release', 'default_library': 'static', 'werror': 'true',
                                   'warning_level': '3', 'unity_size': '6', 'strip': 'true', 's': 'given'}, 'spell': _W8_SPELL},
      {'kind': 'configure', 'assign': {'b': 'true'}}, {'kind': 'reconfigure', 'assign': {'i': '9'}}, {'kind': 'wipe'}, {'kind': 'wipe'},
      {'kind': 'reconfigure'}], {}),
    ([{'kind': 'setup', 'assign': {'prefix': '/tmp/st age/x #1;y=%(z)s', 'mandir': 'share/man 2', 'sysconfdir': 'cfg', 'unity': 'subprojects'}},
      {'kind': 'wipe'}, {'kind': 'configure', 'assign': {'prefix': '/usr', 'bindir': 'bin2'}, 'spell': {'prefix': 'long ', 'bindir': 'long='}},
      {'kind': 'reconfigure'}, {'kind': 'wipe'}, {'kind': 'reconfigure', 'assign': {'prefix': '/usr/local'}}, {'kind': 'wipe'}], {}),
    ([{'kind': 'setup', 'assign': {'prefix': '/usr/local', 'datadir': 'dat', 'stdsplit': 'false'}, 'spell': {'prefix': 'long ', 'datadir': 'long='}},
      {'kind': 'reconfigure', 'assign': {'c': 'b'}, 'inject': 'FAIL2'}, {'kind': 'configure', 'assign': {'sub:werror': 'false'}},
      {'kind': 'reconfigure', 'assign': {}, 'inject': 'FAIL3'}, {'kind': 'wipe', 'assign': {'includedir': 'inc'}, 'spell': {'includedir': 'long='}},
      {'kind': 'wipe'}], {'late': False}),
    ([{'kind': 'setup', 'assign': {'prefix': '/opt/only-here', 'late:lv': 'x'}, 'spell': {'prefix': 'long='}},
      {'kind': 'reconfigure', 'assign': {'use_late': 'true'}}, {'kind': 'wipe'}, {'kind': 'configure', 'assign': {'buildtype': 'minsize'},
                                                                                 'spell': {'buildtype': 'long='}}, {'kind': 'wipe'}], {'late': True}),
]

# directed probes of the known findings of this wave (each is re-observed on every run; see known_findings.d/C08.json)
KNOWN_PROBES: T.List[T.Tuple[T.List[T.Dict[str, T.Any]], T.Dict[str, T.Any]]] = [
    ([{'kind': 'setup', 'assign': {'s': ' lead', 'sub:t': 'trail '}}, {'kind': 'wipe'}, {'kind': 'reconfigure'}], {}),
    ([{'kind': 'setup', 'assign': {'s': 'a\rb'}}, {'kind': 'configure', 'assign': {'i': '9'}}, {'kind': 'wipe'}], {}),
    ([{'kind': 'setup', 'assign': {'s': 'one'}}, {'kind': 'configure', 'assign': {'s': 'two'}},
      {'kind': 'reconfigure', 'assign': {'s': 'three', 'i': '3'}, 'inject': 'FAIL3'}, {'kind': 'reconfigure'}, {'kind': 'wipe'}], {}),
]


def run_history(job: T.Tuple[T.Any, ...]) -> dict:
    seed, nsteps, root, replay_steps = job[:4]
    # kinds of option-file edit that happen (in this order) to the freshly configured directory before any other command
    forced_edits: T.List[str] = ([job[4]] if isinstance(job[4], str) else list(job[4] or [])) if len(job) > 4 else []
    opts: T.Dict[str, T.Any] = dict(job[5]) if len(job) > 5 and job[5] else {}
    rng = random.Random(seed)
    hr = random.Random((seed * 2654435761) ^ 0xC0813)
    gen = Gen(rng, nsteps, hr, 0.0 if replay_steps is not None else 0.5)
    # own stream for the builtin options of a command and their spelling (the other streams stay what they were)
    rx = random.Random((seed * 40503) ^ 0x6B08)
    bcount = [0]
    # builtin options the user gave to the command that created the configuration and has not given again since
    first_only: T.Set[str] = set()

    def builtin_extra(assign: T.Dict[str, str], first: bool) -> T.Dict[str, str]:
        """Adds builtin options to the command's assignments (in place) and returns the spelling of every builtin in it."""
        bcount[0] += 5
        for k, v in G.builtin_assignment(rx, L.GLOBALS, first, bcount[0]).items():
            assign.setdefault(k, v)
        return choose_spelling(rx, m, assign)
    top, sub = initial_files()
    # two histories out of three have default_options: in both project() calls (own random stream: the histories of earlier
    # versions of this check stay what they were)
    r2 = random.Random(seed ^ 0xD0)
    with_late = r2.random() < 0.6
    if 'late' in opts:
        with_late = bool(opts['late'])
    if with_late:
        top['use_late'] = L.Spec('use_late', 'boolean', 'false')
    m = L.Model(top, sub, initial_dopts() if r2.random() < 0.67 else None, late_files() if with_late else None)
    base = os.path.join(root, f'h{seed}')
    src, b = os.path.join(base, 'src'), os.path.join(base, 'b')
    res: T.Dict[str, T.Any] = {'seed': seed, 'steps': [], 'problems': [], 'paths': {}, 'checked_values': 0, 'checked_msgs': 0,
                               'kinds': {}, 'cells': {}}
    m.absent = set()        # type: ignore  # (sub)projects whose option file does not exist while they declare nothing
    m.blank = {}            # type: ignore  # text of an option file that exists but declares nothing
    saves_since_first_setup = 0     # successful saving commands after the one that created the configuration
    sub_absent = (replay_steps is None and not with_late and r2.random() < 0.25)
    if 'sub_absent' in opts:
        sub_absent = bool(opts['sub_absent'])
    if sub_absent:
        # the subproject has no option file to begin with (it may get one later through an 'add' edit)
        m.files['sub'].clear()
        m.dopts['sub'].pop('dt', None)
        m.absent.add('sub')     # type: ignore

    def write_files() -> None:
        files = render_project(m)
        for rel in [k for k, v in files.items() if v is None]:
            files.pop(rel)
            try:
                os.unlink(os.path.join(src, rel))
            except OSError:
                pass
        runner.write_tree(src, files)

    write_files()

    def note(kind: str) -> None:
        res['kinds'][kind] = res['kinds'].get(kind, 0) + 1

    def cell(name: str) -> None:
        res['cells'][name] = res['cells'].get(name, 0) + 1

    last_edit: T.Dict[str, str] = {}
    redeclared_parents: T.Set[str] = set()   # top-level options whose constraints changed since the store was created
    script = list(replay_steps or [])
    for stepno in range(nsteps if not script else len(script)):
        r = rng.random()
        st = m.st
        m_record_before = dict(st.record)
        step: T.Dict[str, T.Any]
        forced = script[stepno] if script else None
        # ---- choose a step -------------------------------------------------------------
        if not m.tree_exists or (not st.configured and not st.record and not m.tree_exists):
            kind = 'setup'
        elif not st.configured:
            # after a failed first setup: set up again; after a failed wipe: fix things and wipe again
            kind = 'wipe' if st.record or os.path.isfile(os.path.join(b, 'meson-private', 'cmd_line.txt')) else 'setup'
            if kind == 'wipe' and r < 0.5:
                kind = 'restore-and-wipe'
        elif forced is not None:
            kind = forced['kind']
        elif forced_edits:
            # the first thing that happens to the configured directory is an edit of this kind
            kind = 'edit'
            gen.force_kind = forced_edits.pop(0)     # type: ignore
        elif r < 0.22:
            kind = 'edit'
        elif r < 0.50:
            kind = 'configure'
        elif r < 0.83:
            kind = 'reconfigure'
        else:
            kind = 'wipe'
        for flag in ('FAIL', 'FAIL2', 'FAIL3'):
            if os.path.exists(os.path.join(src, flag)):
                os.unlink(os.path.join(src, flag))
        expect_ok = True
        late_before = m.st.late
        argv: T.List[str] = []
        if kind == 'edit':
            e = gen.edit_directed(m, forced['what']) if forced is not None else gen.edit(m)
            write_files()
            for nm in e['name'].split(','):
                last_edit[L.key(e['sub'], nm)] = e['edit']
            if e['sub'] == '' and e['edit'] in ('shrink', 'extend', 'range', 'add-choices', 'remove-choices'):
                redeclared_parents.add(e['name'])
            step = {'step': 'edit', **e}
            res['steps'].append(step)
            note('edit:' + e['edit'])
            continue
        if forced is not None and kind != 'edit':
            # '@H' / '@HA': a value drawn from the hostile alphabet (string / array spelling)
            fa = {k: (G.hostile_string(hr) if v == '@H' else G.hostile_array(hr) if v == '@HA' else v)
                  for k, v in forced.get('assign', {}).items()}
            inject_f = bool(forced.get('inject'))
        spell: T.Dict[str, str] = dict(forced.get('spell', {})) if forced is not None and kind != 'edit' else {}
        if kind == 'setup' and forced is not None:
            expect_ok = m.setup(fa, inject_f)
            argv = ['setup', b, src] + flags(fa, spell=spell)
            step = {'step': 'setup', 'assign': fa, 'inject_failure': inject_f}
        elif kind == 'configure' and forced is not None:
            fu = list(forced.get('unset', []))
            expect_ok = m.configure(fa, fu)
            argv = ['configure', b] + flags(fa, fu, spell)
            step = {'step': 'configure', 'assign': fa, 'unset': fu}
        elif kind == 'reconfigure' and forced is not None:
            expect_ok = m.reconfigure(fa, inject_f)
            argv = ['setup', '--reconfigure', b, src] + flags(fa, spell=spell)
            step = {'step': 'reconfigure', 'assign': fa, 'inject_failure': inject_f}
        elif kind == 'wipe' and forced is not None:
            expect_ok = m.wipe(inject_f, fa)
            argv = ['setup', '--wipe', b, src] + flags(fa, spell=spell)
            step = {'step': 'wipe', 'inject_failure': inject_f, 'restored': False, 'assign': fa}
        elif kind == 'setup':
            assign = gen.assignment(m, rng.randint(0, 4), 0.12, 0.05)
            gen.late_extra(m, 'setup', assign, r2)
            inject = rng.random() < 0.1
            spell = builtin_extra(assign, True)
            expect_ok = m.setup(assign, inject)
            argv = ['setup', b, src] + flags(assign, spell=spell)
            step = {'step': 'setup', 'assign': assign, 'inject_failure': inject}
        elif kind == 'configure':
            assign = gen.assignment(m, rng.randint(1, 3), 0.12, 0.04)
            unset = []
            gen.late_extra(m, 'configure', assign, r2)
            overrides = [k for k in ('sub:warning_level', 'sub:werror') if k in m.st.user]
            if m.st.late:
                overrides += [k for k in ('late:warning_level', 'late:unity_size') if k in m.st.user]
            if overrides and rng.random() < 0.6:
                # -U of an override that does not exist is rejected by meson (documents silent): only existing ones
                unset = [rng.choice(overrides)]
                if rng.random() < 0.5:
                    assign = {}
            assign = {k: v for k, v in assign.items() if k not in unset}
            if not assign and not unset:
                assign = {'warning_level': rng.choice(['0', '1', '2', '3'])}
            spell = builtin_extra(assign, False)
            expect_ok = m.configure(assign, unset)
            argv = ['configure', b] + flags(assign, unset, spell)
            step = {'step': 'configure', 'assign': assign, 'unset': unset}
        elif kind == 'reconfigure':
            assign = gen.assignment(m, rng.randint(0, 3), 0.1, 0.12)
            gen.late_extra(m, 'reconfigure', assign, r2)
            inject = rng.random() < 0.15
            spell = builtin_extra(assign, False)
            expect_ok = m.reconfigure(assign, inject)
            argv = ['setup', '--reconfigure', b, src] + flags(assign, spell=spell)
            step = {'step': 'reconfigure', 'assign': assign, 'inject_failure': inject}
        else:
            if kind == 'restore-and-wipe':
                # make the recorded command line valid again by restoring the initial option files + recorded names
                t0, s0 = initial_files()
                for subn, f0 in (('', t0), ('sub', s0)):
                    for n, sp in f0.items():
                        m.files[subn].setdefault(n, sp)
                        cur = m.files[subn][n]
                        if cur.kind in ('combo', 'array'):
                            cur.choices = None if (cur.choices is None or sp.choices is None) else sorted(set(cur.choices) | set(sp.choices))
                        if cur.kind == 'integer':
                            cur.min, cur.max = -1000, 1000
                write_files()
            inject = rng.random() < 0.1
            wassign: T.Dict[str, str] = {}
            if m.st.configured and rng.random() < 0.4:
                # options given together with --wipe must beat the recorded command line
                wassign = gen.assignment(m, rng.randint(1, 2), 0.0, 0.0)
                rec_old = sorted(k for k in m.st.record if k not in L.GLOBALS)      # (the choice earlier versions made)
                if rec_old and rng.random() < 0.6:
                    k = rng.choice(rec_old)
                    subn, _, name = k.rpartition(':')
                    spec = m._spec_for(k, m.files) if (name in L.BUILTINS or name in m.files.get(subn, {})) else None
                    if spec is not None:
                        wassign[k] = gen.value_for(spec)
            if m.st.configured:
                gen.late_extra(m, 'wipe', wassign, r2)
            spell = builtin_extra(wassign, False)
            expect_ok = m.wipe(inject, wassign)
            argv = ['setup', '--wipe', b, src] + flags(wassign, spell=spell)
            step = {'step': 'wipe', 'inject_failure': inject, 'restored': kind == 'restore-and-wipe', 'assign': wassign}
            inject = inject
        if step.get('inject_failure'):
            if forced is not None:
                step['failure_kind'] = forced['inject']
            else:
                step['failure_kind'] = rng.choice(['FAIL', 'FAIL2'])
                if step['failure_kind'] == 'FAIL2' and hr.random() < 0.5:
                    step['failure_kind'] = 'FAIL3'      # same stage class (after coredata was dumped), at the very end
            open(os.path.join(src, step['failure_kind']), 'w').close()
        record_before = dict(m_record_before)
        if spell:
            step['spell'] = spell
        for k, v in step.get('assign', {}).items():
            if k in L.ALL_BUILTINS:
                cell(f'builtin-given:{step["step"]}:{key_class(m, k) if k in L.GLOBALS else "builtin"}:spelled-' + spell.get(k, 'D').strip().replace('=', '-eq'))
        note(step['step'] + (':expected-fail' if not expect_ok else ''))
        if m.st.late and not late_before and expect_ok:
            note('late-subproject-first-configured-by:' + step['step'] + ('+recorded-options' if any(k.startswith('late:') for k in m.st.record) else ''))
        for k, v in step.get('assign', {}).items():
            for c in hostile_classes(v):
                cell(f'hostile-value-given:{c}:' + ('per-subproject' if ':' in k else 'top-level'))
        rr = runner.meson(argv, cwd=src, monitors=[monitors])
        saved_now = 0
        for rec in rr.records:
            for k, v in rec.get('paths', {}).items():
                res['paths'][k] = max(res['paths'].get(k, 0), 0) + v
            saved_now = max(saved_now, rec.get('paths', {}).get('coredata.save', 0))
        step['rc'] = rr.rc
        step['expect_ok'] = expect_ok
        res['steps'].append(step)

        def problem(mech: str, **kw: T.Any) -> None:
            res['problems'].append({'mechanism': mech, 'seed': seed, 'stepno': stepno, 'step': step,
                                    'history': res['steps'][:], **kw})
        if rr.timed_out:
            res['timeout'] = True
            break
        if rr.traceback or rr.rc not in (0, 1):
            tail = (rr.out + rr.err)[-800:]
            pending_yield_edit = any(k in last_edit for k in ('sub:y', 'sub:yc'))
            if pending_yield_edit and "'NoneType' object has no attribute 'value'" in tail:
                problem('lifecycle/yielding/own-declaration-changed-crashes', tail=tail)
            elif 'configparser.ParsingError' in tail and 'cmd_line.txt' in tail and any('\r' in v for v in record_before.values()):
                problem('recorded-command-line/carriage-return-in-value-makes-file-unparseable', tail=tail[-500:])
            else:
                problem(f'{step["step"]}/internal-error', tail=tail)
            break
        if (rr.rc == 0) != expect_ok:
            problem(f'{step["step"]}/' + ('unexpected-failure' if expect_ok else 'unexpected-success'),
                    tail=(rr.out + rr.err)[-800:])
            break
        # ---- compare values --------------------------------------------------------------
        if m.st.configured:
            exp = m.expected()
            keys = []
            for k in exp:
                subn, _, name = k.rpartition(':')
                keys.append((name, (subn or ('' if name not in L.ALL_BUILTINS else None))))
            gone = m.vanished()
            for k in gone:
                subn, _, name = k.rpartition(':')
                keys.append((name, subn or ''))
            got = optprobe.read_options(b, keys)
            if '__load_error__' in got:
                problem(f'{step["step"]}/coredata-unreadable', detail=got['__load_error__'])
                break
            bad = False
            have = got.get('__project_options__')
            if isinstance(have, list):
                res['checked_values'] += 1
                want = sorted(L.key(subn, n) for subn in m.st.applied for n in m.st.applied[subn])
                extra = sorted(set(have) - set(want))
                if extra:
                    problem(f'{step["step"]}/project-option-nobody-declared', extra=extra[:6])
                    break
            for k in gone:
                res['checked_values'] += 1
                if not (isinstance(got.get(k), dict) and 'error' in got[k]):
                    problem(f'{step["step"]}/removed-option-still-present', key=k, got=got.get(k))
                    bad = True
                    break
            if expect_ok:
                if step['step'] == 'setup':
                    first_only.clear()
                    first_only.update(k for k in step.get('assign', {}) if k in L.GLOBALS)
                else:
                    first_only.difference_update(step.get('assign', {}))
            for k, e in exp.items():
                if bad:
                    break
                if e is None:
                    res['not_comparable_no_documented_default'] = res.get('not_comparable_no_documented_default', 0) + 1
                    continue
                if k in L.GLOBALS:
                    given = 'given-at-first-setup-only' if k in first_only else 'given-later' if k in m.st.record else 'never-given'
                    cell(f'builtin-compared:{key_class(m, k)}:{given}:after-{step["step"]}' + ('' if expect_ok else '-failed'))
                    if k in first_only and step['step'] == 'wipe' and expect_ok:
                        res['first_only_after_wipe'] = res.get('first_only_after_wipe', 0) + 1
                        if k == 'prefix':
                            res['first_only_prefix_after_wipe'] = res.get('first_only_prefix_after_wipe', 0) + 1
                    if k in L.PREFIX_DEPENDENT and k not in m.st.record and 'prefix' in m.st.record and step['step'] == 'wipe' and expect_ok:
                        res['derived_after_wipe'] = res.get('derived_after_wipe', 0) + 1
                g = L.norm(got.get(k))
                if kind_of(m, k) == 'array' and isinstance(got.get(k), list):
                    # element lists are compared (two spellings of one array are one value)
                    g, e = list(got[k]), L.items(e)
                res['checked_values'] += 1
                if is_hostile(exp[k]) and k not in L.GLOBALS:
                    cell('hostile-value-compared-after:' + step['step'] + ('' if expect_ok else '-failed'))
                    if step['step'] == 'wipe' and expect_ok and k in m.st.record:
                        res['hostile_rederived'] = res.get('hostile_rederived', 0) + 1
                if g != e and key_class(m, k) == 'sub-yielding' and k not in m.st.user \
                        and k.split(':')[1] not in m.st.applied['']:
                    problem('lifecycle/yielding/parent-removed-still-yields-stale-value', key=k, got=got.get(k), expected=e)
                    bad = True
                    break
                if g != e and key_class(m, k) == 'sub-yielding' and k not in m.st.user \
                        and k.split(':')[1] in redeclared_parents:
                    problem('lifecycle/yielding/parent-redeclared-child-follows-stale-object', key=k, got=got.get(k), expected=e)
                    bad = True
                    break
                if g != e:
                    problem(f'{step["step"]}{"" if expect_ok else "-failed"}/value-mismatch/{key_class(m, k)}'
                            + (f'/after-{last_edit[k]}' if k in last_edit else ''),
                            key=k, got=got.get(k), expected=e)
                    bad = True
                    break
            if bad:
                break
            # which dimensions of the workload this comparison covered (evidence; required in main)
            for subn, rel in (('', 'meson.options'), ('sub', 'subprojects/sub/meson.options')):
                if not m.files[subn] and os.path.isfile(os.path.join(src, rel)) and not m.st.applied[subn]:
                    cell('state-compared-with-zero-option-file:' + (subn or 'top') + ':after-' + step['step'])
                    res['zero_file_states'] = res.get('zero_file_states', 0) + 1
            if step['step'] == 'reconfigure' and not expect_ok and step.get('failure_kind') in ('FAIL2', 'FAIL3'):
                cell(f'late-failure-compared:{step["failure_kind"]}:saves-since-first-setup={min(saves_since_first_setup, 3)}')
                if saves_since_first_setup:
                    res['late_failure_after_saves'] = res.get('late_failure_after_saves', 0) + 1
            if rr.rc == 0 and step['step'] in ('setup', 'reconfigure', 'wipe'):
                seen = dict(_MSG.findall(rr.out))
                for k, e in exp.items():
                    if e is None:
                        continue
                    if k in seen and (e != e.strip() or '\n' in e or '\r' in e):
                        # a log line cannot show blanks at its end or a line break inside the value
                        res['msgs_not_comparable'] = res.get('msgs_not_comparable', 0) + 1
                        continue
                    if k in seen:
                        res['checked_msgs'] += 1
                        if seen[k] != msg_form(kind_of(m, k), e):
                            problem(f'{step["step"]}/get_option-mismatch/{key_class(m, k)}', key=k, got=seen[k], expected=e)
                            bad = True
                            break
                if bad:
                    break
            # the recorded command line is persisted state too: it is what the next --wipe re-derives the configuration from
            cpr = configparser.ConfigParser(delimiters=['='], allow_no_value=True, interpolation=None)
            cpr.optionxform = str  # type: ignore
            try:
                cpr.read(os.path.join(b, 'meson-private', 'cmd_line.txt'))
                rec_now = dict(cpr['options']) if cpr.has_section('options') else None
            except configparser.Error:
                rec_now = None
            res['checked_values'] += 1
            if rec_now != m.st.record:
                mech = classify_record_difference(step, expect_ok, rec_now, m.st.record)
                problem(mech or f'{step["step"]}{"" if expect_ok else "-failed"}/recorded-command-line-differs',
                        got=rec_now, expected=m.st.record)
                break
            if rr.rc == 0:
                for k in list(last_edit):
                    last_edit.pop(k)
                if step['step'] in ('setup', 'wipe'):
                    redeclared_parents.clear()
                    saves_since_first_setup = 0
                elif saved_now:
                    saves_since_first_setup += 1
        else:
            # unconfigured after a failed first setup or a failed wipe
            if step['step'] == 'wipe' and m.st.record:
                cp = configparser.ConfigParser(delimiters=['='], allow_no_value=True, interpolation=None)
                cp.optionxform = str  # type: ignore
                try:
                    cp.read(os.path.join(b, 'meson-private', 'cmd_line.txt'))
                    recorded = dict(cp['options']) if cp.has_section('options') else None
                except configparser.Error:
                    recorded = None
                if recorded != m.st.record:
                    problem('wipe-failed/recorded-command-line-lost', got=recorded, expected=m.st.record)
                    break
    shutil.rmtree(base, ignore_errors=True)
    return res


LITERAL_SCRIPTS = [
    # options given to --wipe are the user's last word: they beat what an earlier recorded buildtype implies
    ('wipe-explicit-beats-recorded-buildtype',
     [(['setup', '@B', '@S', '-Dbuildtype=release'], {'optimization': '3', 'debug': 'false'}),
      (['setup', '--wipe', '@B', '@S', '-Doptimization=1', '-Ddebug=true'], {'optimization': '1', 'debug': 'true'}),
      (['setup', '--wipe', '@B', '@S'], {'optimization': '1', 'debug': 'true'}),
      (['setup', '--reconfigure', '@B', '@S'], {'optimization': '1', 'debug': 'true'})]),
    ('explicit-optimization-next-to-buildtype',
     [(['setup', '@B', '@S', '-Dbuildtype=debugoptimized', '-Doptimization=s'], {'optimization': 's', 'debug': 'true'}),
      (['setup', '--reconfigure', '@B', '@S'], {'optimization': 's', 'debug': 'true'}),
      (['setup', '--wipe', '@B', '@S'], {'optimization': 's', 'debug': 'true'})]),
    # values that come from a machine file are part of what --wipe re-derives (msetup saves and restores the machine files
    # recorded in cmd_line.txt); a later command line value beats them and survives the next wipe as well
    ('machine-file-values-survive-reconfigure-and-wipe',
     [(['setup', '@B', '@S', '--native-file', '@S/nf.ini', '-Db=true'], {'s': 'from-nf', 'i': '42', 'warning_level': '3', 'b': 'true', 'c': 'a'}),
      (['setup', '--reconfigure', '@B', '@S'], {'s': 'from-nf', 'i': '42', 'warning_level': '3', 'b': 'true'}),
      (['setup', '--wipe', '@B', '@S'], {'s': 'from-nf', 'i': '42', 'warning_level': '3', 'b': 'true'}),
      (['configure', '@B', '-Ds=from-cmd', '-Dwarning_level=0'], {'s': 'from-cmd', 'i': '42', 'warning_level': '0', 'b': 'true'}),
      (['setup', '--wipe', '@B', '@S'], {'s': 'from-cmd', 'i': '42', 'warning_level': '0', 'b': 'true'}),
      (['setup', '--reconfigure', '@B', '@S', '-Di=7'], {'s': 'from-cmd', 'i': '7', 'warning_level': '0', 'b': 'true'}),
      (['setup', '--wipe', '@B', '@S'], {'s': 'from-cmd', 'i': '7', 'warning_level': '0', 'b': 'true'})]),
    # a backend option that the machine file sets: the user's later value is the last word, also across reconfigures
    ('machine-file-backend-option-then-user-value',
     [(['setup', '@B', '@S', '--native-file', '@S/nf.ini'], {'backend_max_links': '8', 's': 'from-nf'}),
      (['configure', '@B', '-Dbackend_max_links=2'], {'backend_max_links': '2'}),
      (['setup', '--reconfigure', '@B', '@S'], {'backend_max_links': '2', 's': 'from-nf'}),
      (['setup', '--reconfigure', '@B', '@S', '-Dbackend_max_links=3'], {'backend_max_links': '3'}),
      (['setup', '--reconfigure', '@B', '@S'], {'backend_max_links': '3'}),
      (['setup', '--wipe', '@B', '@S'], {'backend_max_links': '3', 's': 'from-nf'})]),
    # builtin options in their dedicated spellings, given to the first setup only: what they imply (Builtin-options.md: buildtype
    # release = optimization 3 / debug false; prefix /usr = sysconfdir /etc, localstatedir /var) is re-derived by every --wipe
    ('first-setup-builtins-survive-configure-reconfigure-wipe',
     [(['setup', '@B', '@S', '--prefix=/usr', '--libdir', 'lib64', '--buildtype=release', '--default-library', 'static', '--werror', '-Dmandir=share/man2'],
       {'prefix': '/usr', 'libdir': 'lib64', 'buildtype': 'release', 'optimization': '3', 'debug': 'false', 'default_library': 'static',
        'werror': 'true', 'mandir': 'share/man2', 'sysconfdir': '/etc', 'localstatedir': '/var', 'sharedstatedir': '/var/lib'}),
      (['configure', '@B', '-Ds=x'], {'prefix': '/usr', 'libdir': 'lib64', 'buildtype': 'release', 'default_library': 'static', 'werror': 'true'}),
      (['setup', '--reconfigure', '@B', '@S', '-Di=7'], {'prefix': '/usr', 'libdir': 'lib64', 'buildtype': 'release', 'mandir': 'share/man2'}),
      (['setup', '--wipe', '@B', '@S'],
       {'prefix': '/usr', 'libdir': 'lib64', 'buildtype': 'release', 'optimization': '3', 'debug': 'false', 'default_library': 'static',
        'werror': 'true', 'mandir': 'share/man2', 'sysconfdir': '/etc', 'localstatedir': '/var', 'sharedstatedir': '/var/lib', 's': 'x', 'i': '7'}),
      (['setup', '--wipe', '@B', '@S'], {'prefix': '/usr', 'libdir': 'lib64', 'sysconfdir': '/etc', 'default_library': 'static'})]),
    ('first-setup-D-prefix-survives-wipe',
     [(['setup', '@B', '@S', '-Dprefix=/opt/stage', '-Dbindir=tools'], {'prefix': '/opt/stage', 'bindir': 'tools', 'sysconfdir': 'etc', 'localstatedir': 'var'}),
      (['setup', '--wipe', '@B', '@S'], {'prefix': '/opt/stage', 'bindir': 'tools', 'sysconfdir': 'etc', 'localstatedir': 'var'}),
      (['setup', '--reconfigure', '@B', '@S', '-Dwerror=true'], {'prefix': '/opt/stage', 'bindir': 'tools'}),
      (['setup', '--wipe', '@B', '@S'], {'prefix': '/opt/stage', 'bindir': 'tools', 'werror': 'true'})]),
    ('configure-then-wipe-keeps-empty-values',
     [(['setup', '@B', '@S', '-Ds=first', '-Dtags=b,c'], {'s': 'first', 'tags': 'b,c'}),
      (['configure', '@B', '-Ds=', '-Dtags='], {'s': '', 'tags': ''}),
      (['setup', '--wipe', '@B', '@S'], {'s': '', 'tags': ''})]),
]


def run_literal(job: T.Tuple[int, str]) -> dict:
    """Fixed command sequences with literal expectations (values the documents fix directly)."""
    idx, root = job
    name, steps = LITERAL_SCRIPTS[idx]
    base = os.path.join(root, f'lit{idx}')
    src, b = os.path.join(base, 'src'), os.path.join(base, 'b')
    top, sub = initial_files()
    runner.write_tree(src, render_project(L.Model(top, sub)))
    runner.write_tree(src, {'nf.ini': "[project options]\ns = 'from-nf'\ni = 42\n\n[built-in options]\nwarning_level = '3'\nbackend_max_links = 8\n"})
    res: T.Dict[str, T.Any] = {'script': name, 'problems': [], 'checked': 0}
    for i, (argv, expect) in enumerate(steps):
        rr = runner.meson([a.replace('@B', b).replace('@S', src) for a in argv], cwd=src)
        if rr.rc != 0:
            res['problems'].append({'mechanism': f'literal:{name}/command-failed', 'step': i, 'argv': argv, 'tail': (rr.out + rr.err)[-500:]})
            break
        keys = [(k, '' if k in top else None) for k in expect]
        got = optprobe.read_options(b, keys)
        for k, e in expect.items():
            res['checked'] += 1
            if L.norm(got.get(k)) != e:
                res['problems'].append({'mechanism': f'literal:{name}/value-mismatch:{k}', 'step': i, 'argv': argv,
                                        'got': got.get(k), 'expected': e})
        if res['problems']:
            break
    shutil.rmtree(base, ignore_errors=True)
    return res


def build_jobs(cseed: int, tier: str, root: str) -> T.List[T.Tuple[T.Any, ...]]:
    nh, ns = (96, 10) if tier == 'quick' else (1200, 16)
    # stratified: the first 3 x 8 histories each start (after setup) with one given kind of option-file edit
    jobs: T.List[T.Tuple[T.Any, ...]] = []
    nstrat = 3 * len(FORCE_KINDS)
    for i in range(nh):
        forced: T.Any = None
        jopts: T.Optional[dict] = None
        if i < nstrat:
            forced = FORCE_KINDS[i % len(FORCE_KINDS)]
        elif i < nstrat + 2 * len(FORCE_ZERO):
            # ... and so is every way for an option file to end up with zero option() calls while it keeps existing
            forced, jopts = FORCE_ZERO[(i - nstrat) % len(FORCE_ZERO)]
        jobs.append((cseed * 100003 + i, ns, root, None, forced, jopts))
    directed = [
        # parent of a yielding option disappears: the subproject option must fall back to its own value
        [{'kind': 'setup', 'assign': {'y': 'pv'}}, {'kind': 'edit', 'what': 'remove-parent-y'}, {'kind': 'reconfigure'}],
        # the declaration of a yielding option itself changes
        [{'kind': 'setup', 'assign': {'yc': 'c'}}, {'kind': 'edit', 'what': 'shrink-sub-yc'}, {'kind': 'reconfigure'}],
        # the parent's declaration changes: the subproject must follow the parent's current value
        [{'kind': 'setup', 'assign': {'yc': 'b'}}, {'kind': 'edit', 'what': 'extend-top-yc'}, {'kind': 'reconfigure'},
         {'kind': 'configure', 'assign': {'yc': 'd'}}, {'kind': 'reconfigure'}],
        # explicit value on a yielding option equal to its own default (documented since 1.8.0), then the parent moves
        [{'kind': 'setup', 'assign': {}}, {'kind': 'configure', 'assign': {'sub:y': 'ysub'}}, {'kind': 'configure', 'assign': {'y': 'moved'}},
         {'kind': 'reconfigure'}],
    ]
    directed += [
        # the option file changes, a configure picks the change up, the file goes back to exactly its old text: the
        # next commands must see the old declarations again (the option added in between vanishes, the extra choice too)
        [{'kind': 'setup', 'assign': {}}, {'kind': 'edit', 'what': 'grow-top'}, {'kind': 'configure', 'assign': {'c': 'b'}},
         {'kind': 'edit', 'what': 'revert-top'}, {'kind': 'configure', 'assign': {'s': 'again'}}, {'kind': 'configure', 'assign': {'c': 'd'}},
         {'kind': 'reconfigure'}],
        [{'kind': 'setup', 'assign': {}}, {'kind': 'edit', 'what': 'grow-top'}, {'kind': 'configure', 'assign': {'extra': 'seen'}},
         {'kind': 'edit', 'what': 'revert-top'}, {'kind': 'configure', 'assign': {'b': 'true'}}, {'kind': 'configure', 'assign': {'i': '9'}}],
    ]
    directed += [
        # values equal to the ones in effect are still "the last value the user gave": recorded, so a --wipe after the
        # defaults changed keeps them
        [{'kind': 'setup', 'assign': {}}, {'kind': 'configure', 'assign': {'s': 's0', 'i': '5'}}, {'kind': 'edit', 'what': 'new-defaults-s-i'},
         {'kind': 'reconfigure'}, {'kind': 'wipe'}, {'kind': 'reconfigure'}],
        # an array option gains a choices list that excludes its value / loses its choices list
        [{'kind': 'setup', 'assign': {'tags': 'e1,e2'}}, {'kind': 'edit', 'what': 'restrict-tags'}, {'kind': 'reconfigure'},
         {'kind': 'configure', 'assign': {'tags': 'e1'}}, {'kind': 'configure', 'assign': {'tags': 'k2'}}],
        [{'kind': 'setup', 'assign': {'arr': 'y'}}, {'kind': 'edit', 'what': 'unrestrict-arr'}, {'kind': 'configure', 'assign': {'arr': 'anything,goes'}},
         {'kind': 'reconfigure'}],
    ]
    jobs += [(900000 + i, len(sc), root, sc) for i, sc in enumerate(directed)]
    jobs += [(2_000_000_000 + (cseed % 100000) * 100 + i, len(sc), root, sc, None, jo) for i, (sc, jo) in enumerate(DIRECTED_W7)]
    jobs += [(920000 + i, len(sc), root, sc, None, jo) for i, (sc, jo) in enumerate(KNOWN_PROBES)]
    jobs += [(930000 + i, len(sc), root, sc, None, jo) for i, (sc, jo) in enumerate(DIRECTED_W8)]
    return jobs


def main() -> int:
    chk = common.Check(PID)
    runner.preload()
    root = common.scratch_dir('c08')
    rp = os.environ.get('VERIF_REPLAY')
    if rp:
        with open(rp, encoding='utf-8') as f:
            w = json.load(f)
        # the witness names the job by its seed: rebuild exactly that job (random, stratified or directed)
        js = int(w['seed'])
        cand = [j for cs in {js // 100003, 0, max(0, js - 2_000_000_000) // 100} for t in ('quick', 'thorough')
                for j in build_jobs(cs, t, root) if j[0] == js]
        res = run_history(cand[0] if cand else (js, len(w.get('history', [])) + 40, root, None))
        print(json.dumps(res['problems'][:1], indent=1, default=repr)[:3000])
        if res['problems']:
            print(f'VIOLATION property={PID} replay={rp}')
            return 1
        print('replay: no problem observed')
        return 0
    jobs = build_jobs(chk.seed, chk.tier, root)
    results = common.pmap(run_history, jobs, chk.jobs, timeout=3000)
    for lres in common.pmap(run_literal, [(i, root) for i in range(len(LITERAL_SCRIPTS))], chk.jobs, timeout=600):
        chk.case(('literal', lres['script']))
        chk.count('monitor:literal_expectations_checked', lres['checked'])
        for p in lres['problems']:
            chk.violation(p['mechanism'], {k: v for k, v in p.items() if k != 'mechanism'})
    for res in results:
        sig = [(s['step'], s.get('edit'), s.get('expect_ok')) for s in res['steps']]
        chk.case(sig, nontrivial=len(res['steps']) >= 3)
        chk.count('steps_executed', len(res['steps']))
        chk.count('monitor:values_compared', res['checked_values'])
        chk.count('monitor:get_option_messages_compared', res['checked_msgs'])
        chk.count('get_option_messages_not_comparable_outer_blank_or_line_break', res.get('msgs_not_comparable', 0))
        if res.get('timeout'):
            chk.count('watchdog_timeouts')
        for k, v in res['kinds'].items():
            chk.count('step:' + k, v)
        for k, v in res['paths'].items():
            chk.count('persist:' + k, v)
        for k, v in res.get('cells', {}).items():
            chk.count('cell:' + k, v)
        chk.count('monitor:hostile_values_rederived_by_wipe', res.get('hostile_rederived', 0))
        chk.count('monitor:states_compared_with_zero_option_file', res.get('zero_file_states', 0))
        chk.count('monitor:late_failed_reconfigure_after_later_saves_compared', res.get('late_failure_after_saves', 0))
        chk.count('monitor:builtins_given_only_to_first_setup_compared_after_wipe', res.get('first_only_after_wipe', 0))
        chk.count('monitor:prefix_given_only_to_first_setup_compared_after_wipe', res.get('first_only_prefix_after_wipe', 0))
        chk.count('monitor:prefix_derived_directory_defaults_compared_after_wipe', res.get('derived_after_wipe', 0))
        chk.count('builtin_without_documented_default_not_compared', res.get('not_comparable_no_documented_default', 0))
        for p in res['problems']:
            chk.violation(p['mechanism'], {k: v for k, v in p.items() if k != 'mechanism'})
    for res in results[:3]:
        chk.sample({'seed': res['seed'], 'steps': res['steps'][:6]})
    chk.require('monitor:values_compared', 500)
    chk.require('monitor:get_option_messages_compared', 100)
    chk.require('persist:coredata.save', 10)
    chk.require('monitor:literal_expectations_checked', 10)
    chk.require('monitor:hostile_values_rederived_by_wipe', 5)
    chk.require('monitor:states_compared_with_zero_option_file', 4)
    chk.require('monitor:late_failed_reconfigure_after_later_saves_compared', 2)
    chk.require('monitor:builtins_given_only_to_first_setup_compared_after_wipe', 5)
    chk.require('monitor:prefix_given_only_to_first_setup_compared_after_wipe', 3)
    chk.require('monitor:prefix_derived_directory_defaults_compared_after_wipe', 3)
    return chk.finish(
        rule='case = one seeded history (setup / configure -D -U / reconfigure / wipe / option-file edits / injected failures); '
             'distinct = distinct sequences of (step kind, edit kind, expected outcome); non-trivial = at least 3 steps',
        assumptions=['reference lifecycle model = the property text (vf/ref/reflifecycle.py); option-file edits take effect at the next saving command',
                     'option values: half of the string / free array values come from a hostile alphabet (vf/gen/gen_c08.py); array values only in '
                     'the two spellings Build-options.md describes; values that begin/end with a blank or hold a line break only in directed probes',
                     'explicit values on yielding options, re-adding removed names, type changes are not generated (documents silent)',
                     'a --wipe whose recorded command line is no longer valid is expected to fail and leave the record intact'])


if __name__ == '__main__':
    sys.exit(main())
