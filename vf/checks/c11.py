"""C11 - Installation is confined to DESTDIR, exact, and reversible.

Runs the REAL `meson install` (mesonbuild.minstall via mesonmain.run, forked) on generated projects
(vf/gen/gen_c11.py) under an audit-hook monitor, with before/after snapshots of DESTDIR, source tree, build tree,
sentinel HOME/TMPDIR, and (thorough; a few in quick) `strace -f` of a cold run.  Oracles: vf/monitors/c11_audit.py.

Histories per project
  fresh      dry-run on a fresh DESTDIR; install; tree == expected; log names every created path; dry-run again;
             `meson --internal uninstall` -> pre-install snapshot
  repeat     install; install (same tree); uninstall (all non-directories gone); install; --only-changed (no copy);
             touch one source + --only-changed (exactly its destinations are copied)
  tags       install --tags T -> exactly the tagged subset; uninstall -> pre-install snapshot
  skip       install --skip-subprojects [sp] -> subset; uninstall
  kill       fault injection: the installing process is SIGKILLed at its N-th mutating event (2-3 points) and by an
             install script that runs last; the log names every file/symlink created so far (at most the one in flight
             missing), uninstall removes exactly those
  abort      fault injection: the install aborts with an error (source vanished after configure / destination occupied by
             the wrong type / last install script exits non-zero); everything created - directories too - is in the
             log and uninstall restores the pre-install snapshot
  (coincide) extra data-only projects whose absolute install dirs / prefix textually start with their DESTDIR
  (failed optional subproject) ~45% of the projects + one directed probe ask for an OPTIONAL subproject (required: false,
             dependency fallback by keyword/name/wrap [provide], version: not met) that declares install rules of every
             kind and THEN fails (error, assert, missing dependency/program, version): it is not part of the build - every
             history above expects exactly the parent's tree/log; after setup intro-install_plan.json / intro-installed.json
             must not list anything of a subproject that is not in the build
  combo      (thorough) --tags + --skip-subprojects + --quiet
  strace     (thorough; <=4 projects in quick) cold `meson install [--strip]` under strace -f: every mutating
             syscall of every process beneath DESTDIR (or meson-logs)
"""
from __future__ import annotations

import json
import os
import random
import shutil
import subprocess
import sys
import tempfile
import time
import typing as T

from vf import common, runner
from vf.gen import gen_c11 as G
from vf.monitors import c11_audit as A

PID = 'C11'
FORMS = ['env-abs', 'env-abs', 'env-abs-nested', 'env-abs-slash', 'env-abs-precreated', 'opt-abs', 'env-rel', 'opt-rel']

K_RENAME = 'data:rename-misaligned-with-preserve_path'
K_HDR = 'headers:install_dir-ignores-preserve_path'
K_WS = 'uninstall:trailing-whitespace-in-logged-name'
K_DIRLINK = 'subdir:symlink-to-directory-crashes-install'
K_RELINK = 'reinstall:copied-symlink-exists-FileExistsError'
K_DANGLE = 'data:dangling-symlink-source-with-rename-crashes'


# --------------------------------------------------------------------------------------------------------
# one project
# --------------------------------------------------------------------------------------------------------

class Ctx:
    def __init__(self, spec: dict, root: str, tier: str, deadline: float, histories: T.Sequence[str]) -> None:
        self.spec = spec
        self.S = root
        self.src = os.path.join(root, 'src')
        self.bdir = os.path.join(root, 'b')
        self.home = os.path.join(root, 'home')
        self.tmp = os.path.join(root, 'tmp')
        self.trace = os.path.join(root, 'trace')
        self.tier = tier
        self.deadline = deadline
        self.histories = histories
        self.viol: T.List[T.Tuple[str, dict]] = []
        self.cnt: T.Dict[str, int] = {}
        self.cases: T.List[str] = []
        self.inconclusive: T.List[str] = []
        self.src_snap: T.Dict[str, list] = {}
        self.build_snap: T.Dict[str, list] = {}
        self.real_pre: T.Dict[str, bool] = {}
        self.full_events = 0
        self.fixed_dest: T.Optional[str] = None   # coincide projects: the DESTDIR their install dirs were derived from
        self.history = ''
        self.step = ''
        self.form = ''

    def count(self, k: str, n: int = 1) -> None:
        self.cnt[k] = self.cnt.get(k, 0) + n

    def add(self, mech: str, w: dict) -> None:
        mech = refine(mech, w, self.spec)
        w = dict(w)
        w.update({'history': self.history, 'step': self.step, 'destdir_form': self.form,
                  'project': {'seed': self.spec['seed'], 'kind': self.spec['kind'], 'probe': self.spec.get('probe'), 'coincide': bool(self.spec.get('coincide'))}})
        self.viol.append((mech, w))

    def addall(self, vs: T.Sequence[T.Tuple[str, dict]]) -> None:
        for m, w in vs:
            self.add(m, w)

    def base_env(self) -> T.Dict[str, str]:
        return {'HOME': self.home, 'TMPDIR': self.tmp}


def refine(mech: str, w: dict, spec: dict) -> str:
    """Classifier: narrow mechanism keys for deviations whose cause is recognisable from the rule that is involved."""
    rules = spec['rules']
    ent = next((x for x in (w.get('entry'), w.get('expected')) if isinstance(x, dict)), {})
    ri = ent.get('rule')
    rule = rules[ri] if isinstance(ri, int) and 0 <= ri < len(rules) else None
    path = w.get('path', '')

    def multi_dir(r: dict) -> bool:
        return len({os.path.dirname(s) for s in r.get('srcs', [])}) > 1
    if mech.startswith(('tree:missing', 'log:', 'tree:content')) and rule and rule['kind'] == 'data' and rule.get('rename') and rule.get('preserve_path') and multi_dir(rule):
        return K_RENAME
    if mech.startswith('tree:missing') and rule and rule['kind'] == 'headers' and rule.get('install_dir') and rule.get('preserve_path'):
        return K_HDR
    if mech == 'tree:unexpected':
        base = os.path.basename(path)
        for r in rules:
            if r['kind'] == 'data' and r.get('rename') and r.get('preserve_path') and multi_dir(r) and base in [os.path.basename(x) for x in r['rename']]:
                return K_RENAME
            if r['kind'] == 'headers' and r.get('install_dir') and r.get('preserve_path') and base in [os.path.basename(s) for s in r['srcs']]:
                return K_HDR
        hint = w.get('hint')
        if hint:
            return f'{hint}'
    if mech.startswith('uninstall:leftover') and w.get('trailing_ws'):
        return K_WS
    if mech.startswith('install:internal-error:FileExistsError') and 'os.symlink(os.readlink(src), dst)' in w.get('output_tail', ''):
        return K_RELINK
    if mech.startswith('install:internal-error') and 'FileNotFoundError' in w.get('output_tail', ''):
        # a source symlink that dangles at install time is replicated under its own name, not under the `rename:` name
        import re as _re
        mm = _re.search(r"No such file or directory: '([^']*)'", w.get('output_tail', ''))
        base = os.path.basename(mm.group(1)) if mm else None
        if base and any(r['kind'] == 'data' and r.get('rename') and base in [os.path.basename(x) for x in r['rename']] for r in rules):
            return K_DANGLE
    if mech.startswith('install:internal-error:IsADirectoryError') and any(r.get('dir_symlink') for r in rules):
        return K_DIRLINK
    return mech


class Dest:
    """One DESTDIR arrangement."""

    def __init__(self, ctx: Ctx, name: str, form: str) -> None:
        self.form = form
        self.env: T.Dict[str, str] = {}
        self.args: T.List[str] = []
        self.decoy: T.Optional[str] = None
        self.precreated = False
        S = ctx.S
        if ctx.fixed_dest is not None:
            # the project was configured for this very DESTDIR (absolute dirs textually related to it)
            form = self.form = {'env-rel': 'env-abs', 'opt-rel': 'opt-abs', 'env-abs-nested': 'env-abs'}.get(form, form)
            self.container = os.path.dirname(ctx.fixed_dest)
            self.destdir = ctx.fixed_dest
            os.makedirs(self.container)
            given = self.destdir + ('/' if form == 'env-abs-slash' else '')
            if form == 'env-abs-precreated':
                os.mkdir(self.destdir, 0o755)
                os.chmod(self.destdir, 0o755)
                self.precreated = True
        elif form in ('env-rel', 'opt-rel'):
            rel = f'rel stage {name}/d'
            self.container = os.path.join(ctx.bdir, f'rel stage {name}')
            self.destdir = os.path.join(ctx.bdir, rel)
            given = rel
        else:
            self.container = os.path.join(S, f'stage-{name}')
            os.makedirs(self.container)
            if form == 'env-abs-nested':
                self.destdir = os.path.join(self.container, 'a b', 'ü')
            else:
                self.destdir = os.path.join(self.container, 'dest')
            given = self.destdir + ('/' if form == 'env-abs-slash' else '')
            if form == 'env-abs-precreated':
                os.mkdir(self.destdir, 0o755)
                os.chmod(self.destdir, 0o755)
                self.precreated = True
        if form.startswith('opt-'):
            self.args = ['--destdir', given]
            self.decoy = os.path.join(S, f'decoy-{name}')
            self.env = {'DESTDIR': self.decoy}
        else:
            self.env = {'DESTDIR': given}

    def zones(self, ctx: Ctx) -> A.Zones:
        named = {'source-tree': ctx.src, 'build-tree': ctx.bdir, 'home': ctx.home, 'tmpdir': ctx.tmp, 'scratch': ctx.S, 'system-tmp': '/tmp'}
        if self.decoy:
            named['env-DESTDIR-overridden-by---destdir'] = self.decoy
        return A.Zones(self.destdir, self.container, ctx.bdir, named)

    def cleanup(self) -> None:
        shutil.rmtree(self.container, ignore_errors=True)


def world_snapshot(ctx: Ctx, dd: Dest) -> T.Dict[str, list]:
    return A.snapshot(ctx.S, exclude=[os.path.join(ctx.bdir, 'meson-logs'), dd.container, ctx.trace])


class Obs:
    rc = 0
    ok = False
    out = ''
    records: T.List[dict] = []
    pre: T.Dict[str, list] = {}
    post: T.Dict[str, list] = {}
    dest: T.Dict[str, list] = {}
    log: T.List[str] = []
    comments: T.List[str] = []


def run_meson(ctx: Ctx, dd: Dest, argv: T.List[str], label: str, dry: bool = False, cwd: T.Optional[str] = None) -> Obs:
    """Run one meson command under the audit monitor with container/world snapshots around it; containment and
    world-unchanged are checked here for every command."""
    o = Obs()
    env = ctx.base_env()
    env.update(dd.env)
    o.pre = A.snapshot(dd.container)
    w0 = world_snapshot(ctx, dd)
    r = runner.meson(argv, cwd=cwd or ctx.S, env=env, monitors=[A.audit_monitor(label)], timeout=180)
    o.post = A.snapshot(dd.container)
    w1 = world_snapshot(ctx, dd)
    real_fs_guard(ctx, argv)
    o.rc, o.out, o.records = r.rc, r.out + r.err, r.records
    if r.timed_out:
        ctx.inconclusive.append(f'timeout:{label}')
        return o
    if not any(x.get('ev') == 'monitor-installed' for x in r.records):
        ctx.inconclusive.append(f'monitor-not-installed:{label}')
        return o
    ctx.count('monitor:commands-observed')
    if r.rc != 0 or r.traceback:
        exc = ''
        for line in reversed((r.out + r.err).splitlines()):
            line = line.strip()
            if line and line.split(':')[0].replace('.', '').isidentifier() and ('Error' in line.split(':')[0] or 'Exception' in line.split(':')[0]):
                exc = line.split(':')[0]
                break
        kind = f'install:internal-error:{exc}' if (r.traceback or 'Unhandled python' in o.out) else f'install:failed:rc={r.rc}'
        ctx.add(kind, {'argv': argv, 'rc': r.rc, 'output_tail': o.out[-1200:]})
        return o
    o.ok = True
    v, c = A.check_audit_containment(r.records, dd.zones(ctx), dry_run=dry)
    ctx.addall(v)
    ctx.count('monitor:audit-events', c['events'])
    ctx.count('monitor:audit-events-in-destdir', c['in_destdir'])
    ctx.count('monitor:audit-log-writes', c['log'])
    ctx.count('monitor:child-spawns-seen', c['spawns'])
    if c['monitor_errors']:
        ctx.inconclusive.append('audit-monitor-error')
    ctx.count('monitor:containment-checks')
    wd = A.snap_diff(w0, w1, mtime=True)
    ctx.count('monitor:world-snapshots')
    for d in wd:
        zone = dd.zones(ctx).classify(os.path.join(ctx.S, d['path']), 'snapshot') or 'allowed?'
        ctx.add(f'world:changed:{zone}', {'diff': d, 'argv': argv})
    if dd.destdir == dd.container:
        o.dest = o.post
    else:
        o.dest = A.snapshot(dd.destdir)
    o.log, o.comments = A.read_log(os.path.join(ctx.bdir, 'meson-logs', 'install-log.txt'))
    return o


def real_fs_guard(ctx: Ctx, argv: T.Sequence[str]) -> None:
    """The logical destinations themselves (outside any DESTDIR) must never appear on the real file system.
    Anything that did not exist when the project started is reported and removed again."""
    ctx.count('monitor:real-filesystem-sentinels', len(ctx.real_pre))
    hit = [lp for lp, existed in ctx.real_pre.items() if not existed and os.path.lexists(lp)]
    for lp in sorted(hit, key=len, reverse=True):
        try:
            st = os.lstat(lp)
            import stat as _stat
            if _stat.S_ISDIR(st.st_mode):
                os.rmdir(lp)
            else:
                os.unlink(lp)
        except OSError:
            pass
    for lp in sorted(hit)[:3]:
        ctx.add('escape:real-filesystem', {'path': lp, 'argv': list(argv)})


def install_argv(ctx: Ctx, dd: Dest, extra: T.Sequence[str] = ()) -> T.List[str]:
    return ['install', '-C', ctx.bdir, '--no-rebuild'] + dd.args + list(extra)


def script_leftovers(ctx: Ctx, dd: Dest, expected: T.Mapping[str, dict]) -> T.Tuple[T.Set[str], T.Set[str]]:
    """(absolute paths not named by the log, container-relative paths uninstall may leave): what install scripts made."""
    not_logged: T.Set[str] = set()
    left: T.Set[str] = set()
    for lp, e in expected.items():
        if e.get('by_script'):
            p = dd.destdir + lp
            if e['type'] != 'dir':
                # ancestors of a script-made file cannot be removed by uninstall (not empty)
                q = p
                while A.Zones.under(q, dd.container):
                    rel = os.path.relpath(q, dd.container)
                    left.add(rel)
                    if q == dd.container:
                        break
                    q = os.path.dirname(q)
            not_logged.add(p)
    if expected and all(e.get('by_script') for e in expected.values()):
        # nothing but install scripts ran: DESTDIR itself (and its missing ancestors) was made by `mkdir -p` of the script
        q = dd.destdir
        while A.Zones.under(q, dd.container):
            not_logged.add(q)
            if q == dd.container:
                break
            q = os.path.dirname(q)
    return not_logged, left


def check_installed(ctx: Ctx, dd: Dest, o: Obs, expected: T.Mapping[str, dict], optional: T.Set[str], fresh: bool,
                    stripped: bool = False, excluded_hints: T.Optional[T.Mapping[str, str]] = None,
                    tags: T.Optional[T.Sequence[str]] = None) -> None:
    umask = ctx.spec['options']['install_umask']
    root_mode = None
    if expected and fresh and not dd.precreated and umask != 'preserve':
        root_mode = 0o777 & ~int(umask, 8)
    v, c = A.check_tree(o.dest, expected, optional, ctx.src_snap, ctx.build_snap, check_root_mode=root_mode, stripped=stripped)
    ghost = ghost_hints(ctx.spec)
    for m, w in v:
        if m == 'tree:unexpected' and excluded_hints and w['path'] in excluded_hints:
            w['hint'] = excluded_hints[w['path']]
        elif m == 'tree:unexpected' and ghost:
            gp = w['path']
            hit = ghost.get(gp) or next((h for q, h in sorted(ghost.items()) if q.startswith(gp + '/') or gp.startswith(q + '/')), None)
            if hit:
                w['hint'] = hit
        if (m.startswith('tree:missing:') and tags is not None and isinstance(w.get('expected'), dict) and w['expected'].get('tag') in tags
                and refine(m, w, ctx.spec) == m):   # a narrower classifier (rule-specific cause) wins
            # the object carries one of the requested tags (explicit or documented default) and was left out
            m = 'tags:selected-but-missing:' + m.split(':', 2)[2]
            w['requested_tags'] = list(tags)
        ctx.add(m, w)
    ctx.count('monitor:tree-paths', c['paths'])
    ctx.count('monitor:tree-modes', c['modes'])
    ctx.count('monitor:tree-explicit-modes', c['explicit_modes'])
    ctx.count('monitor:tree-contents', c['contents'])
    ctx.count('monitor:tree-link-targets', c['targets'])
    ctx.count('monitor:tree-owners', c['owners'])
    ctx.count('monitor:tree-compared')
    not_logged, _ = script_leftovers(ctx, dd, expected)
    v2, c2 = A.check_log(o.log, o.pre, o.post, dd.container, not_logged)
    ctx.addall(v2)
    ctx.count('monitor:log-created-paths', c2['created'])
    ctx.count('monitor:log-names', c2['named'])
    ctx.count('monitor:log-checked')


def ghost_hints(spec: dict) -> T.Dict[str, str]:
    """Logical paths declared by an optional subproject that failed (not part of the build) -> mechanism key."""
    out: T.Dict[str, str] = {}
    for gh in spec.get('ghosts') or []:
        for e in gh['entries']:
            out[e['path']] = f'failed-subproject:rules-carried-out:{e["kind"]}'
    return out


def check_failed_subprojects(ctx: Ctx, setup_output: str) -> None:
    """After `meson setup`: every optional subproject of the generator that fails really ran up to its last rule and
    was discarded (setup went on); the install plan / installed map list nothing of a subproject that is not part of the build."""
    spec = ctx.spec
    ghosts = spec.get('ghosts') or []
    ctx.history, ctx.step, ctx.form = 'setup', 'introspection files after setup', ''
    for gh in ghosts:
        if f'{G.GHOST_MARK}:{gh["name"]}' in setup_output:
            ctx.count('monitor:failed-subproject-declared-rules-then-failed')
            ctx.count(f'failed-subproject:caller:{gh["caller"]}')
            ctx.count(f'failed-subproject:failure:{gh["failure"]}')
            ctx.count('monitor:failed-subproject-discarded-rules', len(gh['entries']))
            for k in gh['declared']:
                ctx.count(f'failed-subproject:declares:{k}')
        else:
            ctx.inconclusive.append('failed-subproject-not-reached')
    in_build = set(spec.get('subprojects_in_build') or []) | {None, ''}
    gpaths = ghost_hints(spec)
    info = os.path.join(ctx.bdir, 'meson-info')
    try:
        with open(os.path.join(info, 'intro-install_plan.json'), encoding='utf-8') as f:
            plan = json.load(f)
        with open(os.path.join(info, 'intro-installed.json'), encoding='utf-8') as f:
            installed = json.load(f)
    except (OSError, ValueError):
        ctx.inconclusive.append('install-plan-unreadable')
        return
    n = 0
    for kind, items in plan.items():
        for src, ent in items.items():
            n += 1
            sub = ent.get('subproject')
            if 'subprojects_in_build' in spec and sub not in in_build:
                ctx.add(f'install-plan:lists-subproject-not-in-build:{kind}', {'plan_kind': kind, 'source': src, 'entry': None, 'plan_entry': ent,
                                                                               'failed_subprojects': [g['name'] for g in ghosts]})
    ctx.count('monitor:install-plan-entries', n)
    # a path that a rule of the build itself also installs (the parent's install_subdir into /usr/bin next to a
    # discarded rule naming /usr/bin) says nothing about the discarded rule: only paths no live rule produces are judged
    live = {os.path.normpath(e['path']) for e in spec['entries']}
    for src, dst in installed.items():
        ctx.count('monitor:intro-installed-entries')
        lp = os.path.normpath(dst)
        if lp in live:
            ctx.count('oracle:intro-installed-destination-shared-with-a-live-rule')
            continue
        if lp in gpaths:
            ctx.add('intro-installed:' + gpaths[lp], {'source': src, 'destination': dst})
    ctx.history = ctx.step = ''


def do_uninstall(ctx: Ctx, dd: Dest, pre: T.Mapping[str, list], expected: T.Mapping[str, dict], dirs_may_remain: bool = False) -> None:
    ctx.step = 'uninstall'
    o = run_meson(ctx, dd, ['--internal', 'uninstall'], 'uninstall', cwd=ctx.bdir)
    if not o.ok:
        return
    _, left = script_leftovers(ctx, dd, expected)
    v = A.check_uninstalled(pre, o.post, left, dirs_may_remain=dirs_may_remain)
    ws = [w['path'] for m, w in v if m.startswith('uninstall:leftover') and w['object'][0] != 'dir' and w['path'] != w['path'].rstrip()]
    for m, w in v:
        if m.startswith('uninstall:leftover') and any(x == w['path'] or x.startswith(w['path'] + '/') or w['path'] == '.' for x in ws):
            w['trailing_ws'] = True
        ctx.add(m, w)
    ctx.count('monitor:uninstall-compared')


def hints_for(spec: dict, tags: T.Optional[T.Sequence[str]], skip: T.Optional[str]) -> T.Dict[str, str]:
    """Why a path that belongs to some rule is NOT expected under this selection (for the mechanism key)."""
    out: T.Dict[str, str] = {}
    for e in spec['entries']:
        if skip is not None and e['subproject'] and (skip == '*' or e['subproject'] in skip.split(',')):
            out[e['path']] = f'skip-subprojects:not-honoured:{e["kind"]}'
        elif tags is not None and e['tag'] != '?' and e['tag'] not in tags:
            out[e['path']] = f'tags:not-honoured:{e["kind"]}'
    return out


# ---- histories -------------------------------------------------------------------------------------------

def _dry_run(ctx: Ctx, dd: Dest, step: str) -> None:
    ctx.step = step
    o = run_meson(ctx, dd, install_argv(ctx, dd, ['--dry-run']), 'dry-run', dry=True)
    if o.ok:
        ctx.count('monitor:dry-run-checked')
        for d in A.snap_diff(o.pre, o.post, mtime=True, ignore_dir_mtime=False):
            ctx.add('dry-run:tree-changed', {'diff': d})


def h_fresh(ctx: Ctx, rng: random.Random, form: str) -> None:
    """dry-run on a fresh DESTDIR (nothing happens); install; exact tree; log; uninstall -> pre-install snapshot."""
    dd = Dest(ctx, 'fresh', form)
    try:
        expected, optional = G.expected_tree(ctx.spec)
        pre = A.snapshot(dd.container)
        _dry_run(ctx, dd, 'dry-run-on-fresh')
        ctx.step = 'install'
        o = run_meson(ctx, dd, install_argv(ctx, dd), 'install')
        if not o.ok:
            return
        ctx.full_events = max((r.get('seq', 0) for r in o.records), default=0)
        check_installed(ctx, dd, o, expected, optional, fresh=True)
        do_uninstall(ctx, dd, pre, expected)
    finally:
        dd.cleanup()


def h_reverse(ctx: Ctx, rng: random.Random, form: str, extra: T.Sequence[str], tags: T.Optional[T.Sequence[str]],
              skip: T.Optional[str], name: str) -> None:
    """install [selection] on a fresh DESTDIR; exact tree; log; uninstall -> pre-install snapshot."""
    dd = Dest(ctx, name, form)
    try:
        expected, optional = G.expected_tree(ctx.spec, tags=tags, skip=skip)
        pre = A.snapshot(dd.container)
        ctx.step = 'install ' + ' '.join(extra)
        o = run_meson(ctx, dd, install_argv(ctx, dd, extra), 'install')
        if not o.ok:
            return
        check_installed(ctx, dd, o, expected, optional, fresh=True, excluded_hints=hints_for(ctx.spec, tags, skip), tags=tags)
        if tags is not None:
            ctx.count('monitor:tags-selections')
            ctx.count('monitor:tags-excluded-entries', sum(1 for e in ctx.spec['entries'] if e['tag'] != '?' and e['tag'] not in tags))
        if skip is not None:
            ctx.count('monitor:skip-subprojects-selections')
            ctx.count('monitor:skip-excluded-entries', sum(1 for e in ctx.spec['entries'] if e['subproject']))
        do_uninstall(ctx, dd, pre, expected)
    finally:
        dd.cleanup()


def h_repeat(ctx: Ctx, rng: random.Random, form: str) -> None:
    dd = Dest(ctx, 'repeat', form)
    try:
        expected, optional = G.expected_tree(ctx.spec)
        pre = A.snapshot(dd.container)
        ctx.step = 'install#1'
        o1 = run_meson(ctx, dd, install_argv(ctx, dd), 'install')
        if not o1.ok:
            return
        check_installed(ctx, dd, o1, expected, optional, fresh=True)
        ctx.step = 'install#2'
        o2 = run_meson(ctx, dd, install_argv(ctx, dd), 'install')
        if not o2.ok:
            return
        ctx.count('monitor:reinstall-compared')
        for d in A.snap_diff(o1.post, o2.post):
            ctx.add('reinstall:tree-differs', {'diff': d})
        check_installed(ctx, dd, o2, expected, optional, fresh=False)
        # the log of a re-install cannot know the directories: only non-directories are required to disappear
        do_uninstall(ctx, dd, pre, expected, dirs_may_remain=True)
        ctx.step = 'install#3 (over the directories uninstall left)'
        o2 = run_meson(ctx, dd, install_argv(ctx, dd), 'install')
        if not o2.ok:
            return
        check_installed(ctx, dd, o2, expected, optional, fresh=False)
        _dry_run(ctx, dd, 'dry-run-over-installed')
        ctx.step = 'only-changed (nothing changed)'
        o3 = run_meson(ctx, dd, install_argv(ctx, dd, ['--only-changed']), 'install')
        if not o3.ok:
            return
        ctx.count('monitor:only-changed-checked')
        # symlinks are re-created by every install (install_symlink, aliases; a copied link is compared through its target):
        # only regular files are required not to be copied again
        links0 = {dd.destdir + e['path'] for e in ctx.spec['entries'] if e['type'] == 'symlink'}
        copies = [r for r in o3.records if r.get('ev') == 'audit' and r['op'] in ('shutil.copyfile', 'open-write')
                  and A.Zones.under(r['path'], dd.destdir) and r['path'] not in links0]
        for r in copies[:3]:
            ctx.add('only-changed:copied-unchanged', {'event': r})
        for d in A.snap_diff(o2.post, o3.post):
            ctx.add('only-changed:tree-differs', {'diff': d})
        # change one source file: exactly its destinations are copied again
        cands = sorted({e['src'] for e in ctx.spec['entries'] if e['type'] == 'file' and e.get('src') and not e['src'].startswith('build:')
                        and e.get('content', 'src') == 'src'})
        if cands:
            victim = rng.choice(cands)
            vp = os.path.join(ctx.src, victim)
            st = os.stat(vp)
            with open(vp, 'a', encoding='utf-8') as f:
                f.write('changed after the first install\n')
            os.utime(vp, (1_600_000_500, 1_600_000_500))
            os.chmod(vp, st.st_mode & 0o7777)
            ctx.src_snap = A.snapshot(ctx.src)
            ctx.step = 'only-changed (one source changed)'
            o4 = run_meson(ctx, dd, install_argv(ctx, dd, ['--only-changed']), 'install')
            if o4.ok:
                want = {dd.destdir + e['path'] for e in ctx.spec['entries'] if e.get('src') == victim and e['type'] == 'file'}
                got = {r['path'] for r in o4.records if r.get('ev') == 'audit' and r['op'] == 'shutil.copyfile'}
                ctx.count('monitor:only-changed-checked')
                # a copied symlink is compared through its target (os.stat follows it): re-creating it is not demanded either way
                links = {dd.destdir + e['path'] for e in ctx.spec['entries'] if e['type'] == 'symlink'}
                if got - want - links:
                    ctx.add('only-changed:copied-unchanged', {'changed_source': victim, 'copied': sorted(got - want - links)[:4]})
                if want - got:
                    ctx.add('only-changed:changed-file-not-copied', {'changed_source': victim, 'not_copied': sorted(want - got)[:4]})
                # --only-changed does not list preserved files in the log: only the tree is compared
                v, c = A.check_tree(o4.dest, expected, optional, ctx.src_snap, ctx.build_snap)
                ctx.addall(v)
                ctx.count('monitor:tree-paths', c['paths'])
                ctx.count('monitor:tree-compared')
    finally:
        dd.cleanup()


def h_strace(ctx: Ctx, rng: random.Random, form: str) -> None:
    """Cold `meson install` under strace -f: every mutating path syscall of every process lies beneath DESTDIR."""
    dd = Dest(ctx, 'strace', form)
    try:
        strip = ctx.spec['kind'] == 'c' and rng.random() < 0.7
        expected, optional = G.expected_tree(ctx.spec)
        os.makedirs(ctx.trace, exist_ok=True)
        tf = os.path.join(ctx.trace, 'install.strace')
        env = runner.base_env()
        env.update(ctx.base_env())
        env.update(dd.env)
        argv = ['strace', '-f', '-y', '-s', '8192', '-qq', '-e', 'trace=%file', '-e', 'signal=none', '-o', tf,
                '/venv/bin/python', runner.MESON_PY] + install_argv(ctx, dd, ['--strip'] if strip else [])
        pre = A.snapshot(dd.container)
        w0 = world_snapshot(ctx, dd)
        ctx.step = 'strace install' + (' --strip' if strip else '')
        try:
            p = subprocess.run(argv, cwd=ctx.S, env=env, stdin=subprocess.DEVNULL, stdout=subprocess.PIPE, stderr=subprocess.STDOUT, timeout=300)
        except subprocess.TimeoutExpired:
            ctx.inconclusive.append('timeout:strace')
            return
        out = p.stdout.decode('utf-8', 'backslashreplace')
        real_fs_guard(ctx, argv[13:])
        if p.returncode != 0:
            ctx.add(f'install:failed:rc={p.returncode}', {'argv': argv[13:], 'output_tail': out[-1200:]})
            return
        try:
            with open(tf, encoding='utf-8', errors='surrogateescape') as f:
                text = f.read()
        except FileNotFoundError:
            ctx.inconclusive.append('strace-no-output')
            return
        muts, c = A.parse_strace(text)
        if c['mutating'] == 0 or c['execve'] == 0:
            ctx.inconclusive.append('strace-nothing-parsed')
            return
        v, inside = A.check_strace_containment(muts, dd.zones(ctx))
        ctx.addall(v)
        ctx.count('monitor:strace-runs')
        ctx.count('monitor:strace-mutating-syscalls', c['mutating'])
        ctx.count('monitor:strace-syscalls-in-destdir', inside)
        ctx.count('monitor:strace-processes-execve', c['execve'])
        ctx.count('monitor:strace-unparsed-lines', c['unparsed'])
        if strip:
            ctx.count('monitor:strace-strip-runs')
        w1 = world_snapshot(ctx, dd)
        ctx.count('monitor:world-snapshots')
        for d in A.snap_diff(w0, w1, mtime=True):
            zone = dd.zones(ctx).classify(os.path.join(ctx.S, d['path']), 'snapshot') or 'allowed?'
            ctx.add(f'world:changed:{zone}', {'diff': d, 'argv': argv[13:]})
        o = Obs()
        o.pre, o.post = pre, A.snapshot(dd.container)
        o.dest = A.snapshot(dd.destdir)
        o.log, o.comments = A.read_log(os.path.join(ctx.bdir, 'meson-logs', 'install-log.txt'))
        check_installed(ctx, dd, o, expected, optional, fresh=True, stripped=strip)
        do_uninstall(ctx, dd, pre, expected)
    finally:
        dd.cleanup()
        shutil.rmtree(ctx.trace, ignore_errors=True)


def _killed_install(ctx: Ctx, dd: Dest, label: str, kill_at: T.Optional[int], env_extra: T.Mapping[str, str]) -> T.Optional[Obs]:
    """`meson install` that is SIGKILLed (by the monitor at its N-th event, or by the killer install script)."""
    o = Obs()
    env = ctx.base_env()
    env.update(dd.env)
    env.update(env_extra)
    argv = install_argv(ctx, dd)
    o.pre = A.snapshot(dd.container)
    r = runner.meson(argv, cwd=ctx.S, env=env, monitors=[A.audit_monitor(label, kill_at=kill_at)], timeout=180)
    o.post = A.snapshot(dd.container)
    real_fs_guard(ctx, argv)
    o.rc, o.out, o.records = r.rc, r.out + r.err, r.records
    if r.timed_out:
        ctx.inconclusive.append(f'timeout:{label}')
        return None
    if r.signal != 9:
        # the install ended before the kill point (or the script did not kill): nothing to decide here
        ctx.count('kill-point-not-reached')
        if r.rc != 0:
            ctx.add(f'install:failed:rc={r.rc}', {'argv': argv, 'rc': r.rc, 'output_tail': o.out[-1200:]})
        return None
    v, c = A.check_audit_containment(r.records, dd.zones(ctx))
    ctx.addall(v)
    ctx.count('monitor:audit-events', c['events'])
    ctx.count('monitor:containment-checks')
    o.log, o.comments = A.read_log(os.path.join(ctx.bdir, 'meson-logs', 'install-log.txt'))
    o.ok = True
    return o


def _after_kill(ctx: Ctx, dd: Dest, o: Obs, pre: T.Mapping[str, list], expected: T.Mapping[str, dict], max_in_flight: int) -> None:
    """Log of a killed install names every non-directory created so far; uninstall removes exactly the named ones."""
    not_logged, _ = script_leftovers(ctx, dd, expected)
    last = [r for r in o.records if r.get('ev') == 'audit'][-8:]
    in_flight = {r['path'] for r in last}
    v, c, tolerated = A.check_log_after_kill(o.log, o.pre, o.post, dd.container, not_logged, in_flight, max_in_flight)
    ctx.addall(v)
    ctx.count('monitor:kill-runs')
    ctx.count('monitor:kill-created-nondirs', c['created_nondirs'])
    ctx.count('monitor:kill-log-names', c['named'])
    ctx.count('monitor:kill-in-flight-tolerated', len(tolerated))
    ctx.step += ' -> uninstall'
    u = run_meson(ctx, dd, ['--internal', 'uninstall'], 'uninstall', cwd=ctx.bdir)
    if not u.ok:
        return
    ctx.count('monitor:kill-uninstall-compared')
    keep = {os.path.relpath(p, dd.container) for p in tolerated | not_logged}
    for rel in sorted(set(u.post) - set(pre)):
        if u.post[rel][0] == 'dir' or rel in keep:
            continue   # directories are logged when the installer finishes; a killed run cannot have logged them
        ctx.add(f'kill:uninstall-leftover:{u.post[rel][0]}', {'path': rel, 'object': u.post[rel][:5], 'log_names': len(o.log)})
    for rel in sorted(set(pre) - set(u.post)):
        ctx.add('uninstall:removed-foreign', {'path': rel, 'object': pre[rel][:5]})


def h_kill(ctx: Ctx, rng: random.Random, form: str) -> None:
    """Fault injection: SIGKILL the installing process (a) when its N-th mutating event is about to happen,
    (b) from an install script that runs after everything was copied."""
    expected, optional = G.expected_tree(ctx.spec)
    total = ctx.full_events or 40
    points = sorted({rng.randint(3, max(3, total - 1)), max(3, total - rng.randint(1, 6))})
    if ctx.tier != 'quick':
        points = sorted(set(points) | {rng.randint(3, max(3, total // 2))})
    for i, n in enumerate(points):
        dd = Dest(ctx, f'kill{i}', form)
        try:
            pre = A.snapshot(dd.container)
            ctx.step = f'install killed at event {n}/{total}'
            o = _killed_install(ctx, dd, 'install-kill', n, {})
            if o is not None:
                _after_kill(ctx, dd, o, pre, expected, max_in_flight=1)
        finally:
            dd.cleanup()
    if ctx.spec.get('has_killer'):
        dd = Dest(ctx, 'killscript', form)
        try:
            pre = A.snapshot(dd.container)
            ctx.step = 'install killed by its last install script'
            o = _killed_install(ctx, dd, 'install-kill-script', None, {'C11_KILL_PARENT': '1'})
            if o is not None:
                ctx.count('monitor:kill-by-script-runs')
                # every rule was carried out before the scripts ran: the complete tree is there, and all of it is named
                o.dest = A.snapshot(dd.destdir)
                vt, c = A.check_tree(o.dest, expected, optional, ctx.src_snap, ctx.build_snap)
                ctx.addall(vt)
                ctx.count('monitor:tree-paths', c['paths'])
                ctx.count('monitor:tree-compared')
                _after_kill(ctx, dd, o, pre, expected, max_in_flight=0)
        finally:
            dd.cleanup()


def _aborted_install(ctx: Ctx, dd: Dest, env_extra: T.Mapping[str, str]) -> T.Optional[Obs]:
    """`meson install` that is expected to abort with an error (injected fault); containment is checked as always."""
    o = Obs()
    env = ctx.base_env()
    env.update(dd.env)
    env.update(env_extra)
    argv = install_argv(ctx, dd)
    o.pre = A.snapshot(dd.container)
    r = runner.meson(argv, cwd=ctx.S, env=env, monitors=[A.audit_monitor('install-abort')], timeout=180)
    o.post = A.snapshot(dd.container)
    real_fs_guard(ctx, argv)
    o.rc, o.out, o.records = r.rc, r.out + r.err, r.records
    if r.timed_out:
        ctx.inconclusive.append('timeout:install-abort')
        return None
    if r.rc == 0:
        ctx.count('abort-fault-not-reached')   # e.g. the removed source was only reached through a symlink
        return None
    if r.traceback or 'Unhandled python' in o.out or r.signal:
        ctx.add('install:internal-error:under-injected-fault', {'argv': argv, 'rc': r.rc, 'output_tail': o.out[-1200:]})
        return None
    v, c = A.check_audit_containment(r.records, dd.zones(ctx))
    ctx.addall(v)
    ctx.count('monitor:audit-events', c['events'])
    ctx.count('monitor:containment-checks')
    o.log, o.comments = A.read_log(os.path.join(ctx.bdir, 'meson-logs', 'install-log.txt'))
    o.ok = True
    return o


def h_abort(ctx: Ctx, rng: random.Random, form: str, only: T.Optional[str] = None) -> None:
    """Fault injection: the install aborts with an error part-way (a source vanished after configuring; a destination
    is occupied by an object of the wrong type; the last install script fails).  Everything the aborted run created -
    directories too - is named by the log, and uninstall brings the container back to the pre-install snapshot."""
    spec = ctx.spec
    expected, _ = G.expected_tree(spec)
    ents = [e for e in spec['entries'] if not e.get('by_script')]
    src_victims = [e for e in ents if e['type'] == 'file' and e.get('src') and not e['src'].startswith('build:')
                   and e['kind'] in ('data', 'headers', 'man')]
    # prefer rules that are carried out late, so that something was created before the abort
    src_victims.sort(key=lambda e: {'data': 0, 'man': 1, 'headers': 2}[e['kind']])
    blockable = [e for e in ents if e['type'] in ('file', 'symlink') or e['kind'] == 'emptydir']
    faults = []
    if src_victims:
        faults.append('source-vanished')
    if blockable:
        faults.append('destination-occupied')
    rng.shuffle(faults)
    if only:
        faults = [f for f in faults if f == only]
    elif ctx.tier == 'quick':
        faults = faults[:1]
    if spec.get('has_killer') and not only:
        faults.append('script-fails')
    for i, fault in enumerate(faults):
        dd = Dest(ctx, f'abort{i}', form)
        moved: T.Optional[T.Tuple[str, str]] = None
        try:
            env_extra: T.Dict[str, str] = {}
            what: T.Any = None
            if fault == 'source-vanished':
                k0 = src_victims[0]['kind']
                e = rng.choice([x for x in src_victims if x['kind'] == k0])
                sp = os.path.join(ctx.src, e['src'])
                moved = (sp, sp + '.c11-away')
                os.rename(*moved)
                what = e['src']
            elif fault == 'destination-occupied':
                e = rng.choice(blockable)
                p = dd.destdir + e['path']
                os.makedirs(os.path.dirname(p), exist_ok=True)
                if e['type'] == 'dir':
                    with open(p, 'w', encoding='utf-8') as f:     # a file where install_emptydir wants a directory
                        f.write('in the way\n')
                else:
                    os.makedirs(p, exist_ok=True)                  # a directory where a file/symlink is to be installed
                what = {'path': e['path'], 'wanted': e['type'], 'kind': e['kind']}
            else:
                env_extra['C11_SCRIPT_EXIT'] = str(rng.choice([1, 3, 42]))
                what = env_extra['C11_SCRIPT_EXIT']
            pre = A.snapshot(dd.container)
            ctx.step = f'install aborted by fault {fault}'
            o = _aborted_install(ctx, dd, env_extra)
            if o is None:
                continue
            ctx.count('monitor:abort-runs')
            ctx.count(f'abort-fault:{fault}')
            not_logged, left = script_leftovers(ctx, dd, expected)
            named = set(o.log)
            created = sorted(set(o.post) - set(o.pre))
            ctx.count('monitor:abort-created-paths', len(created))
            ctx.count('monitor:abort-created-dirs', sum(1 for rel in created if o.post[rel][0] == 'dir'))
            nbad = 0
            for rel in created:
                p = dd.container if rel == '.' else os.path.join(dd.container, rel)
                if p in named or p in not_logged:
                    continue
                nbad += 1
                if nbad <= 3:
                    ctx.add(f'abort:log-misses-created:{o.post[rel][0]}', {'path': p, 'fault': fault, 'what': what, 'rc': o.rc,
                                                                            'created': len(created), 'log_names': len(o.log)})
            ctx.step += ' -> uninstall'
            u = run_meson(ctx, dd, ['--internal', 'uninstall'], 'uninstall', cwd=ctx.bdir)
            if not u.ok:
                continue
            ctx.count('monitor:abort-uninstall-compared')
            for m, w in A.check_uninstalled(pre, u.post, left):
                w.update({'fault': fault, 'what': what})
                ctx.add('abort:' + m, w)
        finally:
            if moved:
                os.rename(moved[1], moved[0])
            dd.cleanup()


def run_history(ctx: Ctx, h: str) -> None:
    spec = ctx.spec
    rng = random.Random(f'c11hist:{spec["seed"]}:{h}')
    form = 'env-abs' if h == 'probe' else rng.choice(FORMS)
    ctx.history, ctx.form = h, form
    n0 = len(ctx.viol)
    if h == 'fresh':
        h_fresh(ctx, rng, form)
    elif h == 'repeat':
        h_repeat(ctx, rng, form)
    elif h.startswith('tags='):
        tags = h[5:].split(',')
        h_reverse(ctx, rng, form, ['--tags', ','.join(tags)], tags, None, 'tagsfixed')
    elif h.startswith('skip='):
        h_reverse(ctx, rng, form, ['--skip-subprojects', h[5:]], None, h[5:], 'skipfixed')
    elif h in ('tags', 'tags2'):
        universe = spec['tags'] + ['no-such-tag']
        k = 1 if rng.random() < 0.6 else 2
        tags = sorted(rng.sample(universe, min(k, len(universe))))
        h_reverse(ctx, rng, form, ['--tags', ','.join(tags)], tags, None, h)
    elif h == 'skip':
        if rng.random() < 0.5:
            h_reverse(ctx, rng, form, ['--skip-subprojects'], None, '*', h)
        else:
            names = rng.choice(['sp', 'sp,other', 'other'])
            h_reverse(ctx, rng, form, ['--skip-subprojects', names], None, names, h)
    elif h == 'combo':
        universe = spec['tags'] + ['no-such-tag']
        tags = sorted(rng.sample(universe, min(2, len(universe))))
        h_reverse(ctx, rng, form, ['--tags', ','.join(tags), '--skip-subprojects', 'sp', '--quiet'], tags, 'sp', h)
    elif h == 'strace':
        h_strace(ctx, rng, form)
    elif h == 'kill':
        h_kill(ctx, rng, form)
    elif h == 'abort':
        h_abort(ctx, rng, form)
    elif h.startswith('abort='):
        h_abort(ctx, rng, form, only=h[6:])
    elif h == 'probe':
        h_reverse(ctx, rng, form, [], None, None, h)
    ctx.cases.append(common.digest([spec['kind'], spec['features'], h, form, len(spec['entries'])]))
    ctx.count(f'history:{h}')
    ctx.count(f'destdir-form:{form}')
    if len(ctx.viol) == n0:
        ctx.count('histories-clean')
    if spec.get('coincide'):
        ctx.count('history-on-coincide-project')


def run_project(task: T.Tuple[dict, str, float, T.List[str], str]) -> dict:
    spec, tier, deadline, histories, scratch = task
    os.umask(0o022)
    root = os.path.realpath(tempfile.mkdtemp(prefix='p-', dir=scratch))
    fixed = None
    if spec.get('coincide'):
        fixed = os.path.join(root, 'cstage', 'dest')
        spec = G.resolve_destdir(spec, fixed)
    ctx = Ctx(spec, root, tier, deadline, histories)
    ctx.fixed_dest = fixed
    t0 = time.time()
    try:
        for d in (ctx.src, ctx.home, ctx.tmp):
            os.makedirs(d)
        G.materialize(spec, ctx.src)
        r = runner.meson(['setup'] + G.setup_args(spec) + [ctx.bdir], cwd=ctx.src, env=ctx.base_env(), timeout=240)
        if r.timed_out or r.rc != 0:
            ctx.inconclusive.append('setup-failed')
            return _result(ctx, t0, {'setup_rc': r.rc, 'tail': (r.out + r.err)[-1500:], 'seed': spec['seed']})
        if spec['needs_build']:
            env = runner.base_env()
            env.update(ctx.base_env())
            p = subprocess.run([runner.NINJA_SHIM, '-C', ctx.bdir, '-j', '2'], env=env, stdin=subprocess.DEVNULL, stdout=subprocess.PIPE,
                               stderr=subprocess.STDOUT, timeout=300)
            if p.returncode != 0:
                ctx.inconclusive.append('build-failed')
                return _result(ctx, t0, {'build_rc': p.returncode, 'tail': p.stdout.decode('utf-8', 'replace')[-1500:], 'seed': spec['seed']})
            ctx.count('projects-built-with-mini-ninja')
        shutil.rmtree(ctx.home, ignore_errors=True)
        shutil.rmtree(ctx.tmp, ignore_errors=True)
        os.makedirs(ctx.home)
        os.makedirs(ctx.tmp)
        ctx.src_snap = A.snapshot(ctx.src)
        ctx.build_snap = A.snapshot(ctx.bdir, exclude=[os.path.join(ctx.bdir, 'meson-logs')])
        full, _ = G.expected_tree(spec)
        ctx.real_pre = {lp: os.path.lexists(lp) for lp in full
                        # (coincide projects) the staging directory itself and its parents are made by the harness; logical
                        # paths below DESTDIR may legitimately exist (another rule re-rooted there): the tree comparison decides
                        if not (fixed and (A.Zones.under(fixed, lp) or A.Zones.under(lp, fixed)))}
        ctx.count('projects')
        ctx.count(f'projects:{spec["kind"]}')
        check_failed_subprojects(ctx, r.out + r.err)
        for h in histories:
            if time.time() > deadline:
                ctx.count('skipped:time-budget')
                continue
            run_history(ctx, h)
        return _result(ctx, t0, None)
    except Exception as e:  # harness trouble is never a verdict about meson
        import traceback
        ctx.inconclusive.append('harness-exception')
        return _result(ctx, t0, {'exception': repr(e), 'traceback': traceback.format_exc()[-2000:], 'seed': spec['seed']})
    finally:
        shutil.rmtree(root, ignore_errors=True)


def _result(ctx: Ctx, t0: float, problem: T.Optional[dict]) -> dict:
    return {'violations': ctx.viol, 'counters': ctx.cnt, 'cases': ctx.cases, 'inconclusive': ctx.inconclusive, 'problem': problem,
            'features': ctx.spec['features'], 'wall': time.time() - t0, 'seed': ctx.spec['seed'], 'kind': ctx.spec['kind'],
            'n_entries': len(ctx.spec['entries']), 'n_rules': len(ctx.spec['rules'])}


# --------------------------------------------------------------------------------------------------------
# driver
# --------------------------------------------------------------------------------------------------------

def sweep_markers() -> T.List[str]:
    """Remove whatever an escaping install left at the marker directories of the real file system."""
    import glob
    found: T.List[str] = []
    for pat in ('/etc/c11*', '/var/lib/c11*', '/srv/c11*', '/opt/c11*', '/var/cache/c11*'):
        for p in glob.glob(pat):
            found.append(p)
            if os.path.isdir(p) and not os.path.islink(p):
                shutil.rmtree(p, ignore_errors=True)
            else:
                try:
                    os.unlink(p)
                except OSError:
                    pass
    return found


def plan(chk: common.Check) -> T.List[T.Tuple[dict, T.List[str]]]:
    quick = chk.tier == 'quick'
    n = 24 if quick else 300
    specs = G.gen_workload(chk.seed, chk.tier, n)
    out: T.List[T.Tuple[dict, T.List[str]]] = []
    straced = 0
    for i, s in enumerate(specs):
        if quick:
            hs = ['fresh', 'repeat', 'tags', 'skip', 'kill', 'abort']
            wants = s['kind'] == 'c' or 'install_script' in s['features']
            if wants and straced < 4:
                hs.append('strace')
                straced += 1
        else:
            hs = ['fresh', 'repeat', 'tags', 'skip', 'kill', 'abort', 'combo', 'strace']
            if i % 3 == 0:
                hs.append('tags2')
        out.append((s, hs))
    # projects whose absolute install dirs / prefix textually start with the DESTDIR they are installed under
    for s in G.gen_coincide(chk.seed, chk.tier, 3 if quick else 24):
        out.append((s, ['fresh', 'repeat', 'tags', 'abort'] if quick else ['fresh', 'repeat', 'tags', 'skip', 'kill', 'abort', 'strace']))
    for p in G.directed_probes():
        out.append((p, p.get('histories', ['probe'])))
    return out


def main() -> int:
    chk = common.Check(PID)
    if os.environ.get('VERIF_REPLAY'):
        return replay(chk, os.environ['VERIF_REPLAY'])
    runner.preload()
    scratch = common.scratch_dir('c11')
    budget = 100.0 if chk.tier == 'quick' else 17 * 60.0
    deadline = chk.t0 + budget
    tasks = [(s, chk.tier, deadline, hs, scratch) for s, hs in plan(chk)]
    # heavier (C) projects first so that the pool drains evenly
    order = sorted(range(len(tasks)), key=lambda i: {'c': 0, 'custom': 1, 'data': 2}[tasks[i][0]['kind']])
    results = common.pmap(run_project, [tasks[i] for i in order], chk.jobs)
    left = sweep_markers()
    if left:
        chk.notes['real_filesystem_paths_removed_after_run'] = left[:10]
    feats: T.Dict[str, int] = {}
    walls = []
    for res in results:
        chk.merge_counts(res['counters'])
        for k in res['cases']:
            chk.case(k)
        per: T.Dict[str, int] = {}
        for m, w in res['violations']:
            per[m] = per.get(m, 0) + 1
            if per[m] <= 3:          # the store is capped: keep room for every mechanism of every project
                chk.violation(m, w)
            else:
                chk.count('violations-same-mechanism-same-project-not-stored')
        for why in res['inconclusive']:
            chk.inconclusive_case(why)
        if res['problem']:
            chk.notes.setdefault('problems', [])
            if len(chk.notes['problems']) < 5:
                chk.notes['problems'].append(res['problem'])
        for f in res['features']:
            feats[f] = feats.get(f, 0) + 1
        walls.append(res['wall'])
        chk.sample({'project': res['seed'], 'kind': res['kind'], 'rules': res['n_rules'], 'expected_objects': res['n_entries'],
                    'features': res['features'][:12]})
    bad = sum(v for k, v in chk.counters.items() if k.startswith('inconclusive:'))
    if bad > max(2, len(tasks) // 20):
        chk.inconclusive.append(f'{bad} inconclusive cases (setup/build failures, timeouts)')
    for k, n in (('monitor:audit-events', 500), ('monitor:containment-checks', 50), ('monitor:tree-paths', 500), ('monitor:tree-explicit-modes', 20),
                 ('monitor:tree-contents', 100), ('monitor:log-created-paths', 300), ('monitor:uninstall-compared', 40),
                 ('monitor:dry-run-checked', 20), ('monitor:reinstall-compared', 10), ('monitor:only-changed-checked', 20),
                 ('monitor:tags-selections', 10), ('monitor:tags-excluded-entries', 20), ('monitor:skip-subprojects-selections', 10),
                 ('monitor:skip-excluded-entries', 5), ('monitor:world-snapshots', 50), ('monitor:strace-runs', 2),
                 ('monitor:strace-mutating-syscalls', 50), ('projects-built-with-mini-ninja', 4),
                 ('monitor:kill-runs', 20), ('monitor:kill-created-nondirs', 100), ('monitor:kill-by-script-runs', 3),
                 ('monitor:kill-uninstall-compared', 20), ('monitor:abort-runs', 15), ('monitor:abort-created-dirs', 30),
                 ('monitor:abort-uninstall-compared', 15), ('history-on-coincide-project', 8),
                 ('monitor:failed-subproject-declared-rules-then-failed', 6), ('monitor:failed-subproject-discarded-rules', 40),
                 ('monitor:install-plan-entries', 100)):
        chk.require(k, n)
    return chk.finish(
        rule='one case = (generated project, history, DESTDIR form); distinct by (project kind, feature set, history, DESTDIR form, '
             'number of expected objects); every case installs at least one object and compares the complete tree',
        assumptions=['runs as root: chown is exercised with existing ids only; permission failures are not explored',
                     'children of the installing process (strip, install scripts) are observed by strace only in the strace histories',
                     'after a re-install only non-directories are required to disappear on uninstall',
                     'install_umask=preserve: directory modes are not demanded; alias symlinks of shared libraries under --tags are optional',
                     'contents of executables/shared libraries are only required to be ELF files (rpath fixing/strip may rewrite them)'],
        extra={'features': dict(sorted(feats.items())), 'project_wall_max_s': round(max(walls), 1) if walls else 0})


def replay(chk: common.Check, path: str) -> int:
    with open(path, encoding='utf-8') as f:
        w = json.load(f)
    runner.preload()
    proj = w['project']
    if proj.get('probe'):
        spec = [p for p in G.directed_probes() if p['probe'] == proj['probe']][0]
    else:
        spec = G.gen_project(proj['seed'], proj['kind'], coincide=bool(proj.get('coincide')))
    scratch = common.scratch_dir('c11')
    res = run_project((spec, chk.tier, time.time() + 600, [w['history']], scratch))
    again = [(m, x) for m, x in res['violations'] if m == w['mechanism']]
    print(f'replay {path}: mechanism {w["mechanism"]} ' + ('STILL FAILS' if again else 'no longer observed'))
    for m, x in res['violations'][:10]:
        print('  ', m, json.dumps(x, default=repr, ensure_ascii=True)[:400])
    if res['problem']:
        print('  problem:', res['problem'])
    return 1 if again else 0


if __name__ == '__main__':
    sys.exit(main())
