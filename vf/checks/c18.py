"""C18 -- TAP streams are interpreted per the TAP specification.

Differential runtime monitor: the REAL mesonbuild.mtest.TAPParser (from $VERIF_REPO) is run over
  * every sequence up to length L over an alphabet of TAP line forms (exhaustive),
  * structured random TAP streams with injected faults (to 200 lines),
  * arbitrary text (control characters, exotic white space, very long lines, long digit runs),
and each event list is compared with the independent reference vf/ref/reftap.py in the facts the property
statement fixes (subtests: number/name/status; error *kinds* as a set at the statement's granularity; plan,
version, bail-out).  Contracts watched on the real parser while it runs: never raises, `state` stays inside
its three values, `num_tests`/`lineno`/`highest_test` never decrease, parse() == concatenation of parse_line().
Every stream is parsed a second time through TAPParser.parse_async() (the entry point TestRunTAP/`meson test` use): its
events are held to the same comparison with the reference.  The YAML region (`TAP version 13` + sequences over the forms
that enter/leave/break a YAML block, column-0 diagnostics and empty lines included) is enumerated two lines deeper.
How the program ends is a dimension of the real `meson test` sample: exit codes and death by each signal after a
stream that is good on its own (testlog.json result and returncode, exit status of `meson test`).
The verdict fold is observed on the real TestRunTAP (parse + complete, icontract post-conditions on
complete) over streams x exit codes, and on a small sample through a real `meson test` (protocol: 'tap').
"""
from __future__ import annotations

import itertools
import json
import os
import random
import sys
import time
import typing as T

from vf import common, runner
from vf.gen import c18_tap as gen
from vf.ref import reftap

MT: T.Any = None          # the real mesonbuild.mtest, loaded by load_real()
EOF_MARK = -1
BAD_RESULT_VALUES = {'FAIL', 'TIMEOUT', 'INTERRUPT', 'UNEXPECTEDPASS', 'ERROR'}
EXIT_CODES = [0, 1, 2, 77, 99, 255, -11, -15, -9, -2, -1]   # negative: death by signal, as asyncio/subprocess report it

KNOWN_COMPENSATING = 'compensating-duplicate-and-missing-number'
KNOWN_BELOW_ONE = 'number-below-one-hides-missing-number'
KNOWN_DIGITS = 'int-conversion-digit-limit'


def load_real() -> None:
    global MT
    common.use_repo()
    import mesonbuild.mtest as mt   # noqa: the code under test
    MT = mt


# =====================================================================================================
# observing the real parser
# =====================================================================================================
class Obs:
    __slots__ = ('events', 'raised', 'contract', 'nlines')

    def __init__(self) -> None:
        self.events: T.List[T.Tuple[int, T.Any]] = []   # (index of the line being consumed | nlines for EOF, event)
        self.raised: T.Optional[str] = None
        self.contract: T.List[str] = []
        self.nlines = 0


def observe(lines: T.Sequence[str]) -> Obs:
    """Run list(TAPParser().parse(lines)) with a feeder that attributes every event to the line being
    consumed and evaluates the state/counter contracts at every line boundary."""
    P = MT.TAPParser
    obs = Obs()
    obs.nlines = len(lines)
    parser = P()
    valid = (getattr(P, '_MAIN', None), getattr(P, '_AFTER_TEST', None), getattr(P, '_YAML', None))
    cur = [0]
    last = [getattr(parser, 'num_tests', 0), getattr(parser, 'lineno', 0), getattr(parser, 'highest_test', 0)]

    def check() -> None:
        st = getattr(parser, 'state', valid[0])
        if st not in valid:
            obs.contract.append(f'state-outside-enum:{st!r}')
        now = [getattr(parser, 'num_tests', 0), getattr(parser, 'lineno', 0), getattr(parser, 'highest_test', 0)]
        for name, a, b in zip(('num_tests', 'lineno', 'highest_test'), last, now):
            if b < a:
                obs.contract.append(f'counter-decreased:{name}:{a}->{b}')
        last[:] = now

    def feeder() -> T.Iterator[str]:
        for i, l in enumerate(lines):
            check()
            cur[0] = i
            yield l
        check()
        cur[0] = len(lines)

    try:
        for ev in parser.parse(feeder()):
            obs.events.append((cur[0], ev))
        check()
    except Exception as e:   # the property: no input makes the parser raise
        obs.raised = f'{type(e).__name__}: {e}'[:300]
    return obs


def observe_async(lines: T.Sequence[str]) -> T.Optional[Obs]:
    """The same observation through TAPParser().parse_async(<async iterator of the lines>) -- the entry point `meson test`
    (TestRunTAP.parse) uses.  Nothing in it really waits, so the collecting coroutine is driven by hand (no event loop).
    -> None when the real parser has no parse_async."""
    P = MT.TAPParser
    parser = P()
    if not hasattr(parser, 'parse_async'):
        return None
    obs = Obs()
    obs.nlines = len(lines)
    cur = [0]

    async def feeder() -> T.AsyncIterator[str]:
        for i, l in enumerate(lines):
            cur[0] = i
            yield l
        cur[0] = len(lines)

    async def collect() -> None:
        async for ev in parser.parse_async(feeder()):
            obs.events.append((cur[0], ev))

    coro = collect()
    try:
        coro.send(None)
        coro.close()
        obs.raised = 'Suspended: parse_async waited for something other than its line iterator'
    except StopIteration:
        pass
    except Exception as e:   # the property: no input makes the parser raise
        obs.raised = f'{type(e).__name__}: {e}'[:300]
    return obs


def ev_key(ev: T.Any) -> T.Tuple[T.Any, ...]:
    return (ename(ev), tuple(ev))


def observe_by_line(lines: T.Sequence[str]) -> T.Tuple[T.Optional[T.List[T.Any]], T.List[str], int]:
    """Drive parse_line() directly (contract on parse_line itself). -> (events | None if raised, contract, calls)"""
    P = MT.TAPParser
    parser = P()
    valid = (P._MAIN, P._AFTER_TEST, P._YAML)
    out: T.List[T.Any] = []
    contract: T.List[str] = []
    calls = 0
    for l in list(lines) + [None]:
        before = (parser.num_tests, parser.lineno)
        try:
            evs = list(parser.parse_line(l))
        except Exception as e:
            contract.append(f'parse_line-raised:{type(e).__name__}')
            return None, contract, calls
        calls += 1
        out += evs
        if parser.state not in valid:
            contract.append(f'state-outside-enum:{parser.state!r}')
        if parser.num_tests < before[0] or parser.lineno < before[1]:
            contract.append('counter-decreased')
        if l is not None and parser.lineno != before[1] + 1:
            contract.append(f'lineno-not-advanced-by-one:{before[1]}->{parser.lineno}')
        ntests = sum(1 for e in evs if type(e).__name__ == 'Test')
        if parser.num_tests - before[0] != ntests:
            contract.append(f'num_tests-vs-Test-events:{parser.num_tests - before[0]}!={ntests}')
    return out, contract, calls


def real_error_kind(msg: str) -> str:
    """Map the real parser's Error event to a kind (keywords only; the text itself is never compared)."""
    m = msg.lower()
    if 'too few' in m:
        return reftap.K_FEW
    if 'too many' in m:
        return reftap.K_MANY
    if 'duplicate' in m:
        return reftap.K_DUP
    if 'missing' in m:
        return reftap.K_MISSING
    if 'exceeds' in m or 'beyond' in m:
        return reftap.K_BEYOND
    if 'late plan' in m:
        return reftap.K_LATE
    if 'more than one plan' in m or 'second plan' in m:
        return reftap.K_PLAN2
    if 'yaml' in m:
        return reftap.K_YAML
    if 'version' in m and 'first' in m:
        return reftap.K_VMIS
    if 'version' in m:
        return reftap.K_VLOW
    if 'directive' in m:
        return reftap.K_PLANDIR
    return 'unclassified'


def ename(ev: T.Any) -> str:
    return type(ev).__name__


def ev_json(ev: T.Any) -> T.Any:
    n = ename(ev)
    if n == 'Test':
        return ['Test', ev.number if ev.number < 10**18 else '<huge>', ev.name[:80], ev.result.name, ev.explanation and ev.explanation[:80]]
    if n == 'Plan':
        return ['Plan', ev.num_tests if ev.num_tests < 10**18 else '<huge>', ev.late, ev.skipped]
    if n in ('Error', 'Bailout'):
        return [n, ev.message[:120]]
    if n == 'Version':
        return ['Version', ev.version if ev.version < 10**18 else '<huge>']
    return [n]


Finding = T.Tuple[str, dict]


def classify_exception(text: str) -> str:
    if text.startswith('ValueError') and 'integer string conversion' in text:
        return KNOWN_DIGITS
    return 'parser-raised:' + text.split(':', 1)[0]


def compare(lines: T.Sequence[str], obs: Obs, ref: reftap.Result) -> T.List[Finding]:
    """All disagreements between what the real parser did and what the statement fixes."""
    out: T.List[Finding] = []
    if obs.raised:
        out.append((classify_exception(obs.raised), {'raised': obs.raised}))
    for c in obs.contract:
        out.append(('contract:' + c.split(':')[0], {'contract': c}))
    if obs.raised or ref.ambiguous:
        return out
    if ref.bailout_line is not None:
        evs = [e for i, e in obs.events if i <= ref.bailout_line]
    else:
        evs = [e for _, e in obs.events]
    tests = [e for e in evs if ename(e) == 'Test']
    # ---- one subtest per ok/not ok line: number, name, directive-adjusted status ------------------
    if len(tests) != len(ref.tests):
        out.append(('subtest-count-differs', {'expected': len(ref.tests), 'got': len(tests)}))
    else:
        for got, exp in zip(tests, ref.tests):
            if got.number != exp.number:
                out.append(('subtest-number-differs', {'line': exp.line, 'expected': reftap.nrepr(exp.number), 'got': reftap.nrepr(got.number)}))
            elif got.name != exp.name:
                out.append(('subtest-name-differs', {'line': exp.line, 'expected': exp.name[:200], 'got': got.name[:200]}))
            elif got.result.name != exp.result:
                out.append((f'subtest-status-differs:{exp.result}-reported-{got.result.name}', {'line': exp.line}))
            elif exp.explanation_fixed and got.explanation != exp.explanation:
                out.append(('subtest-explanation-differs', {'line': exp.line, 'expected': exp.explanation, 'got': got.explanation}))
            else:
                continue
            break
    # ---- error kinds as a set, at the statement's granularity -----------------------------------------
    msgs = [e.message for e in evs if ename(e) == 'Error']
    fine = {real_error_kind(m) for m in msgs}
    got_c = reftap.coarse(fine)
    exp_c = ref.coarse_errors()
    for k in sorted(exp_c - got_c - ref.unfixed):
        mech = 'missing-error:' + k
        detail: dict = {'expected_kinds': sorted(ref.errors), 'got_messages': msgs[:6]}
        if k == reftap.C_NUMBERING:
            prof = reftap.numbering_profile(ref)
            detail['numbering'] = prof
            if prof['highest'] == prof['count']:
                mech = KNOWN_COMPENSATING if prof['duplicates'] else KNOWN_BELOW_ONE
        out.append((mech, detail))
    for k in sorted((got_c & reftap.FIXED_COARSE) - exp_c - ref.unfixed):
        out.append(('spurious-error:' + k, {'expected_kinds': sorted(ref.errors), 'got_messages': msgs[:6]}))
    if 'unclassified' in fine and not ref.has_error_event():
        out.append(('spurious-error:unclassified', {'got_messages': msgs[:6]}))
    if msgs and not ref.errors and not ref.unfixed:
        if not any(m.startswith('spurious-error') for m, _ in out):
            out.append(('spurious-error:any', {'got_messages': msgs[:6]}))
    # ---- plan / version / bail-out --------------------------------------------------------------------------
    plans = [e for e in evs if ename(e) == 'Plan']
    if ref.plan is None:
        if plans:
            out.append(('plan-event-differs', {'expected': None, 'got': ev_json(plans[0])}))
    elif len(plans) != 1 or plans[0].num_tests != ref.plan.num_tests or plans[0].late != ref.plan.late or \
            (reftap.K_PLANDIR not in ref.errors and plans[0].skipped != ref.plan.skipped):
        out.append(('plan-event-differs', {'expected': ref.summary()['plan'], 'got': [ev_json(p) for p in plans]}))
    versions = [e.version for e in evs if ename(e) == 'Version']
    if versions != ([ref.version_event] if ref.version_event is not None else []):
        out.append(('version-event-differs', {'expected': reftap.nrepr(ref.version_event), 'got': [reftap.nrepr(v) for v in versions]}))
    bails = [i for i, e in obs.events if ename(e) == 'Bailout']
    if ref.bailout_line is None:
        if bails:
            out.append(('spurious-bail-out', {'lines': bails[:4]}))
    elif not bails or bails[0] != ref.bailout_line:
        out.append(('missing-bail-out', {'expected_line': ref.bailout_line, 'got_lines': bails[:4]}))
    return out


def signature(ref: reftap.Result) -> str:
    """structural identity of a case for distinct_nontrivial: which outcome class the stream belongs to"""
    st = ''.join(sorted({t.result[0] + t.result[-1] for t in ref.tests}))
    return '|'.join([','.join(sorted(ref.errors)), st, str(min(len(ref.tests), 4)),
                     'n' if ref.plan is None else ('l' if ref.plan.late else 'e') + ('s' if ref.plan.skipped else ''),
                     str(min(ref.version, 15)), 'y' if any(c.startswith('yaml') for c in ref.classes) else '',
                     'A' if ref.ambiguous else ''])


class Acc:
    """what a worker returns (plain data only)"""

    def __init__(self) -> None:
        self.n = 0
        self.counts: T.Dict[str, int] = {}
        self.sigs: T.Set[str] = set()
        self.found: T.Dict[str, T.List[dict]] = {}
        self.fcount: T.Dict[str, int] = {}
        self.complete = True

    def count(self, k: str, n: int = 1) -> None:
        self.counts[k] = self.counts.get(k, 0) + n

    def finding(self, mech: str, witness: dict) -> None:
        self.fcount[mech] = self.fcount.get(mech, 0) + 1
        lst = self.found.setdefault(mech, [])
        if len(lst) < 2:
            lst.append(witness)
        elif len(witness.get('lines', ())) < len(lst[0].get('lines', ())):
            lst[0] = witness

    def data(self) -> dict:
        # icontract condition evaluations of this process since the last hand-over
        for k, v in _FOLD_COUNTS.items():
            self.count(k, v)
        _FOLD_COUNTS.clear()
        return {'n': self.n, 'counts': self.counts, 'sigs': self.sigs, 'found': self.found, 'fcount': self.fcount,
                'complete': self.complete}


def clip_lines(lines: T.Sequence[str]) -> T.List[str]:
    return [l if len(l) <= 300 else l[:120] + f'<...{len(l) - 240} chars...>' + l[-120:] for l in lines[:400]]


def check_stream(acc: Acc, phase: str, lines: T.Sequence[str], by_line: bool = False) -> T.List[Finding]:
    obs = observe(lines)
    ref = reftap.consume(lines)
    acc.n += 1
    acc.count('monitor:never-raises')
    acc.count('monitor:state-and-counters', obs.nlines + 1)
    fs = compare(lines, obs, ref)
    if ref.ambiguous:
        acc.count('streams-spec-ambiguous(contracts-only)')
    elif not obs.raised:
        acc.count('monitor:differential-vs-reftap')
        acc.count('observed:subtests', len(ref.tests))
        for k in ref.errors:
            acc.count('observed:kind:' + k)
        for k in ref.unfixed:
            acc.count('observed:unfixed:' + k)
    # ---- the asynchronous entry point (the one TestRunTAP.parse / `meson test` goes through): the events it yields are held
    #      to the same statement.  Identical event lists (same events attributed to the same lines) have the identical
    #      verdict of compare() above; anything else is compared against the reference on its own.
    obs_a = observe_async(lines)
    if obs_a is None:
        acc.count('parse_async-absent')
    else:
        acc.count('monitor:parse_async-never-raises')
        if obs_a.raised:
            if not obs.raised:
                fs.append(('parse_async-raised:' + obs_a.raised.split(':', 1)[0], {'raised': obs_a.raised}))
        elif not obs.raised:
            if not ref.ambiguous:
                acc.count('monitor:differential-vs-reftap:parse_async')
            acc.count('monitor:parse_async-same-events-as-parse')
            if [(i, ev_key(e)) for i, e in obs.events] != [(i, ev_key(e)) for i, e in obs_a.events]:
                have = {m for m, _ in fs}
                extra = [(m + '[parse_async]', {**d, 'parse_async_events': [ev_json(e) for _, e in obs_a.events][:30]})
                         for m, d in compare(lines, obs_a, ref) if m not in have]
                fs += extra or [('parse_async-events-differ-from-parse', {'parse_async_events': [ev_json(e) for _, e in obs_a.events][:30]})]
    if by_line and not obs.raised:
        evs, contract, calls = observe_by_line(lines)
        acc.count('monitor:parse_line-contract', calls)
        for c in contract:
            fs.append(('contract:' + c.split(':')[0], {'contract': c}))
        if evs is not None:
            a = [(ename(e), tuple(e)) for _, e in obs.events]
            b = [(ename(e), tuple(e)) for e in evs]
            if a != b:
                fs.append(('parse-differs-from-parse_line', {'parse': [ev_json(e) for _, e in obs.events][:10],
                                                             'parse_line': [ev_json(e) for e in evs][:10]}))
    acc.sigs.add(signature(ref))
    for mech, detail in fs:
        acc.finding(mech, {'phase': phase, 'lines': clip_lines(lines), 'detail': detail,
                           'real_events': [ev_json(e) for _, e in obs.events][:30], 'reference': ref.summary()
                           if len(lines) <= 400 else '<long>', 'replayable': all(len(l) <= 300 for l in lines) and len(lines) <= 400})
    return fs


# =====================================================================================================
# the verdict fold: real TestRunTAP.parse + complete
# =====================================================================================================
class FoldContract(Exception):
    pass


_FOLD_COUNTS: T.Dict[str, int] = {}
_FOLD_INSTALLED = False
_FOLD_ORIGINAL: T.Any = None
_FOLD_VIOLATIONS = [0]


def install_fold_contract() -> None:
    """icontract post-conditions on the real TestRunTAP.complete (in this process only, never inside meson)."""
    global _FOLD_INSTALLED
    if _FOLD_INSTALLED:
        return
    common.ensure_deps()
    import icontract

    def nonzero_exit_is_bad(self: T.Any, OLD: T.Any) -> bool:
        _FOLD_COUNTS['contract:complete.nonzero-exit-is-bad'] = _FOLD_COUNTS.get('contract:complete.nonzero-exit-is-bad', 0) + 1
        return OLD.rc == 0 or self.res.name in BAD_RESULT_VALUES

    def bad_stays_bad(self: T.Any, OLD: T.Any) -> bool:
        _FOLD_COUNTS['contract:complete.bad-stays-bad'] = _FOLD_COUNTS.get('contract:complete.bad-stays-bad', 0) + 1
        return (not OLD.was_bad) or self.res.name in BAD_RESULT_VALUES

    def result_is_final(self: T.Any) -> bool:
        _FOLD_COUNTS['contract:complete.result-is-final'] = _FOLD_COUNTS.get('contract:complete.result-is-final', 0) + 1
        return isinstance(self.res, MT.TestResult) and self.res.is_finished()

    global _FOLD_ORIGINAL
    f = _FOLD_ORIGINAL = MT.TestRunTAP.complete
    f = icontract.ensure(result_is_final, error=lambda self: FoldContract(f'result-not-final:{self.res}'))(f)
    f = icontract.ensure(bad_stays_bad, error=lambda self, OLD: FoldContract(f'bad-became-good:{self.res}'))(f)
    f = icontract.ensure(nonzero_exit_is_bad,
                         error=lambda self, OLD: FoldContract(f'nonzero-exit-not-bad:rc={OLD.rc} res={self.res}'))(f)
    f = icontract.snapshot(lambda self: self.res.name in BAD_RESULT_VALUES, name='was_bad')(f)
    f = icontract.snapshot(lambda self: self.returncode, name='rc')(f)
    MT.TestRunTAP.complete = f
    _FOLD_INSTALLED = True


class _Harness:
    def __init__(self) -> None:
        self.subtests = 0

    def log_subtest(self, *a: T.Any, **k: T.Any) -> None:
        self.subtests += 1


def _serialisation() -> T.Any:
    from mesonbuild.backend.backends import TestSerialisation, TestProtocol
    from mesonbuild import mesonlib
    try:
        return TestSerialisation(name='t', project_name='p', suite=['p'], fname=['/bin/true'], is_cross_built=False,
                                 exe_wrapper=None, needs_exe_wrapper=False, is_parallel=True, cmd_args=[],
                                 env=mesonlib.EnvironmentVariables(), expected_fail=False, expected_exitcode=0, timeout=30,
                                 workdir=None, extra_paths=[], protocol=TestProtocol.TAP, priority=0, cmd_is_built=False,
                                 cmd_is_exe=True, depends=[], version='x', verbose=False, exe_fname='/bin/true')
    except TypeError:
        import types
        return types.SimpleNamespace(name='t', project_name='p', protocol=TestProtocol.TAP, expected_fail=False,
                                     expected_exitcode=0, workdir=None, timeout=30)


async def _aiter(lines: T.Sequence[str]) -> T.AsyncIterator[str]:
    for l in lines:
        yield l


# how a run is displayed must not matter for its verdict: (is_parallel, verbose) as SingleTestRunner passes them
# (interactive runs are not parsed at all by design and are not part of this)
DEFAULT_MODE = (True, False)
MODES: T.List[T.Tuple[bool, bool]] = [(True, False), (True, True), (False, False), (False, True)]


def mode_label(mode: T.Tuple[bool, bool]) -> str:
    return ('parallel' if mode[0] else 'serial') + ('+verbose' if mode[1] else '')


def fold_real(lines: T.Sequence[str], rc: int, mode: T.Tuple[bool, bool] = DEFAULT_MODE) -> dict:
    """Drive the real TestRunTAP: start, parse(harness, lines), returncode, complete."""
    install_fold_contract()
    run = MT.TestRun(_serialisation(), {}, 't', 30, mode[0], mode[1], False)
    h = _Harness()
    out: dict = {'class': type(run).__name__, 'raised': None, 'contract': None}
    try:
        run.start(['/bin/true'])
        coro = run.parse(h, _aiter(lines))
        try:
            coro.send(None)
            out['raised'] = 'parse-coroutine-suspended'   # nothing in it can really wait
            coro.close()
        except StopIteration:
            pass
        out['after_parse'] = run.res.name
        run.returncode = rc
        try:
            run.complete()
        except FoldContract as e:
            out['contract'] = str(e)
            _FOLD_VIOLATIONS[0] += 1
            if _FOLD_VIOLATIONS[0] == 25:
                # enough witnesses from this process: take the contract off again (icontract's failure path is slow);
                # the plain comparison in check_fold keeps judging every case
                MT.TestRunTAP.complete = _FOLD_ORIGINAL
        out['res'] = run.res.name
        out['bad'] = run.res.name in BAD_RESULT_VALUES      # by name: independent of the real is_bad()
        out['real_is_bad'] = run.res.is_bad()
        out['nresults'] = len(run.results)
        out['results'] = [(reftap.nrepr(t.number), t.name[:60], t.result.name) for t in run.results[:60]]
        out['subtests_logged'] = h.subtests
    except Exception as e:
        out['raised'] = f'{type(e).__name__}: {e}'[:300]
    return out


def check_fold(acc: Acc, phase: str, lines: T.Sequence[str], rc: int, obs: T.Optional[Obs] = None,
               mode: T.Tuple[bool, bool] = DEFAULT_MODE) -> None:
    obs = obs or observe(lines)
    if obs.raised:
        return
    f = fold_real(lines, rc, mode)
    acc.count('monitor:verdict-fold')
    acc.count('observed:fold-mode:' + mode_label(mode))
    sfx = '' if mode == DEFAULT_MODE else f'[{mode_label(mode)}]'
    w = {'phase': phase, 'lines': clip_lines(lines), 'rc': rc, 'mode': list(mode), 'fold': f, 'real_events': [ev_json(e) for _, e in obs.events][:30],
         'replayable': True}
    if f['raised']:
        acc.finding('fold-raised:' + f['raised'].split(':')[0] + sfx, w)
        return
    if f['contract']:
        acc.finding('fold-contract:' + f['contract'].split(':')[0] + sfx, w)
    evs = [e for _, e in obs.events]
    tests = [e for e in evs if ename(e) == 'Test']
    failed = any(e.result.name == 'FAIL' for e in tests)
    upass = any(e.result.name == 'UNEXPECTEDPASS' for e in tests)
    err = any(ename(e) == 'Error' for e in evs)
    bail = any(ename(e) == 'Bailout' for e in evs)
    expect_bad = failed or upass or err or bail or rc != 0
    acc.count('observed:fold:' + ('bad' if expect_bad else 'good'))
    if f['bad'] != expect_bad:
        if expect_bad:
            why = [n for n, c in (('nonzero-exit', rc != 0), ('error-event', err), ('bail-out', bail),
                                  ('failed-subtest', failed), ('unexpected-pass', upass)) if c]
            acc.finding('fold-bad-run-reported-good:' + '+'.join(why) + sfx, w)
        else:
            acc.finding('fold-good-run-reported-bad:' + f['res'] + sfx, w)
    if f['nresults'] != len(tests) or f['subtests_logged'] != len(tests) + sum(1 for e in evs if ename(e) == 'Bailout'):
        acc.finding('fold-subtest-list-differs' + sfx, w)


# =====================================================================================================
# the harness-side line pipeline: bytes of the pipe -> read_decode -> queue -> queue_iter -> TestRunTAP.parse
# =====================================================================================================
_LOOP: T.Dict[int, T.Any] = {}
LONG_LINE = 60000     # asyncio's default StreamReader limit is 64 KiB: longer lines reach the parser in chunks


def _loop() -> T.Any:
    import asyncio
    lp = _LOOP.get(os.getpid())
    if lp is None:
        _LOOP.clear()
        lp = _LOOP[os.getpid()] = asyncio.new_event_loop()
    return lp


def split_stdout(text: str) -> T.List[str]:
    """the line stream of a program's stdout: split at '\n' only (never at \x0b, \x0c, \u2028 ...)"""
    parts = text.split('\n')
    lines = [p + '\n' for p in parts[:-1]]
    if parts[-1]:
        lines.append(parts[-1])
    return lines


def pipeline_real(data: bytes, rc: int) -> dict:
    """Feed `data` to a real asyncio.StreamReader and let the real TestSubprocess.stdout_lines()/communicate()
    (read_decode + queue_iter) hand the lines to the real TestRunTAP.parse, as SingleTestRunner._run_cmd does."""
    import asyncio
    import types
    install_fold_contract()
    run = MT.TestRun(_serialisation(), {}, 't', 30, True, False, False)
    h = _Harness()
    got: T.List[str] = []
    out: dict = {'raised': None, 'contract': None, 'via': 'TestSubprocess'}

    async def go() -> None:
        reader = asyncio.StreamReader()
        reader.feed_data(data)
        reader.feed_eof()
        try:
            sp = MT.TestSubprocess(types.SimpleNamespace(stdout=reader, stderr=None, pid=0, returncode=0),
                                   stdout=asyncio.subprocess.PIPE, stderr=None)
            lines = sp.stdout_lines()
            starter = lambda: sp.communicate(run, run.console_mode)[0]
        except (TypeError, AttributeError):
            out['via'] = 'read_decode+queue_iter'
            q: T.Any = asyncio.Queue()
            lines = MT.queue_iter(q)

            async def rd() -> None:
                run.stdo = await MT.read_decode(reader, q, run.console_mode)
            starter = lambda: asyncio.ensure_future(rd())

        async def tee() -> T.AsyncIterator[str]:
            async for l in lines:
                got.append(l)
                yield l
        parse_task = asyncio.ensure_future(run.parse(h, tee()))
        stdo_task = starter()
        await asyncio.wait_for(asyncio.gather(parse_task, stdo_task), timeout=20)

    try:
        run.start(['/bin/true'])
        _loop().run_until_complete(go())
        run.returncode = rc
        try:
            run.complete()
        except FoldContract as e:
            out['contract'] = str(e)
        out['res'] = run.res.name
        out['bad'] = run.res.name in BAD_RESULT_VALUES
        out['nresults'] = len(run.results)
        out['results'] = [(reftap.nrepr(t.number), t.name[:60], t.result.name) for t in run.results[:60]]
        out['stdo_complete'] = run.stdo.replace('\r\n', '\n') == MT.decode(data).replace('\r\n', '\n') if hasattr(MT, 'decode') else None
    except Exception as e:
        out['raised'] = f'{type(e).__name__}: {e}'[:300]
    out['delivered'] = got
    return out


def check_pipeline(acc: Acc, phase: str, text: str, rc: int) -> None:
    """What the parser gets through the real reader/queue must lead to the same subtests and verdict as the
    program's line stream handed to the same TestRunTAP directly."""
    try:
        data = text.encode('utf-8')
    except UnicodeEncodeError:
        return
    lines = split_stdout(text)
    direct = fold_real(lines, rc)
    if direct['raised']:
        return          # judged by the parser monitors
    piped = pipeline_real(data, rc)
    acc.count('monitor:pipeline-vs-direct')
    longline = any(len(l) > LONG_LINE for l in lines)
    w = {'phase': phase, 'stdout': text if len(text) <= 2000 else text[:1000] + f'<...{len(text) - 2000} chars...>' + text[-1000:],
         'lines': clip_lines(lines), 'rc': rc, 'pipeline': {k: v for k, v in piped.items() if k != 'delivered'},
         'direct': direct, 'replayable': len(text) <= 2000, 'pipeline_case': True}
    if piped['raised']:
        acc.finding('pipeline-raised:' + piped['raised'].split(':')[0], w)
        return
    same = piped['res'] == direct['res'] and piped['nresults'] == direct['nresults'] and \
        (longline or piped['results'] == direct['results'])
    if longline:
        acc.count('observed:pipeline:long-line(verdict-and-count-only)')
    if any(not l.strip('\r\n') for l in lines):
        acc.count('observed:pipeline:stream-with-empty-line')
    if same:
        return
    # why: what did the parser actually get?
    want = [l.rstrip('\r\n') for l in lines]
    have = [l.rstrip('\r\n') for l in piped['delivered']]
    w['delivered_lines'] = len(have)
    w['expected_lines'] = len(want)
    if have == want:
        mech = 'pipeline-verdict-differs-with-same-lines'
    elif len(have) < len(want) and have == want[:len(have)]:
        mech = 'pipeline-stops-at-empty-line' if want[len(have)] == '' else 'pipeline-stops-early'
    elif longline:
        mech = 'pipeline-long-line-chunks-change-verdict'
    else:
        mech = 'pipeline-alters-lines'
    acc.finding(mech, w)


# =====================================================================================================
# workers
# =====================================================================================================
def work_exhaustive(item: T.Tuple[T.Any, ...]) -> dict:
    """All sequences alphabet^k (len(prefix) <= k <= depth) that start with `prefix` (only k == depth if only_full)."""
    alpha_name, depth, prefix, eol, deadline, do_fold = item[:6]
    only_full = len(item) > 6 and item[6]
    do_pipe = eol != '' and not only_full
    full_extras = os.environ.get('VERIF_TIER', 'quick') != 'quick'
    pipe_len = 3
    alpha = gen.ALPHABETS[alpha_name]
    acc = Acc()
    forms = [a + eol for a in alpha]
    pre = [forms[i] for i in prefix]
    phase = f'exhaustive:{alpha_name}:L{depth}'
    n = 0
    for k in range(depth - len(prefix) if only_full else 0, depth - len(prefix) + 1):
        for suffix in itertools.product(forms, repeat=k):
            lines = pre + list(suffix)
            short = len(lines) <= 2
            # the expensive extras: always for the short streams; in the quick tier every second length-3 stream gets them
            extras = len(lines) <= 3 and (short or full_extras or (n & 1) == 0)
            fs = check_stream(acc, phase, lines, by_line=extras)
            if do_fold and extras:
                if short:
                    # every exit status x every display mode
                    for mode in MODES:
                        for rc in (0, 1):
                            check_fold(acc, phase, lines, rc, mode=mode)
                else:
                    check_fold(acc, phase, lines, (n >> 1) & 1)
                    check_fold(acc, phase, lines, (n >> 2) & 1, mode=MODES[1 + (n >> 1) % 3])
            if do_pipe and len(lines) <= pipe_len and (extras or any(l in ('\n', '\r\n') for l in lines)):
                check_pipeline(acc, phase, ''.join(lines), 0)
            n += 1
            if (n & 1023) == 0 and time.time() > deadline:
                acc.complete = False
                return acc.data()
    return acc.data()


def work_random(item: T.Tuple[str, int, int, float]) -> dict:
    kind, seed, n, deadline = item
    rng = random.Random(seed)
    acc = Acc()
    for i in range(n):
        if kind == 'structured':
            lines = gen.structured(rng)
        else:
            lines = gen.arbitrary(rng)
        acc.count(f'cases:{kind}')
        acc.count(f'lines:{kind}', len(lines))
        check_stream(acc, 'random:' + kind, lines, by_line=(i % 4 == 0))
        if i % 8 == 0:
            check_fold(acc, 'random:' + kind, lines, rng.choice(EXIT_CODES), mode=rng.choice(MODES))
        if i % 8 == 1:
            text = ''.join(l if l.endswith('\n') else l + '\n' for l in lines[:-1]) + (lines[-1] if lines else '')
            check_pipeline(acc, 'random:' + kind, text, rng.choice((0, 0, 1)))
        if (i & 63) == 0 and time.time() > deadline:
            acc.count('time-capped:' + kind)
            break
    return acc.data()


# =====================================================================================================
# real `meson test`
# =====================================================================================================
EMIT = '''import sys
with open(sys.argv[1], 'rb') as f:
    data = f.read()
sys.stdout.buffer.write(data)
sys.stdout.buffer.flush()
sys.exit(int(sys.argv[2]))
'''

MESON_SAMPLE: T.List[T.Tuple[str, T.List[str]]] = [
    ('clean', ['TAP version 13', '1..3', 'ok 1 a', 'ok 2 b # SKIP no', 'not ok 3 c # TODO wip', '  ---', '  k: v', '  ...']),
    ('failed', ['1..2', 'ok 1', 'not ok 2 broken']),
    ('upass', ['ok 1 # TODO done already', '1..1']),
    ('bailout', ['1..3', 'ok 1', 'Bail out! no more']),
    ('toofew', ['1..3', 'ok 1', 'ok 2']),
    ('yamlopen', ['TAP version 13', 'ok 1', '  ---', '  k: v', 'ok 2', '1..2']),
    ('allskip', ['1..2', 'ok 1 # SKIP a', 'ok 2 # skipped b']),
    ('dupgap', ['ok 1', 'ok 1', 'ok 3']),
    ('lateplantest', ['ok 1', '1..2', 'ok 2']),
    ('secondplan', ['1..1', 'ok 1', '1..1']),
    ('misplacedversion', ['ok 1', 'TAP version 13', '1..1']),
    ('unknownlines', ['1..1', 'hello', '  indented', 'ok 1']),
    ('skipwitherror', ['1..2', 'ok 1 # SKIP only one of two']),
]


# raw stdout texts for the real pipeline: completely empty lines (\n and \r\n) followed by something significant,
# white-space-only lines, missing final newline, lines longer than the 64 KiB reader limit (controls)
MESON_RAW: T.List[T.Tuple[str, str]] = [
    ('blank_then_fail', 'ok 1\n\nnot ok 2\n'),
    ('blank_then_bailout', '1..1\nok 1\n\nBail out! database went away\n'),
    ('blank_then_more_tests', '1..2\nok 1\n\nok 2\n'),
    ('blank_then_late_plan_mismatch', 'ok 1\n\nok 2\n1..3\n'),
    ('blank_then_late_plan_ok', 'ok 1\n\nok 2\n\n1..2\n'),
    ('blank_then_todo_pass', 'ok 1\n\nok 2 # TODO done already\n'),
    ('blank_first_line', '\n1..1\nok 1\n'),
    ('blank_first_then_fail', '\n\nnot ok 1\n'),
    ('blank_many', 'ok 1\n\n\n\nok 2\n\n1..2\n\n'),
    ('blank_then_second_plan', '1..1\nok 1\n\n1..1\n'),
    ('blank_then_misplaced_version', 'ok 1\n\nTAP version 13\n1..1\n'),
    ('blank_in_yaml_v12_is_unknown', 'ok 1\n  ---\n\n  ...\nnot ok 2\n'),
    ('blank_no_final_newline_fail', 'ok 1\n\nnot ok 2'),
    ('crlf_clean', '1..2\r\nok 1\r\nok 2\r\n'),
    ('crlf_blank_then_fail', 'ok 1\r\n\r\nnot ok 2\r\n'),
    ('crlf_blank_then_more', '1..2\r\nok 1\r\n\r\nok 2\r\n'),
    ('crlf_blank_then_bailout', 'ok 1\r\n\r\nBail out!\r\n'),
    ('ws_only_then_fail', 'ok 1\n   \nnot ok 2\n'),
    ('ws_only_tab_then_more', '1..2\nok 1\n \n\t\nok 2\n'),
    ('ws_only_in_yaml', 'TAP version 13\nok 1\n  ---\n  a: b\n  \n  c: d\n  ...\nok 2\n1..2\n'),
    ('no_final_newline_ok', '1..1\nok 1'),
    ('long_name_then_fail', 'ok 1 ' + 'a' * 70000 + '\nnot ok 2\n'),
    ('long_diag_then_ok', '# ' + 'x' * 150000 + '\n1..1\nok 1\n'),
    ('long_unknown_then_blank_then_fail', 'y' * 66000 + '\nok 1\n\nnot ok 2\n'),
    ('unicode_then_blank_then_ok', '1..2\nok 1 caf\u00e9 \u6e2c\u8a66\n\nok 2 \U0001f600\n'),
]


EMIT2 = """import sys
# stdout (first half), then everything for stderr, then the rest of stdout: a merged pipe would splice stderr in
with open(sys.argv[1], 'rb') as f:
    out = f.read()
with open(sys.argv[3], 'rb') as f:
    err = f.read()
cut = out.find(b'\\n', len(out) // 2) + 1
sys.stdout.buffer.write(out[:cut])
sys.stdout.buffer.flush()
sys.stderr.buffer.write(err)
sys.stderr.buffer.flush()
sys.stdout.buffer.write(out[cut:])
sys.stdout.buffer.flush()
sys.exit(int(sys.argv[2]))
"""

# (name, stdout, stderr, exit status): the TAP stream is the program's stdout; TAP-looking text on stderr is not part of it
GOOD_OUT = '1..2\nok 1 first\nok 2 second\n'
MESON_STDERR: T.List[T.Tuple[str, str, str, int]] = [
    ('err_notok', GOOD_OUT, 'not ok 3 this is stderr\n', 0),
    ('err_secondplan', GOOD_OUT, '1..5\n', 0),
    ('err_bailout', GOOD_OUT, 'Bail out! only on stderr\n', 0),
    ('err_moretests', GOOD_OUT, 'ok 3\nok 4\n', 0),
    ('err_todo_pass', GOOD_OUT, 'ok 1 # TODO passes on stderr\n', 0),
    ('err_version', GOOD_OUT, 'TAP version 13\n', 0),
    ('err_mixed_v13', 'TAP version 13\nok 1\n  ---\n  k: v\n  ...\nok 2\n1..2\n', 'not ok 1\nBail out!\n  ---\n', 0),
    ('err_harmless', GOOD_OUT, 'warning: something harmless\n', 0),
    ('err_harmless_fail', 'ok 1\nnot ok 2 really failed\n1..2\n', 'note: stdout says not ok\n', 0),
    ('err_harmless_exit', GOOD_OUT, 'dying\n', 1),
    ('err_notok_allskip', '1..1\nok 1 # SKIP nothing to do\n', 'not ok 1\n', 0),
]
STDERR_VARIANTS: T.List[T.List[str]] = [['--no-stdsplit'], ['--no-stdsplit', '--verbose'], ['--no-stdsplit', '--print-errorlogs'],
                                        ['--verbose'], ['--print-errorlogs', '--num-processes', '1']]


# how the program ENDS is a dimension of its own: after printing its (complete) stream the program dies by a signal instead of
# exiting.  "The program exited non-zero" covers every such death: the stream alone must not decide the verdict.
EMIT_SIG = """import os, signal, sys, time
with open(sys.argv[1], 'rb') as f:
    data = f.read()
sys.stdout.buffer.write(data)
sys.stdout.buffer.flush()
sig = int(sys.argv[2])
try:
    import resource
    resource.setrlimit(resource.RLIMIT_CORE, (0, 0))     # no core files in the build directory
except Exception:
    pass
try:
    signal.signal(sig, signal.SIG_DFL)                   # whatever disposition was inherited (SIGKILL cannot be set)
except (OSError, ValueError, RuntimeError):
    pass
try:
    signal.pthread_sigmask(signal.SIG_UNBLOCK, {sig})
except Exception:
    pass
os.kill(os.getpid(), sig)
time.sleep(5)
os._exit(%d)       # the signal did not end this process: the case says nothing
"""
SIGNAL_NOT_FATAL_EXIT = 117
SIGNAL_NAMES = ['SIGTERM', 'SIGKILL', 'SIGSEGV', 'SIGINT', 'SIGHUP', 'SIGABRT', 'SIGPIPE', 'SIGQUIT', 'SIGUSR1', 'SIGALRM', 'SIGBUS']
SIGNAL_NAMES_THOROUGH = ['SIGUSR2', 'SIGFPE', 'SIGILL', 'SIGTRAP', 'SIGXCPU', 'SIGVTALRM', 'SIGXFSZ', 'SIGPROF', 'SIGSYS']
SIGNAL_STREAMS_SMALL = ('planfirst', 'allskip', 'noplan')      # the streams of the serial/verbose and the per-signal invocations
# (name, stdout): good on their own (plan first / plan last / no plan / all skipped / skip plan / nothing at all / TAP 13 with YAML)
# plus two that are bad anyway (controls)
SIGNAL_STREAMS: T.List[T.Tuple[str, str]] = [
    ('planfirst', '1..2\nok 1 first\nok 2 second\n'),
    ('planlast', 'ok 1\nnot ok 2 # TODO not yet\n1..2\n'),
    ('noplan', 'ok 1 only\n'),
    ('allskip', '1..2\nok 1 # SKIP a\nok 2 # skipped b\n'),
    ('skipplan', '1..0 # SKIP nothing to do\n'),
    ('silent', ''),
    ('yaml13', 'TAP version 13\n1..1\nok 1\n  ---\n  k: v\n  ...\n'),
    ('failing', '1..2\nok 1\nnot ok 2 broken\n'),
    ('toofew', '1..3\nok 1\n'),
]


# raw BYTES that are not valid UTF-8 (legacy encodings, truncated sequences, binary junk), placed where TAP does not care:
# unknown lines, subtest names, explanations, diagnostics, YAML, bail-out reasons, stderr.  (name, stdout, stderr, exit status)
MESON_BYTES: T.List[T.Tuple[str, bytes, bytes, int]] = [
    ('bytes_unknown_line_ok', b'1..2\nok 1 - first\nd\xe9but du test\nok 2 - second\n', b'', 0),
    ('bytes_unknown_line_fail', b'1..2\nok 1 - first\nd\xe9but du test\nnot ok 2 - second\n', b'', 0),
    ('bytes_in_name_ok', b'ok 1 caf\xe9 cr\xe8me\nok 2 \xff\xfe\xfd\n1..2\n', b'', 0),
    ('bytes_in_name_fail', b'1..1\nnot ok 1 na\xefve test\n', b'', 0),
    ('bytes_in_explanation', b'1..3\nok 1 # SKIP pas de r\xe9seau\nnot ok 2 # TODO \xe0 faire\nok 3\n', b'', 0),
    ('bytes_in_todo_pass', b'ok 1 d\xe9j\xe0 # TODO d\xe9j\xe0 fait\n1..1\n', b'', 0),
    ('bytes_in_diag_and_yaml', b'TAP version 13\n# commentaire \xe9\nok 1\n  ---\n  msg: "\xe9\xe8\xea"\n  ...\nok 2\n1..2\n', b'', 0),
    ('bytes_in_bailout', b'1..2\nok 1\nBail out! \xe9chec total\n', b'', 0),
    ('bytes_truncated_sequences', b'ok 1\n\xe2\x82\n\xf0\x9f\x98\nok 2 \xc3\n1..2\n', b'', 0),
    ('bytes_binary_junk', b'1..1\n' + bytes(range(0x80, 0x100)) + b'\n\x00\x01\x02\x1b[31mred\x1b[0m\nok 1\n', b'', 0),
    ('bytes_on_stderr', b'1..1\nok 1\n', b'avertissement: \xe9\xff\n', 0),
    ('bytes_on_stderr_fail', b'1..1\nnot ok 1 cass\xe9\n', b'erreur: \xe9\xff\n', 0),
    ('bytes_exit_nonzero', b'1..1\nok 1\nfin \xe9\n', b'', 3),
    ('bytes_too_few', b'1..3\nok 1\nligne \xe9trange\n', b'', 0),
]


# every directive form, with and WITHOUT a reason, on ok / not ok / unnamed / unnumbered lines and on the plan: these (and a few
# of the streams above) form the suite 'display' that is run under every console option set
MESON_DIRECTIVES: T.List[T.Tuple[str, str]] = [
    ('dir_bare_skip_and_xfail', '1..3\nok 1 - a\nok 2 - b # SKIP\nnot ok 3 - c # TODO\n'),
    ('dir_bare_todo_pass', '1..2\nok 1 - a\nok 2 - b # TODO\n'),
    ('dir_bare_lowercase', 'ok 1 # skip\nnot ok 2 # todo\nok 3 # Todo\n1..3\n'),
    ('dir_glued', 'ok 1 #SKIP\nnot ok 2 #TODO\n1..2\n'),
    ('dir_unnamed_unnumbered', 'ok # SKIP\nnot ok # TODO\nok\n1..3\n'),
    ('dir_not_ok_skip_bare', '1..1\nnot ok 1 # SKIP\n'),
    ('dir_with_reasons', '1..3\nok 1 a # SKIP no network\nnot ok 2 b # TODO caf\u00e9 \u6e2c\u8a66\nok 3 c # TODO   spaced   out\n'),
    ('dir_skip_word_forms', 'ok 1 # skipped\nok 2 # SKIPPING because\nok 3 # Skipped:\n1..3\n'),
    ('dir_plan_skip_bare', '1..0 # SKIP\n'),
    ('dir_plan_skip_reason', '1..0 # skipped: nothing to do here\n'),
    ('dir_not_a_directive', 'ok 1 # FIXME\nok 2 # TODOS\nok 3 # note: skip nothing\n1..3\n'),
    ('dir_yaml_after_bare', 'TAP version 13\nok 1 # SKIP\n  ---\n  k: v\n  ...\nnot ok 2 # TODO\n  ---\n  k: v\n  ...\n1..2\n'),
    ('dir_bailout_bare', '1..2\nok 1 # TODO\nBail out!\n'),
]
DISPLAY_ALSO = ('clean', 'failed', 'upass', 'bailout', 'toofew', 'allskip', 'yamlopen', 'unknownlines', 'skipwitherror',
                'blank_then_fail', 'crlf_clean')
DISPLAY_VARIANTS: T.List[T.List[str]] = [['--verbose'], ['--print-errorlogs'], ['--verbose', '--print-errorlogs', '--num-processes', '1'],
                                         ['--verbose', '--no-stdsplit'], ['--quiet']]


def _read_testlog(bdir: str, logbase: str) -> T.Dict[str, dict]:
    results: T.Dict[str, dict] = {}
    with open(os.path.join(bdir, 'meson-logs', logbase + '.json'), encoding='utf-8') as f:
        for line in f:
            j = json.loads(line)
            results[j['name'].split(':', 1)[-1].strip()] = j
    return results


def _read_junit(bdir: str, logbase: str) -> dict:
    """meson-logs/<logbase>.junit.xml as plain data: {'root': attrs, 'suites': {name: {'attrs':..., 'cases': [[name, [child tags]]]}}}"""
    import xml.etree.ElementTree as ET
    root = ET.parse(os.path.join(bdir, 'meson-logs', logbase + '.junit.xml')).getroot()
    suites = {}
    for su in root.iter('testsuite'):
        suites[su.get('name', '')] = {'attrs': dict(su.attrib),
                                      'cases': [[c.get('name', ''), [ch.tag for ch in c]] for c in su.findall('testcase')]}
    return {'root': dict(root.attrib), 'suites': suites}


# a console that encodes strictly, as under any xx_XX.UTF-8 locale (the C/C.UTF-8 locales make Python escape instead)
STRICT_CONSOLE = {'PYTHONIOENCODING': 'utf-8:strict'}


def _invoke(job: T.Tuple[T.Any, ...]) -> dict:
    """one `meson test` invocation (own log files) -> plain data.  job[4] = True: fresh interpreter with a strict console."""
    src, bdir, logbase, args = job[:4]
    argv = ['test', '--no-rebuild', '-C', bdir, '--logbase', logbase] + args
    if len(job) > 4 and job[4]:
        r = runner.meson_cold(argv, cwd=src, env=STRICT_CONSOLE, timeout=90)
    else:
        r = runner.meson(argv, cwd=src, timeout=90)
    out: dict = {'logbase': logbase, 'args': args, 'rc': r.rc, 'timed_out': r.timed_out, 'traceback': r.traceback, 'brief': r.brief(),
                 'results': None, 'error': None, 'junit': None, 'strict_console': len(job) > 4 and bool(job[4])}
    try:
        out['results'] = {k: {'result': v.get('result'), 'returncode': v.get('returncode')} for k, v in _read_testlog(bdir, logbase).items()}
    except (OSError, ValueError) as e:
        out['error'] = str(e)
    try:
        out['junit'] = _read_junit(bdir, logbase)
    except Exception as e:
        out['junit_error'] = f'{type(e).__name__}: {e}'[:200]
    return out


JUNIT_BAD_TAGS = {'failure', 'error'}
KNOWN_JUNIT_TEST_LEVEL = 'junit-suite-good-although-test-level-error'


def _judge_junit(chk: common.Check, inv: dict, cases: T.Dict[str, dict], label: str) -> None:
    """The JUnit report of the same invocation: a TAP test with subtests is a <testsuite>, its subtests are <testcase>s.
    One testcase per ok/not ok line with number, name and status; the suite is reported bad (failures + errors > 0)
    iff the TAP test as a whole is bad."""
    ju = inv.get('junit')
    if ju is None:
        if inv.get('results') is not None:
            chk.count('junit-unreadable')
        return
    for tn in sorted(inv['results'] or {}):
        c = cases.get(tn)
        if c is None:
            continue
        ref = reftap.consume(c['lines'])
        if ref.ambiguous or not ref.tests:
            continue            # (a test without subtests is a single testcase of the project's suite)
        su = next((v for k, v in ju['suites'].items() if k == tn or k.endswith((':' + tn, '.' + tn))), None)
        w = {'phase': 'meson-test-junit', 'test': tn, 'invocation': inv['args'], 'lines': clip_lines(c['lines']), 'rc': c['rc'],
             'suite': su, 'reference': ref.summary()}
        if su is None:
            chk.violation('junit-suite-missing', w)
            continue
        chk.count('monitor:junit-report')
        cs = su['cases']
        extra = cs[len(ref.tests):]
        # ---- one testcase per subtest: number (+ name), status --------------------------------------------------
        if ref.bailout_line is not None:
            extra = []          # what follows a Bail out! is not fixed by the statement (see reftap): subtests up to it only
        if len(cs) < len(ref.tests) or len(extra) > 1 or (extra and extra[0][0].split(' ', 1)[0].isdigit()):
            chk.violation('junit-testcase-count-differs', w)
            continue
        for t, (name, tags) in zip(ref.tests, cs):
            want_name = f'{t.number} {t.name}'.strip()
            if name.split(' ', 1)[0] != str(t.number) or (want_name.isprintable() and want_name.isascii() and name != want_name):
                chk.violation('junit-testcase-name-differs', {**w, 'expected': want_name, 'got': name})
                break
            bad_tag = bool(JUNIT_BAD_TAGS & set(tags))
            skipped = 'skipped' in tags
            if bad_tag != (t.result in reftap.BAD_STATUSES) or skipped != (t.result == reftap.SKIP):
                chk.violation(f'junit-testcase-status-differs:{t.result}', {**w, 'testcase': [name, tags]})
                break
        # ---- the suite as a whole ------------------------------------------------------------------------------------
        try:
            nbad = int(su['attrs'].get('failures', '0')) + int(su['attrs'].get('errors', '0'))
        except ValueError:
            chk.violation('junit-suite-attributes-not-numeric', w)
            continue
        expect_bad = ref.expect_bad(c['rc'])
        chk.count('observed:junit:' + ('bad' if expect_bad else 'good'))
        if (nbad > 0) != expect_bad:
            if not expect_bad:
                chk.violation('junit-suite-bad-although-test-good', w)
            elif ref.bad_subtest():
                kinds = '+'.join(sorted({t.result for t in ref.tests if t.result in reftap.BAD_STATUSES}))
                chk.violation(f'junit-suite-good-although-subtest-bad:{kinds}', w)
            else:
                # only an error / bail-out event or the exit status makes it bad
                chk.violation(KNOWN_JUNIT_TEST_LEVEL, w)
    # the totals of the root element are the sums over the suites
    try:
        for attr in ('tests', 'errors', 'failures'):
            if int(ju['root'].get(attr, '0')) != sum(int(v['attrs'].get(attr, '0')) for v in ju['suites'].values()):
                chk.violation('junit-root-totals-differ', {'phase': 'meson-test-junit', 'invocation': inv['args'], 'attr': attr,
                                                           'root': ju['root']})
                break
        chk.count('monitor:junit-root-totals')
    except ValueError:
        chk.violation('junit-suite-attributes-not-numeric', {'phase': 'meson-test-junit', 'invocation': inv['args'], 'root': ju['root']})


def _judge(chk: common.Check, inv: dict, cases: T.Dict[str, dict], label: str) -> None:
    """every test of one invocation against reftap (stdout + exit status only), then the invocation's own exit status"""
    if inv['timed_out'] or inv['traceback']:
        import re
        exc = re.findall(r'^(\w+(?:Error|Exception))\b', inv['brief'].get('err_tail', '') + '\n' + inv['brief'].get('out_tail', ''), re.M)
        chk.violation(('meson-test-crashed' + (':' + exc[-1] if exc else '') + (':strict-console' if inv.get('strict_console') else ''))
                      if inv['traceback'] else 'meson-test-watchdog',
                      {'phase': 'meson-test', 'invocation': inv['args'], 'run': inv['brief']})
        return
    if inv['results'] is None:
        chk.inconclusive_case('no-testlog')
        chk.notes['meson_test:' + label] = {'error': inv['error'], **inv['brief']}
        return
    expect_any_bad = False
    decided = True
    for tn, j in sorted(inv['results'].items()):
        c = cases.get(tn)
        if c is None:
            chk.violation('meson-test-unknown-result', {'phase': 'meson-test', 'test': tn, 'invocation': inv['args']})
            continue
        lines, rc = c['lines'], c['rc']
        if c.get('signal') and j.get('returncode') == SIGNAL_NOT_FATAL_EXIT:
            chk.count('meson-test:signal-did-not-end-the-program:' + c['signal'])     # says nothing about the verdict
            decided = False
            continue
        chk.count('monitor:meson-test-verdict')
        if c.get('signal'):
            chk.count('observed:meson-test:death-by-signal')
            chk.count('observed:meson-test:death-by-signal:' + c['signal'])
            if not ref_bad_by_stream(lines):
                chk.count('observed:meson-test:death-by-signal-after-good-stream')
        if any(not l.strip('\r\n') for l in lines[:-1]):
            chk.count('observed:meson-test:stream-with-empty-line-before-more')
        if '--verbose' in inv['args'] or tn.startswith('serv_'):
            chk.count('observed:meson-test:verbose-' + ('serial' if _runs_serially(inv, tn, cases) else 'parallel'))
        if label.startswith('display:') and any('#' in l and not l.startswith('#') for l in lines):
            chk.count('observed:meson-test:directive-lines-under-console-options')
        if c.get('bytes'):
            chk.count('observed:meson-test:non-utf8-output' + (':strict-console' if inv.get('strict_console') else ''))
        if c.get('stderr'):
            chk.count('observed:meson-test:tap-like-or-other-stderr' + (':no-stdsplit' if '--no-stdsplit' in inv['args'] else ''))
        chk.case(f'meson:{label}:{tn}')
        ref = reftap.consume(lines)
        if ref.ambiguous:
            chk.count('meson-test-sample-ambiguous')
            decided = False
            continue
        expect_bad = ref.expect_bad(rc)
        expect_any_bad = expect_any_bad or expect_bad
        got_bad = j['result'] in BAD_RESULT_VALUES
        if j.get('returncode') != rc:
            chk.violation('meson-test-returncode-differs', {'phase': 'meson-test', 'test': tn, 'got': j.get('returncode'), 'rc': rc,
                                                            'signal': c.get('signal'), 'lines': clip_lines(lines), 'invocation': inv['args']})
        if got_bad != expect_bad:
            decided = False     # the exit status then follows a wrong verdict; that one is what gets reported
            mech = 'meson-test-verdict:' + ('bad-run-reported-' if expect_bad else 'good-run-reported-') + str(j['result'])
            acc = Acc()
            fs = check_stream(acc, 'meson-test', lines)
            mechs = {m for m, _ in fs}
            if rc == 0 and len(mechs) == 1 and expect_bad:
                mech = mechs.pop()      # a parser defect that is already classified explains the verdict
            else:
                check_pipeline(acc, 'meson-test', ''.join(lines), rc)
                pm = sorted(m for m in acc.found if m.startswith('pipeline-'))
                if pm:
                    mech += '(' + pm[0] + ')'
                elif c.get('signal') and expect_bad and not ref_bad_by_stream(lines):
                    mech += f'(good-stream-then-death-by-{c["signal"]})'
                elif c.get('stderr') and '--no-stdsplit' in inv['args']:
                    mech += '(stderr-text-changes-verdict' + (':' + '+'.join(a for a in inv['args'] if a.startswith('--') and
                                                                             a not in ('--num-processes', '--suite')) if label != 'all' else '') + ')'
            chk.violation(mech, {'phase': 'meson-test', 'test': tn, 'invocation': inv['args'], 'lines': clip_lines(lines), 'rc': rc,
                                 'signal': c.get('signal'), 'stderr': c.get('stderr'), 'reported': j['result'], 'expected_bad': expect_bad, 'reference': ref.summary()})
    for tn in c_selected(inv, cases):
        if tn not in inv['results']:
            chk.violation('meson-test-result-missing', {'phase': 'meson-test', 'test': tn, 'invocation': inv['args']})
            decided = False
    # the exit status of `meson test` itself: non-zero iff some test of this invocation is bad
    if decided:
        chk.count('monitor:meson-test-exit-status')
        chk.count('observed:meson-test-exit:' + ('some-bad' if expect_any_bad else 'all-good'))
        if (inv['rc'] != 0) != expect_any_bad:
            kinds = sorted({j['result'] for j in inv['results'].values() if j['result'] in BAD_RESULT_VALUES})
            chk.violation('meson-test-exit-status:' + (f'exit-0-with-bad-tests({"+".join(kinds)})' if expect_any_bad else
                                                       f'exit-{inv["rc"]}-with-only-good-tests'),
                          {'phase': 'meson-test', 'invocation': inv['args'], 'exit': inv['rc'],
                           'results': {k: v['result'] for k, v in inv['results'].items()}, 'run': inv['brief']})


def ref_bad_by_stream(lines: T.Sequence[str]) -> bool:
    """would the stream alone (exit status 0) make the test bad?"""
    ref = reftap.consume(lines)
    return (not ref.ambiguous) and ref.expect_bad(0)


def _runs_serially(inv: dict, tn: str, cases: T.Dict[str, dict]) -> bool:
    """is_parallel: false, or one process (asked for, or because only one test is selected)"""
    a = inv['args']
    one = '--num-processes' in a and a[a.index('--num-processes') + 1] == '1'
    return tn.startswith(('ser_', 'serv_')) or one or len(c_selected(inv, cases)) == 1


def c_selected(inv: dict, cases: T.Dict[str, dict]) -> T.List[str]:
    sel = inv.get('selected')
    return list(cases) if sel is None else sel


def meson_sample(chk: common.Check) -> None:
    """Streams x exit codes through real `meson test` invocations (protocol: 'tap'): one with everything, the stderr
    suite under several option sets, and small invocations whose only bad tests are of one error kind."""
    runner.preload()
    d = common.scratch_dir('c18')
    src = os.path.join(d, 'src')
    bdir = os.path.join(d, 'b')
    sample = list(MESON_SAMPLE)
    rng = random.Random(f'C18:meson:{chk.seed}')
    tries = 0
    while len(sample) < len(MESON_SAMPLE) + 2 and tries < 200:
        tries += 1
        lines = [l.rstrip('\n') for l in gen.structured(rng, max_lines=25)]
        if lines and not reftap.consume(lines).ambiguous:
            sample.append((f'random{len(sample)}', lines))
    # a few random streams with empty lines sprinkled in (the generator itself rarely puts one before the interesting part)
    tries = 0
    nblank = 0
    while nblank < 4 and tries < 400:
        tries += 1
        lines = [l.rstrip('\n') for l in gen.structured(rng, max_lines=20)]
        if len(lines) < 3:
            continue
        for _ in range(rng.randrange(1, 3)):
            lines.insert(rng.randrange(1, len(lines)), '')
        if not reftap.consume(lines).ambiguous:
            sample.append((f'randomblank{nblank}', lines))
            nblank += 1
    files: T.Dict[str, T.Union[str, bytes]] = {'emit.py': EMIT, 'emit2.py': EMIT2}
    mb = ["project('c18tap', meson_version: '>=1.0')", "py = find_program('/venv/bin/python')", "emit = files('emit.py')",
          "emit2 = files('emit2.py')"]
    cases: T.Dict[str, dict] = {}
    texts: T.List[T.Tuple[str, str]] = [(nm, ''.join(l + '\n' for l in lines)) for nm, lines in sample] + MESON_RAW + MESON_DIRECTIVES
    display_names: T.List[str] = []
    for i, (nm, text) in enumerate(texts):
        files[f's{i:02d}.tap'] = text.encode('utf-8')
        for rc in (0, 3 if i % 2 else 1):
            tn = f's{i:02d}_{nm}_rc{rc}'
            cases[tn] = {'lines': split_stdout(text), 'rc': rc}
            suite = "'streams'"
            if nm.startswith('dir_') or nm in DISPLAY_ALSO or nm.startswith('randomblank'):
                suite = "['streams', 'display']"
                display_names.append(tn)
            mb.append(f"test('{tn}', py, args: [emit, files('s{i:02d}.tap'), '{rc}'], protocol: 'tap', suite: {suite})")
    stderr_names: T.List[str] = []
    for i, (nm, out, err, rc) in enumerate(MESON_STDERR):
        files[f'e{i:02d}.out'] = out.encode('utf-8')
        files[f'e{i:02d}.err'] = err.encode('utf-8')
        cases[nm] = {'lines': split_stdout(out), 'rc': rc, 'stderr': err}
        stderr_names.append(nm)
        mb.append(f"test('{nm}', py, args: [emit2, files('e{i:02d}.out'), '{rc}', files('e{i:02d}.err')], protocol: 'tap', suite: 'stderr')")
    # the display dimension: tests that run serially (is_parallel: false), some of them verbose by declaration
    serial_names: T.List[str] = []
    for i, (nm, text) in enumerate(texts):
        if nm not in ('clean', 'failed', 'upass', 'bailout', 'toofew', 'allskip', 'yamlopen', 'blank_then_fail', 'crlf_clean'):
            continue
        for rc, kw, tag in ((0, "is_parallel: false", 'ser'), (0, "is_parallel: false, verbose: true", 'serv'),
                            (3, "is_parallel: false, verbose: true", 'serv')):
            tn = f'{tag}_{nm}_rc{rc}'
            cases[tn] = {'lines': split_stdout(text), 'rc': rc}
            serial_names.append(tn)
            mb.append(f"test('{tn}', py, args: [emit, files('s{i:02d}.tap'), '{rc}'], protocol: 'tap', suite: 'serial', {kw})")
    # output that is not valid UTF-8 (plus a few seeded random byte lines)
    bytes_names: T.List[str] = []
    blist = list(MESON_BYTES)
    for k in range(3):
        junk = bytes(rng.randrange(0x80, 0x100) for _ in range(rng.randrange(1, 20)))
        blist.append((f'bytes_random{k}', b'1..2\nok 1 ' + junk + b'\nx' + junk + b'\n' + rng.choice([b'ok 2\n', b'not ok 2\n']), junk + b'\n', 0))
    for i, (nm, out, err, rc) in enumerate(blist):
        text = out.decode('utf-8', errors='replace')
        files[f'b{i:02d}.out'] = out
        files[f'b{i:02d}.err'] = err
        cases[nm] = {'lines': split_stdout(text), 'rc': rc, 'bytes': True}
        bytes_names.append(nm)
        mb.append(f"test('{nm}', py, args: [emit2, files('b{i:02d}.out'), '{rc}', files('b{i:02d}.err')], protocol: 'tap', suite: 'bytes')")
    # death by signal after the stream: every signal x every stream (seeded: which half of the signals also runs serially)
    import signal as _signal
    files['emitsig.py'] = EMIT_SIG % SIGNAL_NOT_FATAL_EXIT
    mb.append("emitsig = files('emitsig.py')")
    signal_names: T.List[str] = []
    by_signal: T.Dict[str, T.List[str]] = {}
    for i, (nm, text) in enumerate(SIGNAL_STREAMS):
        files[f'g{i:02d}.tap'] = text.encode('utf-8')
    for sname in SIGNAL_NAMES + ([] if chk.tier == 'quick' else SIGNAL_NAMES_THOROUGH):
        signo = getattr(_signal, sname, None)
        if signo is None:
            continue
        for i, (nm, text) in enumerate(SIGNAL_STREAMS):
            serial = rng.random() < 0.25
            tn = f'sig_{sname}_{nm}' + ('_ser' if serial else '')
            cases[tn] = {'lines': split_stdout(text), 'rc': -int(signo), 'signal': sname}
            signal_names.append(tn)
            by_signal.setdefault(sname, []).append(tn)
            mb.append(f"test('{tn}', py, args: [emitsig, files('g{i:02d}.tap'), '{int(signo)}'], protocol: 'tap', suite: 'signals'"
                      + (", is_parallel: false" if serial else '') + ')')
    files['meson.build'] = '\n'.join(mb) + '\n'
    runner.write_tree(src, files)
    r = runner.meson(['setup', bdir], cwd=src, timeout=120)
    if r.rc != 0 or r.timed_out:
        chk.inconclusive_case('meson-setup-failed')
        chk.notes['meson_setup'] = r.brief()
        return

    # ---- the invocations ------------------------------------------------------------------------------------------
    jobs: T.List[T.Tuple[str, str, T.Optional[T.List[str]], T.List[str]]] = [('all', 'all', None, ['--num-processes', '4'])]
    for k, variant in enumerate(STDERR_VARIANTS):
        jobs.append((f'stderr{k}', f'stderr{k}', stderr_names, variant + ['--suite', 'stderr']))
    # small invocations: a few good tests plus bad tests of ONE kind (so that nothing else decides the exit status)
    by_prefix = lambda frag, rc: [tn for tn in cases if frag in tn and tn.endswith(f'_rc{rc}')][:1]
    good = by_prefix('_clean_', 0) + by_prefix('_allskip_', 0) + by_prefix('_unknownlines_', 0) + ['err_harmless']
    only: T.List[T.Tuple[str, T.List[str]]] = [
        ('good-only', []),
        ('error-event-too-few', by_prefix('_toofew_', 0)),
        ('error-event-yaml', by_prefix('_yamlopen_', 0)),
        ('error-event-second-plan', by_prefix('_secondplan_', 0)),
        ('bail-out', by_prefix('_bailout_', 0)),
        ('nonzero-exit', by_prefix('_clean_', 1) + ['err_harmless_exit']),
        ('skip-with-error', by_prefix('_skipwitherror_', 0)),
        ('failed-subtest', by_prefix('_failed_', 0)),
        ('unexpected-pass', by_prefix('_upass_', 0)),
    ]
    for k, (nm, bad) in enumerate(only):
        jobs.append((f'only:{nm}', f'only{k}', good + bad, good + bad))
    # how the run is displayed must not change verdicts or the exit status: verbose x serial/parallel x selection size
    jobs.append(('serial', 'serial0', serial_names, ['--suite', 'serial']))
    jobs.append(('serial-verbose', 'serial1', serial_names, ['--verbose', '--suite', 'serial']))
    jobs.append(('stderr-verbose-one-process', 'serial2', stderr_names,
                 ['--verbose', '--no-stdsplit', '--num-processes', '1', '--suite', 'stderr']))
    sel = good + by_prefix('_failed_', 0) + by_prefix('_bailout_', 0) + by_prefix('_toofew_', 0)
    jobs.append(('verbose-one-process', 'serial3', sel, ['--verbose', '--num-processes', '1'] + sel))
    for k, one in enumerate(by_prefix('_failed_', 0) + by_prefix('_bailout_', 0) + by_prefix('_clean_', 1) + by_prefix('_upass_', 0) +
                            by_prefix('_clean_', 0)):
        jobs.append((f'verbose-single:{one}', f'single{k}', [one], ['--verbose', one]))
    # every console option set over the 'display' suite (all directive forms with and without reason, every kind of event)
    for k, variant in enumerate(DISPLAY_VARIANTS):
        jobs.append((f'display:{"+".join(a for a in variant if a.startswith("--"))}', f'display{k}', display_names,
                     variant + ['--suite', 'display']))
    # undecodable bytes reach the console, the logs and the reports: a real interpreter with a strictly encoding console
    cold = set()
    for k, variant in enumerate(([], ['--verbose'], ['--print-errorlogs', '--num-processes', '1'])):
        jobs.append((f'bytes-strict-console{k}', f'bytes{k}', bytes_names, variant + ['--suite', 'bytes']))
        cold.add(f'bytes{k}')
    # death by signal: the whole suite (parallel / one verbose process), then per signal a small invocation in which the only
    # bad tests are good streams whose program died by that signal (the exit status of `meson test` is decided by them alone)
    jobs.append(('signals', 'signals0', signal_names, ['--num-processes', '4', '--suite', 'signals']))
    small = [tn for tn in signal_names if tn.split('_')[2] in SIGNAL_STREAMS_SMALL]
    jobs.append(('signals-verbose-one-process', 'signals1', small, ['--verbose', '--num-processes', '1'] + small))
    for k, (sname, tns) in enumerate(sorted(by_signal.items())):
        alone = [tn for tn in tns if tn.split('_')[2] in SIGNAL_STREAMS_SMALL]
        jobs.append((f'only:death-by-{sname}', f'sigonly{k}', good + alone, good + alone))
    todo = [(src, bdir, logbase, args, logbase in cold) for _, logbase, _, args in jobs]
    invs = common.pmap(_invoke, todo, min(chk.jobs, 6))
    for (label, _, selected, _), inv in zip(jobs, invs):
        inv['selected'] = selected
        _judge(chk, inv, cases, label)
        if inv.get('strict_console'):
            chk.count('observed:meson-test:strict-console-invocations')
        if inv.get('results') is not None and not (inv['timed_out'] or inv['traceback']):
            _judge_junit(chk, inv, cases, label)
        chk.count('meson-test-invocations')
    allinv = invs[0]
    if allinv.get('results'):
        chk.sample({'meson_test': {k: v['result'] for k, v in sorted(allinv['results'].items())[:6]}})


# =====================================================================================================
# driver
# =====================================================================================================
def merge(chk: common.Check, results: T.Iterable[dict], best: T.Dict[str, T.List[dict]], totals: T.Dict[str, int]) -> bool:
    complete = True
    for r in results:
        chk.evaluations += r['n']
        chk.merge_counts(r['counts'])
        chk.distinct |= r['sigs']
        complete = complete and r['complete']
        for mech, n in r['fcount'].items():
            totals[mech] = totals.get(mech, 0) + n
        for mech, ws in r['found'].items():
            lst = best.setdefault(mech, [])
            lst += ws
            lst.sort(key=lambda w: (len(w.get('lines', ())), sum(len(l) for l in w.get('lines', ()))))
            del lst[3:]
    return complete


def minimise(lines: T.List[str], mech: str, budget: float = 5.0) -> T.List[str]:
    """delta-debug a witness: drop lines while the same mechanism is still reported"""
    t0 = time.time()

    def still(ls: T.List[str]) -> bool:
        acc = Acc()
        return any(m == mech for m, _ in check_stream(acc, 'min', ls))
    if not still(lines):
        return lines
    cur = list(lines)
    chunk = max(1, len(cur) // 2)
    while chunk >= 1 and time.time() - t0 < budget:
        i = 0
        changed = False
        while i < len(cur) and time.time() - t0 < budget:
            cand = cur[:i] + cur[i + chunk:]
            if cand and still(cand):
                cur = cand
                changed = True
            else:
                i += chunk
        if chunk == 1 and not changed:
            break
        chunk = max(1, chunk // 2) if chunk > 1 else (1 if changed else 0)
    return cur


def directed_probes(chk: common.Check, best: T.Dict[str, T.List[dict]], totals: T.Dict[str, int]) -> None:
    """pinned expectations first (calibration), then one probe per known finding."""
    acc = Acc()
    probes: T.List[T.Tuple[str, T.List[str]]] = [
        ('probe:' + KNOWN_COMPENSATING, ['ok 1\n', 'ok 1\n', 'ok 3\n']),
        ('probe:' + KNOWN_COMPENSATING, ['1..3\n', 'ok 1\n', 'ok 1\n', 'ok 3\n']),
        ('probe:' + KNOWN_BELOW_ONE, ['ok 0\n', 'ok 2\n']),
    ] + [('probe:' + KNOWN_DIGITS, p) for p in gen.digit_limit_probes()]
    for name, lines in probes:
        check_stream(acc, name, lines, by_line=False)
        acc.count(name)
    # the consequence for the verdict, recorded in the witness of the known finding
    f = fold_real(['ok 1\n', 'ok 1\n', 'ok 3\n'], 0)
    chk.notes['probe_dup_gap_verdict'] = {'stream': 'ok 1 / ok 1 / ok 3, exit 0', 'TestRunTAP result': f.get('res'),
                                          'statement expects': 'bad (duplicate and missing number)'}
    # calibration on the streams of unittests/taptests.py that need no context
    for lines in PINNED:
        check_stream(acc, 'pinned', lines, by_line=True)
        acc.count('pinned-streams')
    merge(chk, [acc.data()], best, totals)


PINNED: T.List[T.List[str]] = [s.splitlines(True) for s in [
    '', '1..0', '1..0 # skipped for some reason', '1..1 # skipped for some reason\nok 1', '1..1 # todo not supported here\nok 1',
    'ok', 'ok 1', 'ok 1 abc', 'not ok', 'not ok 1 abc # TODO', 'ok 1 abc # TODO', 'ok 1 abc # SKIP', 'not ok 1 abc # SKIP',
    '1..4\nok 1\nnot ok 2\nok 3\nnot ok 4', 'ok 1\nnot ok 2\nok 3\nnot ok 4\n1..4', 'ok 1 abc # skip', 'ok 1 abc # ToDo',
    'ok 1 abc # skip why', 'ok 1 abc # ToDo Because', '1..1\nok', 'ok\n1..1', '1..2\nok 1\nok 1', 'ok 1\nok 1\n1..2',
    '1..2\nok 2\nok 3', 'ok 2\nok 3\n1..2', '1..2\nok 2\nok 1', 'ok 2', '1..3\nok 2\nok\nok 1', 'ok 1\n1..2\nok 2',
    '1..1\n1..2\nok 1', 'ok 1\nnot ok 2\n1..1', '1..1\nok 1\nnot ok 2', 'ok 1\nnot ok 2\n1..3', '1..3\nok 1\nnot ok 2',
    '1..3\nok 1\nnot ok 2\nBail out! no third test', '1..1\n# ignored\nok 1', '# ignored\n1..1\nok 1\n# ignored too',
    '# ignored\nok 1\n1..1\n# ignored too', '1..1\n\nok 1', '1..1\ninvalid\nok 1', 'TAP version 13\n', 'TAP version 12\n',
    '1..0\nTAP version 13\n', 'TAP version 13\nok\n ---\n foo: abc\n  bar: def\n ...\nok 2',
    'TAP version 13\nok\n ---\n foo: abc\n  bar: def', 'TAP version 13\nok 1\n ---\n foo: abc\n  bar: def\nnot ok 2',
    'TAP version 13\nok 1\n ---\n foo: abc\n \n bar: def\nnot ok 2',
]]


def signal_case_real(text: str, signo: int, args: T.Sequence[str] = ()) -> dict:
    """one protocol:'tap' test whose program prints `text` and dies by `signo`, through a real `meson test`"""
    runner.preload()
    d = common.scratch_dir('c18sig')
    src, bdir = os.path.join(d, 'src'), os.path.join(d, 'b')
    runner.write_tree(src, {'emitsig.py': EMIT_SIG % SIGNAL_NOT_FATAL_EXIT, 'g.tap': text.encode('utf-8'),
                            'meson.build': "project('c18sig')\npy = find_program('/venv/bin/python')\n"
                                           f"test('t', py, args: [files('emitsig.py'), files('g.tap'), '{signo}'], protocol: 'tap')\n"})
    r = runner.meson(['setup', bdir], cwd=src, timeout=120)
    if r.rc != 0 or r.timed_out:
        return {'error': 'setup failed', 'run': r.brief()}
    flags = [a for a in args if a in ('--verbose', '--print-errorlogs', '--no-stdsplit', '--quiet')]
    inv = _invoke((src, bdir, 'replay', flags))
    j = (inv.get('results') or {}).get('t') or {}
    return {'meson_test_exit': inv['rc'], 'result': j.get('result'), 'returncode': j.get('returncode'), 'run': inv['brief']}


def replay_signal(w: dict) -> int:
    import signal as _signal
    signo = int(getattr(_signal, w['signal']))
    out = signal_case_real(''.join(w.get('lines') or []), signo, w.get('invocation') or ())
    print(f'[C18] replay: stream {w.get("lines")!r} then death by {w["signal"]} through `meson test`: ' +
          json.dumps({k: v for k, v in out.items() if k != 'run'}))
    if out.get('error') or out.get('returncode') == SIGNAL_NOT_FATAL_EXIT:
        print('[C18] replay: could not be re-run (' + str(out.get('error') or 'the signal did not end the program') + ')')
        return 0
    still = out.get('result') not in BAD_RESULT_VALUES or out.get('meson_test_exit') == 0 or out.get('returncode') != -signo
    print('[C18] replay: ' + ('STILL FAILS' if still else 'no longer fails'))
    return 1 if still else 0


def replay(chk: common.Check, path: str) -> int:
    with open(path, encoding='utf-8') as f:
        w = json.load(f)
    load_real()
    if w.get('signal') and w.get('phase') == 'meson-test':
        return replay_signal(w)
    lines = w.get('lines') or []
    mech = w.get('mechanism', '?')
    if not w.get('replayable', True):
        print(f'[C18] witness was clipped (very long lines); replaying the clipped form')
    acc = Acc()
    fs = check_stream(acc, 'replay', lines, by_line=True)
    if 'rc' in w:
        check_fold(acc, 'replay', lines, w['rc'], mode=tuple(w.get('mode') or DEFAULT_MODE))
        check_pipeline(acc, 'replay', w.get('stdout') or ''.join(l if l.endswith('\n') else l + '\n' for l in lines), w['rc'])
    mechs = sorted({m for m, _ in fs} | set(acc.found))
    mech = mech.split('(')[-1].rstrip(')') if mech.startswith('meson-test-verdict') and '(' in mech else mech
    print(f'[C18] replay {path}: recorded mechanism={mech}; now observed: {mechs or "nothing"}')
    for m, ws in acc.found.items():
        print(f'  {m}: ' + json.dumps(ws[0].get('detail') or ws[0].get('pipeline') or ws[0].get('fold'), default=repr)[:400])
    still = mech in mechs or (mech == '?' and bool(mechs))
    print('[C18] replay: ' + ('STILL FAILS' if still else 'no longer fails'))
    return 1 if still else 0


def main() -> int:
    chk = common.Check('C18')
    if os.environ.get('VERIF_REPLAY'):
        return replay(chk, os.environ['VERIF_REPLAY'])
    load_real()
    common.ensure_deps()
    quick = chk.tier == 'quick'
    t0 = time.time()
    best: T.Dict[str, T.List[dict]] = {}
    totals: T.Dict[str, int] = {}

    # ---- 0. calibration + directed probes -----------------------------------------------------------------
    directed_probes(chk, best, totals)

    # ---- 1. exhaustive enumeration -------------------------------------------------------------------------
    core_depth = 4 if quick else 5
    ext_depth = 3 if quick else 4
    budget = 110.0 if quick else 600.0
    deadline = t0 + budget
    items: T.List[T.Tuple[T.Any, ...]] = []
    nc, ne = len(gen.CORE), len(gen.EXTENDED)
    # the short sequences once, then one item per 2-symbol prefix
    items.append(('core', 1, (), '\n', deadline, True))
    items.append(('ext', 1, (), '\n', deadline, True))
    items.append(('ext', 2 if quick else 3, (), '', deadline, False))           # lines without terminator
    items.append(('ext', 2, (), '\r\n', deadline, False))
    items += [('core', core_depth, (a, b), '\n', deadline, True) for a in range(nc) for b in range(nc)]
    items += [('ext', ext_depth, (a, b), '\n', deadline, True) for a in range(ne) for b in range(ne)]
    # the YAML region, deeper: `TAP version 13` (element 0) first, then every sequence over the yaml13 forms
    ny = len(gen.YAML13)
    yaml_depth = 6          # (thorough: one level more in step 5, as far as the clock allows)
    items.append(('yaml13', 2, (0,), '\n', deadline, False))
    items += [('yaml13', yaml_depth, (0, b, c), '\n', deadline, False) for b in range(ny) for c in range(ny)]
    res = common.pmap(work_exhaustive, items, chk.jobs)
    complete = merge(chk, res, best, totals)
    chk.notes['exhaustive'] = {'core_alphabet': len(gen.CORE), 'core_depth': core_depth, 'extended_alphabet': len(gen.EXTENDED),
                               'extended_depth': ext_depth, 'yaml13_alphabet': ny,
                               'yaml13_depth_including_version_line': yaml_depth, 'complete': complete, 'wall_s': round(time.time() - t0, 1)}
    if not complete:
        chk.inconclusive.append('exhaustive enumeration hit its time cap')
    # ---- 2. random structured streams, arbitrary text ----------------------------------------------------------
    n_struct = 20000 if quick else 1000000
    n_arb = 6000 if quick else 200000
    t1 = time.time()
    rdeadline = t1 + (max(10.0, min(30.0, 120.0 - (t1 - t0))) if quick else max(60.0, min(300.0, 900.0 - (t1 - t0))))
    per = 500 if quick else 5000
    ritems: T.List[T.Tuple[str, int, int, float]] = []
    base = chk.rng.randrange(1 << 30)
    for i in range(n_struct // per):
        ritems.append(('structured', base + i, per, rdeadline))
    for i in range(n_arb // per):
        ritems.append(('arbitrary', base + 100000 + i, per, rdeadline))
    random.Random(base).shuffle(ritems)     # so that a time cap thins both kinds evenly
    res = common.pmap(work_random, ritems, chk.jobs)
    merge(chk, res, best, totals)
    chk.notes['random'] = {'structured_planned': n_struct, 'arbitrary_planned': n_arb, 'wall_s': round(time.time() - t1, 1)}

    # ---- 3. verdict fold: streams x exit codes (beyond rc 0/1 done inside the enumeration) --------------------------
    facc = Acc()
    forms = [a + '\n' for a in gen.EXTENDED]
    frng = random.Random(f'C18:fold:{chk.seed}')
    for k in (1, 2):
        for seq in itertools.product(forms, repeat=k):
            for rc in EXIT_CODES[2:]:
                check_fold(facc, 'fold', list(seq), rc)
    for _ in range(300 if quick else 3000):
        check_fold(facc, 'fold', gen.structured(frng, max_lines=30), frng.choice(EXIT_CODES), mode=frng.choice(MODES))
    merge(chk, [facc.data()], best, totals)

    # ---- 4. a sample through the real `meson test` ------------------------------------------------------------------------
    t4 = time.time()
    meson_sample(chk)
    chk.notes['meson_test_sample_wall_s'] = round(time.time() - t4, 1)

    # ---- 5. thorough only: one more level of depth for both alphabets, as far as the clock allows -------------------------
    #         (reported in notes; `exhaustive` refers to the mandatory depths above)
    if not quick and complete:
        for alpha_name, size, depth in (('yaml13', ny, yaml_depth + 1), ('core', nc, core_depth + 1), ('ext', ne, ext_depth + 1)):
            tb = time.time()
            bdeadline = min(tb + (200.0 if alpha_name == 'yaml13' else 420.0), t0 + 1050.0)
            if bdeadline - tb < 30.0:
                chk.notes[f'deeper_{alpha_name}'] = {'depth': depth, 'streams': 0, 'complete': False, 'why': 'no time left'}
                continue
            bitems = [(alpha_name, depth, (a, b), '\n', bdeadline, False, True) for a in range(size) for b in range(size)]
            if alpha_name == 'yaml13':      # `TAP version 13` stays the first line
                bitems = [(alpha_name, depth, (0, b, c), '\n', bdeadline, False, True) for b in range(size) for c in range(size)]
            random.Random(chk.seed).shuffle(bitems)
            res = common.pmap(work_exhaustive, bitems, chk.jobs)
            bcomplete = merge(chk, res, best, totals)
            chk.notes[f'deeper_{alpha_name}'] = {'depth': depth, 'streams': sum(r['n'] for r in res),
                                                 'of': size ** (depth - 1 if alpha_name == 'yaml13' else depth), 'complete': bcomplete, 'wall_s': round(time.time() - tb, 1)}

    # ---- verdicts -----------------------------------------------------------------------------------------------------
    for mech, ws in sorted(best.items()):
        w = dict(ws[0])
        if w.get('phase', '').startswith('random') and w.get('replayable') and 'rc' not in w:
            small = minimise(list(w['lines']), mech)
            if len(small) < len(w['lines']):
                acc = Acc()
                check_stream(acc, w['phase'] + ':minimised', small)
                if mech in acc.found:
                    w = acc.found[mech][0]
        w['occurrences'] = totals.get(mech, 1)
        chk.violation(mech, w)
        if mech in chk.known:
            chk.known_hits[mech] = totals.get(mech, 1)
        chk.count('findings:' + mech, totals.get(mech, 1))
    chk.sample({'stream': ['ok 1', 'ok 1', 'ok 3'], 'real': [ev_json(e) for _, e in observe(['ok 1\n', 'ok 1\n', 'ok 3\n']).events],
                'reference': reftap.consume(['ok 1\n', 'ok 1\n', 'ok 3\n']).summary()})
    srng = random.Random(1)
    for _ in range(3):
        s = gen.structured(srng, max_lines=12)
        chk.sample({'stream': [l.rstrip('\n') for l in s], 'reference_errors': sorted(reftap.consume(s).errors)})

    for m, n in (('monitor:never-raises', 1000), ('monitor:differential-vs-reftap', 1000), ('monitor:state-and-counters', 1000),
                 ('monitor:parse_line-contract', 100), ('monitor:verdict-fold', 100), ('monitor:meson-test-verdict', 40),
                 ('monitor:pipeline-vs-direct', 1000), ('monitor:parse_async-never-raises', 1000),
                 ('monitor:differential-vs-reftap:parse_async', 1000), ('monitor:parse_async-same-events-as-parse', 1000),
                 ('observed:meson-test:death-by-signal', 100), ('observed:meson-test:death-by-signal-after-good-stream', 80),
                 ('observed:meson-test:death-by-signal:SIGTERM', 8), ('observed:meson-test:death-by-signal:SIGKILL', 8),
                 ('observed:meson-test:death-by-signal:SIGSEGV', 8), ('observed:meson-test:death-by-signal:SIGINT', 8),
                 ('observed:meson-test:death-by-signal:SIGHUP', 8), ('observed:pipeline:stream-with-empty-line', 100),
                 ('observed:meson-test:stream-with-empty-line-before-more', 20),
                 ('observed:meson-test:tap-like-or-other-stderr:no-stdsplit', 20), ('monitor:meson-test-exit-status', 10),
                 ('observed:meson-test-exit:all-good', 2), ('observed:meson-test-exit:some-bad', 8),
                 ('observed:meson-test:non-utf8-output:strict-console', 30), ('monitor:junit-report', 200),
                 ('observed:junit:bad', 50), ('observed:junit:good', 20), ('monitor:junit-root-totals', 10),
                 ('observed:meson-test:directive-lines-under-console-options', 100),
                 ('observed:meson-test:verbose-serial', 30), ('observed:meson-test:verbose-parallel', 5),
                 ('observed:fold-mode:serial+verbose', 500), ('observed:fold-mode:serial', 500), ('observed:fold-mode:parallel+verbose', 500),
                 ('contract:complete.nonzero-exit-is-bad', 100), ('pinned-streams', len(PINNED)),
                 ('probe:' + KNOWN_COMPENSATING, 1), ('probe:' + KNOWN_DIGITS, 1), ('probe:' + KNOWN_BELOW_ONE, 1)):
        chk.require(m, n)
    for k in (reftap.K_FEW, reftap.K_MANY, reftap.K_DUP, reftap.K_MISSING, reftap.K_BEYOND, reftap.K_LATE, reftap.K_PLAN2,
              reftap.K_YAML, reftap.K_VMIS, reftap.K_VLOW, reftap.K_BAIL):
        chk.require('observed:kind:' + k, 10)
    return chk.finish(
        rule='case = one line stream; exhaustive: every sequence over the 16-form core alphabet up to length '
             f'{core_depth} and over the {len(gen.EXTENDED)}-form extended alphabet up to length {ext_depth} (each with "\\n"; short ones '
             f'also bare and with "\\r\\n"), `TAP version 13` + every sequence up to length {yaml_depth - 1} over the {len(gen.YAML13)} forms around '
             'YAML blocks; every stream is parsed through parse() AND parse_async(); random: fault-injected TAP producer (<=200 lines) and arbitrary text; '
             'distinct_nontrivial = distinct outcome signatures of the reference (error-kind set x statuses x plan early/late/skip x '
             'version x YAML x ambiguous)',
        assumptions=[
            'reftap reads the TAP 12/13 specification as described in its module docstring; unnumbered tests continue from the '
            'previous number (pinned by unittests/taptests.py)',
            'error events are compared as a set of kinds at the granularity of the statement (plan/count mismatch; duplicate-or-missing '
            'numbering; beyond plan; test after late plan; second plan; unterminated YAML; misplaced / unsupported version; bail-out); '
            'the real Error events are mapped to kinds by keyword, message text and multiplicity are not compared',
            'not decided by the statement, therefore not compared: numbering once the count mismatches the plan; plan-related kinds after a '
            'second plan; anything after Bail out!; directives on a plan line; explanations of glued directives; streams with lines whose '
            'reading the specification leaves open (counted as streams-spec-ambiguous, contracts only)',
            'parse_async() is driven by hand over an async iterator that never waits; its events are judged by the same comparison '
            'with reftap (short-cut: an event list identical to the one of parse(), line by line, has the identical verdict)',
            'a program that dies by a signal after its stream "exited non-zero": `meson test` must report the test bad and exit non-zero '
            '(testlog.json result and returncode = -signal); a signal that does not end the emitter is counted, not judged',
            'the verdict fold is compared against the events the real parser produced for the same stream (the parser itself is judged by '
            'the differential); the `meson test` sample is compared end-to-end against reftap',
        ],
        exhaustive=complete,
        extra={'error_kinds_observed': {k.split(':', 2)[2]: v for k, v in sorted(chk.counters.items()) if k.startswith('observed:kind:')}})


if __name__ == '__main__':
    sys.exit(main())
