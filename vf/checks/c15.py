"""C15 - introspection files describe the build that was actually generated (relational monitor).

For every generated / corpus project ONE configuration is made (real `meson setup`, ninja backend through the NINJA shim,
monitors of vf/monitors/c15_mon.py injected) and the artefacts of that same configuration are compared with each other:

 (a) intro-targets.json  vs build.ninja parsed by vf.mininja: `filename` == the outputs of the target's link / archive /
     custom-command statement (every output), sources+generated_sources == explicit inputs of the compile statements whose
     outputs live in the target's private dir, `parameters` == shell-de-quoted ARGS (relative -I/-L made absolute, the one
     rewrite IDE-integration.md announces), `compiler`/`linker` == argv prefix of the statement's command; every link /
     custom-command / compile statement of the manifest belongs to a listed target.
 (b) intro-tests.json / intro-benchmarks.json vs (1) the pickled TestSerialisation `meson test` loads and (2) argv / env /
     cwd recorded by dumper programs run by the real `meson test` (+ protocol through the TAP-skip trick, serial tests not
     overlapping, --suite selection, start order under --num-processes 1, depends rebuilt from a clean tree).
 (c) intro-buildoptions.json vs the get_option() values the build files printed during the same setup.
 (d) intro-install_plan.json / intro-installed.json / install_filename vs the InstallData `meson install` uses (monitor) and
     vs the tree a real `meson install --destdir` (and `--tags t`) produces.
 (e) intro-buildsystem_files.json vs the build-definition files the configuring process opened (audit hook).
"""
from __future__ import annotations

import json
import os
import pickle
import random
import re
import shlex
import shutil
import subprocess
import sys
import time
import typing as T

from vf import common, runner
from vf import mininja as mn
from vf.gen import gen_c04, gen_c15
from vf.monitors import c15_mon

PID = 'C15'
NINJA = os.path.join(common.VERIF, 'tools', 'ninja')
PATH = '/venv/bin:/usr/local/bin:/usr/bin:/bin'
BUILD_FILE_NAMES = ('meson.build', 'meson.options', 'meson_options.txt')
CORPUS_DIR = os.path.join(common.REPO, 'test cases', 'common')


# ======================================================================================== small helpers
class Out:
    """What a worker returns: counters, violations (mechanism, witness), notes."""

    def __init__(self, key: str) -> None:
        self.key = key
        self.counts: T.Dict[str, int] = {}
        self.viol: T.List[T.Tuple[str, dict]] = []
        self.skipped: T.Optional[str] = None
        self.features: T.List[str] = []
        self.sample: T.Optional[dict] = None
        self.t0 = time.time()

    def count(self, k: str, n: int = 1) -> None:
        self.counts[k] = self.counts.get(k, 0) + n

    def violation(self, mech: str, **w: T.Any) -> None:
        if sum(1 for m, _ in self.viol if m == mech) < 3:
            self.viol.append((mech, {'case': self.key, **w}))
        self.count('deviation:' + mech)

    def data(self) -> dict:
        return {'key': self.key, 'counts': self.counts, 'viol': self.viol, 'skipped': self.skipped,
                'features': self.features, 'sample': self.sample, 'wall': round(time.time() - self.t0, 2)}


def load_json(path: str) -> T.Any:
    with open(path, encoding='utf-8') as f:
        return json.load(f)


def norm_params(params: T.Sequence[str], bdir: str) -> T.List[str]:
    """The one rewrite the documentation announces for `parameters` ("optimized for the usage in an IDE"): search
    paths relative to the build directory are given as absolute paths.  Applied to BOTH sides."""
    out = []
    for p in params:
        if p[:2] in ('-I', '-L') and len(p) > 2:
            out.append(p[:2] + os.path.normpath(os.path.join(bdir, p[2:])))
        else:
            out.append(p)
    return out


def abs_in(bdir: str, p: str) -> str:
    return os.path.normpath(os.path.join(bdir, p))


def render_meson(v: T.Any) -> str:
    """How message('@0@'.format(x)) renders a value (DESIGN Appendix A.1)."""
    if isinstance(v, bool):
        return 'true' if v else 'false'
    if isinstance(v, int):
        return str(v)
    if isinstance(v, list):
        return '[' + ', '.join("'" + str(e) + "'" for e in v) + ']'
    return str(v)


def parse_dump(path: str) -> dict:
    rec: T.Dict[str, T.Any] = {'argv': [], 'env': {}, 'cwd': None, 't0': None, 't1': None}
    with open(path, encoding='ascii') as f:
        for line in f:
            tag, _, rest = line.rstrip('\n').partition(' ')
            if tag == 'T':
                a, b = rest.split()
                rec['t0'], rec['t1'] = float(a), float(b)
                continue
            s = bytes.fromhex(rest).decode('utf-8', 'surrogateescape')
            if tag == 'A':
                rec['argv'].append(s)
            elif tag == 'E':
                k, _, v = s.partition('=')
                rec['env'][k] = v
            elif tag == 'C':
                rec['cwd'] = s
    return rec


def read_dumps(d: str) -> T.List[dict]:
    out = []
    for n in sorted(os.listdir(d)):
        if n.endswith('.rec'):
            try:
                out.append(parse_dump(os.path.join(d, n)))
            except (ValueError, OSError):
                pass
            os.unlink(os.path.join(d, n))
    return out


def dump_id(rec: dict) -> T.Optional[str]:
    for a in rec['argv'][1:3]:
        if a.startswith('ID:'):
            return a[3:]
    return None


def intro_ids(desc: dict, entries: T.List[dict]) -> T.Dict[str, str]:
    """intro test name -> id of the dumper test (the generator puts 'ID:<id>' first among the arguments)."""
    out: T.Dict[str, str] = {}
    for it in entries:
        for a in it['cmd'][1:3]:
            if a.startswith('ID:') and a[3:] in desc['dumper_tests']:
                out[it['name']] = a[3:]
    return out


def tree_files(root: str) -> T.Dict[str, str]:
    """relative path -> 'f' | 'l' for every non-directory below root."""
    out: T.Dict[str, str] = {}
    for dp, dns, fns in os.walk(root):
        for n in fns + [d for d in dns if os.path.islink(os.path.join(dp, d))]:
            p = os.path.join(dp, n)
            out['/' + os.path.relpath(p, root)] = 'l' if os.path.islink(p) else 'f'
    return out


def same_content(a: str, b: str) -> bool:
    try:
        with open(a, 'rb') as fa, open(b, 'rb') as fb:
            return fa.read() == fb.read()
    except OSError:
        return False


# ======================================================================================== (a) targets vs build.ninja
CUSTOM_RULE = re.compile(r'^CUSTOM_COMMAND(_DEP)?$')


def is_compile(e: mn.Edge) -> bool:
    n = e.rule.name
    return bool(re.search(r'_COMPILER(_FOR_BUILD)?(_RSP)?$', n))


def is_link(e: mn.Edge) -> bool:
    n = e.rule.name
    return bool(re.search(r'_LINKER(_FOR_BUILD)?(_RSP)?$', n)) or n.startswith('STATIC_LINKER')


def is_custom(e: mn.Edge) -> bool:
    return bool(CUSTOM_RULE.match(e.rule.name))


def split_cmd(s: str) -> T.Optional[T.List[str]]:
    try:
        return shlex.split(s)
    except ValueError:
        return None


def classify_link_params(intro: T.List[str], ninja: T.List[str]) -> str:
    """WHY do the linker parameters differ?"""
    grp = ('-Wl,--start-group', '-Wl,--end-group')
    if [p for p in intro if p not in grp] == [p for p in ninja if p not in grp]:
        if intro.count(grp[0]) > ninja.count(grp[0]) or intro.count(grp[1]) > ninja.count(grp[1]):
            return 'linker-parameters-group-flags-doubled'
        return 'linker-parameters-group-flags-differ'
    return 'linker-parameters-differ-from-LINK_ARGS'


def check_targets(o: Out, bdir: str, src: str, targets: T.List[dict], m: mn.Manifest) -> None:
    def built(path: str) -> bool:
        e = m.producer.get(os.path.relpath(path, bdir))
        return e is not None and not e.is_phony

    owned_edges: T.Set[int] = set()
    privdirs: T.Dict[str, str] = {}
    by_id = {t['id']: t for t in targets}
    if len(by_id) != len(targets):
        o.violation('targets-duplicate-id', ids=[t['id'] for t in targets])
    for t in targets:
        o.count('monitor:targets.filename')
        typ = t['type']
        fns = t['filename']
        if not fns or not all(os.path.isabs(f) for f in fns):
            o.violation('target-filename-empty-or-relative', target=t['id'], filename=fns)
            continue
        rel = [os.path.relpath(f, bdir) for f in fns]
        if typ in ('run', 'alias'):
            # no file is generated; IDE-integration.md promises nothing for `filename` here -> consistency only
            o.count('targets:run-or-alias')
            continue
        if typ not in ('executable', 'static library', 'shared library', 'shared module', 'custom'):
            # e.g. `compile` (compiler.preprocess()), jar: one statement per output
            o.count('targets:other-type:' + typ)
            for f in rel:
                e = m.producer.get(f)
                if e is None or e.is_phony:
                    inpriv = os.path.join(os.path.dirname(f), t['name'] + '.p', os.path.basename(f))
                    mech = 'compile-target-filename-omits-the-private-dir-the-statement-writes-to' if (
                        typ == 'compile' and inpriv in m.producer) else 'target-filename-not-produced-by-build.ninja'
                    o.violation(mech, target=t['id'], type=typ, filename=f, statement_output=inpriv if inpriv in m.producer else None)
                else:
                    owned_edges.add(e.idx)
            for e in m.edges:
                if e.outputs and all(x.startswith(os.path.join(os.path.dirname(rel[0]), t['name'] + '.p') + '/') for x in e.outputs):
                    owned_edges.add(e.idx)
            continue
        prod = m.producer.get(rel[0])
        if prod is None or prod.is_phony:
            o.violation('target-filename-not-produced-by-build.ninja', target=t['id'], type=typ, filename=rel,
                        producer=None if prod is None else prod.rule.name)
            continue
        owned_edges.add(prod.idx)
        if sorted(rel) != sorted(prod.outputs) or len(set(rel)) != len(rel):
            extra_ok = set(prod.outputs) <= set(rel) and set(rel) <= set(prod.all_outputs)
            if not extra_ok:
                mech = 'target-filename-lists-fewer-outputs-than-statement' if set(rel) < set(prod.outputs) else \
                    'target-filename-differs-from-statement-outputs'
                o.violation(mech, target=t['id'], type=typ, filename=rel, statement_outputs=prod.outputs)
        if typ == 'custom':
            if not is_custom(prod):
                o.violation('custom-target-produced-by-unexpected-rule', target=t['id'], rule=prod.rule.name)
            o.count('monitor:targets.custom-sources')
            ts = t.get('target_sources') or []
            listed = sorted(x for e in ts for x in e.get('sources', []) + e.get('generated_sources', []))
            used = sorted(abs_in(bdir, x) for x in prod.inputs)
            if listed != used:
                # documentation is silent about target_sources of custom targets: counted, not a violation
                o.count('note:custom-target-sources-differ-from-statement-inputs')
                if os.environ.get('C15_DEBUG'):
                    print('CTSRC', t['id'], listed, used, file=sys.stderr)
            continue
        # ---- build targets
        if not is_link(prod):
            if typ == 'jar' or prod.rule.name.endswith('_COMPILER'):
                o.count('targets:not-a-link-statement')
            else:
                o.violation('build-target-produced-by-unexpected-rule', target=t['id'], type=typ, rule=prod.rule.name)
            continue
        priv = rel[0] + '.p'
        privdirs[priv] = t['id']
        cedges = [e for e in m.edges if is_compile(e) and e.outputs and all(x.startswith(priv + '/') for x in e.outputs)]
        for e in cedges:
            owned_edges.add(e.idx)
        entries = [e for e in t.get('target_sources', []) if 'language' in e]
        lentries = [e for e in t.get('target_sources', []) if 'linker' in e]
        o.count('monitor:targets.sources')
        listed_src = [x for e in entries for x in e.get('sources', [])]
        listed_gen = [x for e in entries for x in e.get('generated_sources', [])]
        used = [abs_in(bdir, x) for e in cedges for x in e.inputs]
        if sorted(listed_src + listed_gen) != sorted(used):
            missing = sorted(set(used) - set(listed_src + listed_gen))
            extra = sorted(set(listed_src + listed_gen) - set(used))
            gen_missing = [x for x in missing if built(x)]
            if missing and gen_missing == missing:
                mech = 'target-sources-omit-generated-sources'
            elif missing and not extra:
                mech = 'target-sources-omit-compiled-sources'
            elif extra and not missing:
                mech = 'target-sources-list-files-no-statement-compiles'
            elif not missing and not extra:
                mech = 'target-sources-multiplicity-differs'
            else:
                mech = 'target-sources-differ-from-compile-inputs'
            o.violation(mech, target=t['id'], missing=missing[:6], extra=extra[:6])
        for x in listed_src:
            if built(x):
                o.violation('built-file-listed-as-plain-source', target=t['id'], file=x)
        for x in listed_gen:
            if not (x.startswith(bdir + os.sep)):
                o.violation('generated-source-outside-build-dir', target=t['id'], file=x)
        # unity: the unity file is the compile input; unity_sources must be what it includes
        for e in entries:
            us = e.get('unity_sources') or []
            if us:
                o.count('monitor:targets.unity_sources')
                inc: T.List[str] = []
                for g in e.get('generated_sources', []):
                    try:
                        with open(g, encoding='utf-8') as f:
                            inc += [abs_in(os.path.dirname(g), mm.group(1) or mm.group(2)) for mm in re.finditer(r'(?m)^#include\s*(?:<(.+)>|"(.+)")\s*$', f.read())]
                    except OSError:
                        pass
                if set(inc) != {os.path.normpath(u) for u in us}:
                    o.violation('unity-sources-differ-from-unity-file-includes', target=t['id'], unity_sources=us[:6], included=inc[:6])
        # per compile statement: parameters and compiler
        for e in cedges:
            o.count('monitor:targets.parameters')
            inp = [abs_in(bdir, x) for x in e.inputs]
            ent = [en for en in entries if any(i in en.get('sources', []) + en.get('generated_sources', []) for i in inp)]
            if not ent:
                continue        # already reported above
            args = split_cmd(e.get('ARGS'))
            cmd = split_cmd(e.get('command'))
            if args is None or cmd is None:
                o.count('inconclusive:unsplittable-command')
                continue
            want = norm_params(args, bdir)
            got = norm_params(ent[0]['parameters'], bdir)
            if want != got:
                lost = [a for a in want if a not in got]
                if lost and all(a.startswith('-J') for a in lost) and [a for a in want if not a.startswith('-J')] == got:
                    # Fortran module output directory: where outputs go, added after the introspection snapshot
                    o.count('note:parameters-omit-fortran-module-outdir')
                    continue
                added = [a for a in got if a not in want]
                if not lost and not added:
                    mech = 'parameters-order-differs-from-ARGS'
                elif lost and not added:
                    mech = 'parameters-omit-arguments-of-ARGS'
                elif added and not lost:
                    mech = 'parameters-contain-arguments-not-in-ARGS'
                else:
                    mech = 'parameters-differ-from-ARGS'
                o.violation(mech, target=t['id'], statement=e.outputs[0], lost=lost[:6], added=added[:6])
            comp = ent[0].get('compiler', [])
            if cmd[:len(comp)] != comp or not comp:
                o.violation('compiler-is-not-the-command-prefix', target=t['id'], compiler=comp, command=cmd[:4])
        # linker entry
        for le in lentries:
            o.count('monitor:targets.linker')
            cmd = split_cmd(prod.get('command'))
            largs = split_cmd(prod.get('LINK_ARGS'))
            if cmd is None or largs is None:
                o.count('inconclusive:unsplittable-command')
                continue
            n = len(le['linker'])
            if not le['linker'] or not any(cmd[i:i + n] == le['linker'] for i in range(len(cmd))):
                o.violation('linker-is-not-the-command-prefix', target=t['id'], linker=le['linker'], command=cmd[:4])
            if le['parameters'] != largs:
                o.violation(classify_link_params(le['parameters'], largs), target=t['id'], intro=le['parameters'], LINK_ARGS=largs)
        if len(lentries) != 1:
            o.count('note:linker-entries!=1')
    # ---- every statement of the manifest belongs to a listed target
    o.count('monitor:targets.manifest-coverage')
    for e in m.edges:
        if e.idx in owned_edges or e.is_phony:
            continue
        outs = e.outputs
        if is_link(e):
            o.violation('link-statement-without-introspected-target', outputs=outs)
        elif is_compile(e):
            o.violation('compile-statement-outside-any-listed-target', outputs=outs)
        elif is_custom(e):
            if all(x.startswith('meson-internal__') or x in ('clean', 'clean-ctlist') for x in outs):
                continue
            if any(('.p/' in x) for x in outs):
                continue            # generator() steps inside a private dir
            o.violation('custom-command-statement-without-introspected-target', outputs=outs)


# ======================================================================================== (b) tests
TEST_FIELDS = ('name', 'workdir', 'timeout', 'suite', 'is_parallel', 'priority', 'depends', 'extra_paths')


def check_tests_pickle(o: Out, bdir: str, kind: str, intro: T.List[dict]) -> T.Optional[list]:
    p = os.path.join(bdir, 'meson-private', 'meson_test_setup.dat' if kind == 'tests' else 'meson_benchmark_setup.dat')
    try:
        with open(p, 'rb') as f:
            ser = pickle.load(f)
    except Exception as e:
        o.count('inconclusive:test-pickle-unreadable')
        o.violation('test-serialisation-unreadable', kind=kind, err=repr(e))
        return None
    o.count('monitor:tests.pickle', 1)
    if [t.name for t in ser] != [t['name'] for t in intro]:
        o.violation(f'intro-{kind}-list-differs-from-serialised-tests', intro=[t['name'] for t in intro][:10], pickled=[t.name for t in ser][:10])
        return ser
    for ts, it in zip(ser, intro):
        o.count('monitor:tests.pickle-fields')
        fname = [ts.fname] if isinstance(ts.fname, str) else list(ts.fname)
        want = {'cmd': fname + list(ts.cmd_args), 'protocol': str(ts.protocol)}
        try:
            want['env'] = ts.env.get_env({}) if hasattr(ts.env, 'get_env') else dict(ts.env)
        except Exception as e:
            want['env'] = repr(e)
        for f in TEST_FIELDS:
            want[f] = getattr(ts, f)
        for f, w in want.items():
            if it.get(f, '<absent>') != w:
                o.violation(f'intro-{kind}-{f}-differs-from-serialised-test', test=it['name'], intro=it.get(f, '<absent>'), pickled=w)
    return ser


def meson_test(bdir: str, argv: T.List[str], dumpdir: str, timeout: float = 300.0) -> runner.Result:
    env = {'PATH': PATH, 'C15_DUMPDIR': dumpdir, 'MESON_TESTTHREADS': '4'}
    return runner.meson(['test', '-C', bdir] + argv, env=env, timeout=timeout)


def check_dump_against_intro(o: Out, rec: dict, it: dict, kind: str) -> None:
    o.count('monitor:tests.dumper-argv-env')
    if rec['argv'] != it['cmd']:
        o.violation(f'intro-{kind}-cmd-differs-from-argv-seen-by-program', test=it['name'], intro=it['cmd'], argv=rec['argv'])
    for k, v in it['env'].items():
        if rec['env'].get(k) != v:
            o.violation(f'intro-{kind}-env-differs-from-environment-seen-by-program', test=it['name'], var=k, intro=v, seen=rec['env'].get(k))
    seen_mine = sorted(k for k in rec['env'] if k.startswith('C15V_'))
    intro_mine = sorted(k for k in it['env'] if k.startswith('C15V_'))
    if seen_mine != intro_mine:
        o.violation(f'intro-{kind}-env-omits-variable-the-program-got', test=it['name'], intro=intro_mine, seen=seen_mine)
    if it['workdir'] is not None and os.path.realpath(it['workdir']) != os.path.realpath(rec['cwd'] or ''):
        o.violation(f'intro-{kind}-workdir-differs-from-cwd-seen-by-program', test=it['name'], intro=it['workdir'], cwd=rec['cwd'])


def check_tests_run(o: Out, bdir: str, desc: dict, tests: T.List[dict], benches: T.List[dict], targets: T.List[dict],
                    rng: random.Random, scratch: str) -> None:
    dumpdir = os.path.join(scratch, 'dump')
    os.makedirs(dumpdir, exist_ok=True)
    names = intro_ids(desc, tests + benches)

    def by_id(recs: T.List[dict]) -> T.Dict[str, T.List[dict]]:
        d: T.Dict[str, T.List[dict]] = {}
        for r in recs:
            i = dump_id(r)
            if i is not None:
                d.setdefault(i, []).append(r)
        return d

    # --- 1. full parallel run of the tests
    r = meson_test(bdir, ['--no-rebuild', '--num-processes', '4'], dumpdir)
    recs = by_id(read_dumps(dumpdir))
    if r.timed_out or r.rc not in (0,):
        o.count('inconclusive:meson-test-failed')
        o.violation('meson-test-run-failed', rc=r.rc, tail=(r.out + r.err)[-800:])
        return
    try:
        log = [json.loads(ln) for ln in open(os.path.join(bdir, 'meson-logs', 'testlog.json'), encoding='utf-8') if ln.strip()]
    except (OSError, ValueError):
        log = []
    result = {e['name']: e.get('result') for e in log}
    intervals = []
    for it in tests:
        tid = names.get(it['name'])
        if tid is None:
            continue
        rr = recs.get(tid, [])
        if len(rr) != 1:
            o.violation('intro-tests-lists-test-that-meson-test-did-not-run-once', test=it['name'], runs=len(rr))
            continue
        check_dump_against_intro(o, rr[0], it, 'tests')
        intervals.append((rr[0]['t0'], rr[0]['t1'], it['name'], it['is_parallel']))
        # protocol: the program prints a TAP stream whose single test is skipped and exits 0
        o.count('monitor:tests.protocol')
        pretty = [k for k in result if k == it['name'] or k.endswith(' / ' + it['name']) or k.endswith(':' + it['name'])]
        res = result.get(pretty[0]) if len(pretty) == 1 else None
        if res is not None:
            want = 'SKIP' if it['protocol'] == 'tap' else 'OK'
            if res != want:
                o.violation('intro-tests-protocol-differs-from-how-meson-test-read-the-output', test=it['name'],
                            protocol=it['protocol'], result=res)
        else:
            o.count('note:testlog-entry-not-found')
    ran = set(recs)
    listed = {names[t['name']] for t in tests if t['name'] in names}
    for extra in sorted(ran - listed):
        o.violation('meson-test-ran-test-not-in-intro-tests', id=extra)
    for a in intervals:
        if a[3]:
            continue
        o.count('monitor:tests.serial-no-overlap')
        for b in intervals:
            if b is not a and a[0] < b[1] and b[0] < a[1]:
                o.violation('intro-tests-is_parallel-false-but-test-overlapped-another', test=a[2], other=b[2])
    # --- 2. suite selection + start order with one process
    suites = sorted({s for t in tests for s in t['suite']})
    if suites and tests:
        s = rng.choice(suites)
        r = meson_test(bdir, ['--no-rebuild', '--num-processes', '1', '--suite', s], dumpdir)
        recs2 = read_dumps(dumpdir)
        o.count('monitor:tests.suite-selection')
        if r.rc != 0 or r.timed_out:
            o.count('inconclusive:meson-test-failed')
        else:
            # Unit-tests.md: `--suite proj:name` selects that suite of that (sub)project, `--suite proj` every test of it
            def selected(t: dict) -> bool:
                return any(st == s or (':' not in s and s in st.split(':', 1)) for st in t['suite'])
            expect = [names[t['name']] for t in tests if selected(t) and t['name'] in names]
            order = [dump_id(x) for x in sorted(recs2, key=lambda x: x['t0'])]
            if sorted(order) != sorted(expect):
                o.violation('intro-tests-suite-differs-from-suite-selection-of-meson-test', suite=s, intro=expect, ran=order)
            elif order != expect:
                o.violation('intro-tests-order-differs-from-start-order-of-meson-test', suite=s, intro=expect, ran=order)
            o.count('monitor:tests.start-order')
    # --- 3. benchmarks
    if benches:
        r = meson_test(bdir, ['--benchmark', '--no-rebuild'], dumpdir)
        recs3 = by_id(read_dumps(dumpdir))
        if r.rc != 0 or r.timed_out:
            o.count('inconclusive:meson-test-failed')
            o.violation('meson-test-run-failed', rc=r.rc, benchmark=True, tail=(r.out + r.err)[-800:])
        else:
            for it in benches:
                tid = names.get(it['name'])
                if tid is None:
                    continue
                rr = recs3.get(tid, [])
                if len(rr) != 1:
                    o.violation('intro-benchmarks-lists-test-that-meson-test-did-not-run-once', test=it['name'], runs=len(rr))
                    continue
                check_dump_against_intro(o, rr[0], it, 'benchmarks')
            listed = {names[t['name']] for t in benches if t['name'] in names}
            for extra in sorted(set(recs3) - listed):
                o.violation('meson-test-ran-benchmark-not-in-intro-benchmarks', id=extra)


def check_test_depends(o: Out, bdir: str, desc: dict, tests: T.List[dict], targets: T.List[dict], rng: random.Random,
                       scratch: str) -> None:
    """From a tree where nothing is built: `meson test <name>` rebuilds what the test needs.  Afterwards every file of
    every target in the intro `depends` of that test exists, and the program ran with the introspected argv."""
    dumpdir = os.path.join(scratch, 'dump')
    os.makedirs(dumpdir, exist_ok=True)
    names = intro_ids(desc, tests)
    cands = [t for t in tests if t['name'] in names and t['depends']]
    if not cands:
        return
    it = rng.choice(cands)
    tmap = {t['id']: t for t in targets}
    # test names may need the "project:name" form when ambiguous; names are unique here
    r = meson_test(bdir, [it['name']], dumpdir, timeout=600)
    recs = read_dumps(dumpdir)
    o.count('monitor:tests.depends-rebuilt')
    if r.rc != 0 or r.timed_out:
        o.violation('meson-test-of-one-test-from-clean-tree-failed', test=it['name'], depends=it['depends'], rc=r.rc,
                    tail=(r.out + r.err)[-1200:])
        return
    for d in it['depends']:
        t = tmap.get(d)
        if t is None:
            o.violation('intro-tests-depends-names-unknown-target', test=it['name'], depends=d)
            continue
        for f in t['filename']:
            if not os.path.exists(f):
                o.violation('intro-tests-depends-target-not-built-by-meson-test', test=it['name'], target=d, file=f)
    mine = [x for x in recs if dump_id(x) == names[it['name']]]
    if len(mine) == 1:
        check_dump_against_intro(o, mine[0], it, 'tests')
    # every build product among the argv that the program received exists now (they are in `depends` per the docs)
    for a in (mine[0]['argv'] if mine else []):
        pa = a if os.path.isabs(a) else os.path.normpath(os.path.join(mine[0]['cwd'] or bdir, a))
        if (pa.startswith(bdir + os.sep) and not os.path.exists(pa)
                and any(pa in t['filename'] for t in targets)):
            o.violation('intro-tests-depends-omits-build-product-argument', test=it['name'], arg=a)


# ======================================================================================== (c) build options
OPT_LINE = re.compile(r'C15OPT\|([^|]*)\|([^|]*)\|(.*)$')


def check_options(o: Out, setup_out: str, buildopts: T.List[dict], desc: dict) -> None:
    byname = {}
    for e in buildopts:
        if e['name'] in byname:
            o.violation('buildoptions-duplicate-name', name=e['name'])
        byname[e['name']] = e
    pytype = {'boolean': bool, 'integer': int, 'array': list, 'string': str, 'combo': str}
    for e in buildopts:
        o.count('monitor:buildoptions.type')
        want_t = pytype.get(e.get('type', ''))
        if want_t is None or type(e['value']) is not want_t:
            if e['name'] == 'install_umask' and e.get('type') in ('string', 'integer'):
                continue
            o.violation('buildoptions-value-type-differs-from-declared-type', name=e['name'], type=e.get('type'), value=e['value'])
    printed: T.Dict[T.Tuple[str, str], str] = {}
    for line in setup_out.splitlines():
        mm = OPT_LINE.search(line)
        if mm:
            printed[(mm.group(1), mm.group(2))] = mm.group(3)
    for (proj, name), val in sorted(printed.items()):
        o.count('monitor:buildoptions.value')
        own = byname.get(name if proj == 'top' else f'{proj}:{name}')
        glob = byname.get(name)
        if own is not None:
            if render_meson(own['value']) != val:
                if proj != 'top' and glob is not None and glob['section'] == 'user' and render_meson(glob['value']) == val:
                    o.violation('buildoptions-yielding-subproject-option-reports-own-value-not-the-parents',
                                project=proj, option=name, json=own['value'], get_option=val, parent=glob['value'])
                else:
                    o.violation('buildoptions-value-differs-from-get_option', project=proj, option=name, json=own['value'], get_option=val)
            continue
        if glob is None or (proj != 'top' and glob['section'] == 'user'):
            o.violation('buildoptions-option-missing', project=proj, option=name, get_option=val)
            continue
        # a global option read from a subproject: the JSON has one entry for all projects
        o.count('monitor:buildoptions.subproject-reads-global')
        if render_meson(glob['value']) != val:
            o.violation('buildoptions-per-subproject-override-of-global-option-not-reported', project=proj, option=name,
                        json_global=glob['value'], get_option=val)
    for proj, names in desc.get('printed', {}).items():
        for n in names:
            if (proj, n) not in printed:
                o.count('inconclusive:option-not-printed')


# ======================================================================================== (d) install
PLACEHOLDER = re.compile(r'\{([a-z_]+)\}')


def resolver(buildopts: T.List[dict]) -> T.Callable[[str], T.Optional[str]]:
    val = {e['name']: e['value'] for e in buildopts if e['section'] == 'directory'}
    prefix = val['prefix']
    alias = {'libdir_shared': 'libdir', 'libdir_static': 'libdir', 'moduledir_shared': 'libdir'}

    def resolve(dest: str) -> T.Optional[str]:
        bad = []

        def sub(mm: 're.Match[str]') -> str:
            n = alias.get(mm.group(1), mm.group(1))
            if n not in val:
                bad.append(n)
                return ''
            v = val[n]
            return v if n == 'prefix' or os.path.isabs(v) else os.path.join(prefix, v)
        s = PLACEHOLDER.sub(sub, dest)
        if bad:
            return None
        return os.path.normpath(s if os.path.isabs(s) else os.path.join(prefix, s))
    return resolve


def plan_entries(plan: dict) -> T.List[T.Tuple[str, str, dict]]:
    return [(sec, path, ent) for sec, d in plan.items() for path, ent in d.items()]


def check_install_static(o: Out, bdir: str, plan: dict, installed: dict, buildopts: T.List[dict], targets: T.List[dict],
                         idata: T.List[dict]) -> None:
    """Plan / installed / install_filename vs each other and vs the InstallData the backend produced (monitor)."""
    resolve = resolver(buildopts)
    o.count('monitor:install.plan-vs-installed')
    for sec, path, ent in plan_entries(plan):
        dest = resolve(ent['destination'])
        if dest is None:
            o.count('inconclusive:unknown-placeholder')
            continue
        if path not in installed:
            o.violation('install_plan-entry-missing-from-intro-installed', section=sec, path=path)
        elif os.path.normpath(installed[path]) != dest:
            o.violation('intro-installed-destination-differs-from-install_plan', section=sec, path=path,
                        installed=installed[path], plan=ent['destination'], resolved=dest)
    if not idata:
        return
    if any(d != idata[0] for d in idata[1:]):
        o.violation('create_install_data-not-deterministic-within-one-configuration')
    d = idata[0]
    o.count('monitor:install.plan-vs-InstallData')
    pfx = d['prefix']
    used: T.List[T.Tuple[str, str, str, T.Optional[str]]] = []       # (section, build-time path, abs destination, tag)
    for fname, outdir, out_name, tag, optional, sp in d['targets']:
        used.append(('targets', os.path.join(d['build_dir'], fname), os.path.normpath(os.path.join(pfx, outdir, os.path.basename(fname))), tag))
    for sec in ('data', 'headers', 'man', 'install_subdirs'):
        for ent in d[sec]:
            path, ipath, iname, tag, dtype, sp = ent[:6]
            dst = os.path.join(pfx, ipath, os.path.basename(path)) if sec == 'headers' else os.path.join(pfx, ipath)
            used.append((dtype or sec, path, os.path.normpath(dst), tag))
    seen: T.Dict[T.Tuple[str, str], T.List[T.Tuple[str, T.Optional[str]]]] = {}
    for sec, path, dst, tag in used:
        seen.setdefault((sec, path), []).append((dst, tag))
    for (sec, path), lst in seen.items():
        ent = plan.get(sec, {}).get(path)
        if ent is None:
            o.violation('installed-item-missing-from-install_plan', section=sec, path=path, destinations=lst)
            continue
        dest = resolve(ent['destination'])
        if len(lst) > 1 and len(set(lst)) > 1:
            o.violation('install_plan-keyed-by-source-path-drops-second-installation-of-same-source', section=sec, path=path,
                        install_uses=lst, plan=ent)
            continue
        if dest is not None and dest != lst[0][0]:
            o.violation('install_plan-destination-differs-from-what-meson-install-uses', section=sec, path=path,
                        plan=ent['destination'], resolved=dest, install=lst[0][0])
        if (ent['tag'] or None) != (lst[0][1] or None):
            o.violation('install_plan-tag-differs-from-what-meson-install-uses', section=sec, path=path, plan=ent['tag'], install=lst[0][1])
    for sec, path, ent in plan_entries(plan):
        if (sec, path) not in seen:
            o.violation('install_plan-names-item-meson-install-does-not-install', section=sec, path=path)
    # install_filename of intro-targets.json
    o.count('monitor:install.install_filename')
    tdst: T.Dict[str, T.List[str]] = {}
    for sec, path, dst, tag in used:
        if sec == 'targets':
            tdst.setdefault(path, []).append(dst)
    for t in targets:
        any_installed = [f for f in t['filename'] if f in tdst]
        if bool(any_installed) != bool(t.get('installed')):
            if t['type'] not in ('run', 'alias'):
                o.violation('target-installed-flag-differs-from-install-data', target=t['id'], installed=t.get('installed'), files=any_installed)
        if not t.get('installed'):
            continue
        inf = t.get('install_filename', [])
        for f, dsts in ((f, tdst.get(f)) for f in t['filename']):
            if dsts is None:
                continue
            if not any(x in inf for x in dsts):
                o.violation('target-install_filename-differs-from-where-meson-install-puts-the-file', target=t['id'], file=f,
                            install_filename=inf, install=dsts)


def meson_install(bdir: str, destdir: str, extra: T.List[str]) -> runner.Result:
    return runner.meson(['install', '-C', bdir, '--no-rebuild', '--destdir', destdir, '--quiet'] + extra, env={'PATH': PATH}, timeout=300)


def expected_tree(o: Out, plan: dict, installed: dict, resolve: T.Callable[[str], T.Optional[str]], tag: T.Optional[str],
                  all_tags: bool) -> T.Tuple[T.Dict[str, str], T.List[str], T.Set[str]]:
    """files: abs destination -> build-time source; dirs: destination dirs of install_subdirs; symlink destinations."""
    files: T.Dict[str, str] = {}
    dirs: T.List[str] = []
    for sec, path, ent in plan_entries(plan):
        if not all_tags and ent['tag'] != tag:
            continue
        dest = resolve(ent['destination'])
        if dest is None:
            continue
        if sec == 'install_subdirs':
            excl_f = set(ent.get('exclude_files', []))
            excl_d = set(ent.get('exclude_dirs', []))
            dirs.append(dest)
            for dp, dns, fns in os.walk(path):
                reld = os.path.relpath(dp, path)
                reld = '' if reld == '.' else reld
                dns[:] = [d for d in dns if os.path.join(reld, d) not in excl_d]
                for n in fns:
                    if os.path.join(reld, n) in excl_f:
                        continue
                    files[os.path.normpath(os.path.join(dest, reld, n))] = os.path.join(dp, n)
        else:
            files[dest] = path
    links = {os.path.normpath(v) for k, v in installed.items() if not os.path.isabs(k)}
    return files, dirs, links


def check_install_run(o: Out, bdir: str, plan: dict, installed: dict, buildopts: T.List[dict], scratch: str,
                      rng: random.Random, max_tags: int) -> None:
    resolve = resolver(buildopts)
    tags = sorted({ent['tag'] for _, _, ent in plan_entries(plan) if ent['tag']})
    runs: T.List[T.Tuple[T.Optional[str], bool]] = [(None, True)]
    rng.shuffle(tags)
    runs += [(t, False) for t in tags[:max_tags]]
    for k, (tag, all_tags) in enumerate(runs):
        dest = os.path.join(scratch, f'dest{k}')
        shutil.rmtree(dest, ignore_errors=True)
        r = meson_install(bdir, dest, [] if all_tags else ['--tags', T.cast(str, tag)])
        o.count('monitor:install.real-install' + ('' if all_tags else '-tags'))
        if r.rc != 0 or r.timed_out:
            o.count('inconclusive:meson-install-failed')
            o.violation('meson-install-failed', tag=tag, rc=r.rc, tail=(r.out + r.err)[-800:])
            continue
        want, dirs, links = expected_tree(o, plan, installed, resolve, tag, all_tags)
        have = tree_files(dest) if os.path.isdir(dest) else {}
        for p, srcp in sorted(want.items()):
            o.count('monitor:install.entry-present')
            if p not in have:
                o.violation('install_plan-entry-not-at-destination-after-meson-install', tag=tag, source=srcp, destination=p,
                            near=sorted(h for h in have if os.path.basename(h) == os.path.basename(p))[:4])
            elif not srcp.startswith(bdir + os.sep) or srcp.endswith(('.txt', '.h', '.c', '.dat')):
                if have[p] == 'f' and not same_content(srcp, dest + p):
                    o.violation('install_plan-destination-holds-a-different-file', tag=tag, source=srcp, destination=p)
        for p, k2 in sorted(have.items()):
            o.count('monitor:install.nothing-else-installed')
            if p in want:
                continue
            if k2 == 'l' and p in links:
                continue
            if any(p.startswith(d + os.sep) for d in dirs) and all_tags is False and False:
                continue
            o.violation('meson-install-installed-file-the-plan-does-not-name', tag=tag, file=p, is_link=(k2 == 'l'))
        shutil.rmtree(dest, ignore_errors=True)


# ======================================================================================== (e) buildsystem files
def check_buildsystem_files(o: Out, src: str, listed: T.List[str], opened: T.List[dict], desc: T.Optional[dict],
                            setup_out: str) -> None:
    """listed (intro-buildsystem_files.json) vs opened (audit hook).  Only files NAMED like build definitions are judged:
    the JSON also carries other reconfigure dependencies (run_command scripts, configure_file inputs, programs), which
    IDE-integration.md neither promises nor excludes -> counted."""
    o.count('monitor:buildsystem_files')
    src_r = os.path.realpath(src)
    lset = {os.path.normpath(p) for p in listed}
    lreal = {os.path.realpath(p) for p in lset}
    if len(lset) != len(listed):
        o.violation('buildsystem_files-duplicates', listed=listed)
    oany = {os.path.normpath(x['open']) for x in opened}
    oany |= {os.path.realpath(p) for p in oany}
    otext = {os.path.normpath(x['open']) for x in opened if x.get('text')}
    for p in sorted(lset):
        if os.path.basename(p) not in BUILD_FILE_NAMES:
            o.count('note:buildsystem_files-lists-other-reconfigure-dependency')
            continue
        o.count('monitor:buildsystem_files.listed-build-file')
        if p not in oany and os.path.realpath(p) not in oany:
            o.violation('buildsystem_files-lists-build-file-that-was-never-opened', file=p)
    failed_sp = set(re.findall(r'Subproject\s+(\S+)\s+is buildable: NO', setup_out))
    for p in sorted(otext):
        b = os.path.basename(p)
        if b in BUILD_FILE_NAMES:
            o.count('monitor:buildsystem_files.opened-build-file')
            if p not in lset and os.path.realpath(p) not in lreal:
                sub = os.path.relpath(os.path.realpath(p), src_r)
                if any(sub.startswith(f.rstrip('/') + '/') for f in failed_sp):
                    mech = 'buildsystem_files-omits-build-files-of-optional-subproject-that-failed-to-configure'
                elif b != 'meson.build':
                    mech = 'buildsystem_files-omits-read-options-file'
                elif os.path.dirname(sub):
                    mech = 'buildsystem_files-omits-read-subdir-build-file'
                else:
                    mech = 'buildsystem_files-omits-read-build-file'
                o.violation(mech, file=p)
        elif b.endswith('.wrap'):
            o.count('note:wrap-file-read' + ('' if p in lset else '-not-listed'))
    if desc is not None:
        for rel in desc['never_read']:
            if os.path.normpath(os.path.join(src, rel)) in lset:
                o.violation('buildsystem_files-lists-file-of-unevaluated-directory', file=rel)
        for rel in desc['must_read']:
            if os.path.normpath(os.path.join(src, rel)) not in otext:
                o.count('inconclusive:generator-expected-file-not-opened')


# ======================================================================================== ordering monitor
def check_order(o: Out, bdir: str, records: T.List[dict]) -> T.List[dict]:
    evs = [r for r in records if 'ev' in r]
    names = [e['ev'] for e in evs]
    o.count('monitor:order.intro-after-generate')
    try:
        ge = names.index('generate:end')
        ib = names.index('intro:begin')
    except ValueError:
        o.violation('introspection-or-generate-never-ran', events=names[:20])
        return []
    if ib < ge:
        o.violation('introspection-dump-started-before-backend-generate-finished', events=names[:20])
    final = c15_mon._sha(os.path.join(bdir, 'build.ninja'))
    if evs[ib].get('ninja_sha') != final or evs[ge].get('ninja_sha') != final:
        o.violation('build.ninja-changed-after-introspection-dump', at_generate_end=evs[ge].get('ninja_sha'),
                    at_intro=evs[ib].get('ninja_sha'), final=final)
    idata = [e['data'] for e in evs if e['ev'] == 'install_data' and 'data' in e]
    o.count('monitor:create_install_data.calls', len(idata))
    if len(idata) < 4:
        o.count('note:create_install_data-calls<4')
    return idata


# ======================================================================================== one project
def setup_project(o: Out, src: str, bdir: str, args: T.List[str], env: T.Optional[T.Dict[str, str]] = None) -> T.Optional[runner.Result]:
    r = runner.meson(['setup', bdir, src] + args, cwd=src, env={'PATH': PATH, **(env or {})}, monitors=[c15_mon.make(src, bdir)], timeout=300)
    if r.timed_out:
        o.skipped = 'setup-timeout'
        return None
    if r.rc != 0:
        o.skipped = 'setup-failed: ' + (r.out + r.err)[-400:]
        return None
    return r


def static_checks(o: Out, src: str, bdir: str, r: runner.Result, desc: T.Optional[dict]) -> T.Optional[dict]:
    info = os.path.join(bdir, 'meson-info')
    try:
        J = {k: load_json(os.path.join(info, f'intro-{k}.json')) for k in
             ('targets', 'tests', 'benchmarks', 'buildoptions', 'install_plan', 'installed', 'buildsystem_files')}
    except (OSError, ValueError) as e:
        o.violation('introspection-file-missing-or-unparsable', err=repr(e))
        return None
    try:
        m = mn.parse_manifest(os.path.join(bdir, 'build.ninja'), cwd=bdir)
    except mn.ManifestError as e:
        o.count('inconclusive:manifest-unparsable')
        o.skipped = 'manifest: ' + str(e)[:200]
        return None
    idata = check_order(o, bdir, r.records)
    check_targets(o, bdir, src, J['targets'], m)
    check_tests_pickle(o, bdir, 'tests', J['tests'])
    check_tests_pickle(o, bdir, 'benchmarks', J['benchmarks'])
    if desc is not None:
        check_options(o, r.out, J['buildoptions'], desc)
    check_install_static(o, bdir, J['install_plan'], J['installed'], J['buildoptions'], J['targets'], idata)
    check_buildsystem_files(o, src, J['buildsystem_files'], [x for x in r.records if 'open' in x], desc, r.out)
    o.count('targets', len(J['targets']))
    o.count('tests', len(J['tests']) + len(J['benchmarks']))
    o.count('install-plan-entries', len(plan_entries(J['install_plan'])))
    J['manifest'] = m
    return J


def run_generated(job: T.Tuple[str, str, str, bool, int]) -> dict:
    seed, root, size, dynamic, max_tags = job
    o = Out(f'gen:{size}:{seed}')
    base = os.path.join(root, 'g' + re.sub(r'\W', '_', str(seed)))
    src, bdir = os.path.join(base, 'src'), os.path.join(base, 'b')
    try:
        files, desc = gen_c15.generate(seed, size)
        runner.write_tree(src, files)
        o.features = desc['features']
        r = setup_project(o, src, bdir, desc['setup_args'])
        if r is None:
            return o.data()
        J = static_checks(o, src, bdir, r, desc)
        o.sample = {'seed': seed, 'setup_args': desc['setup_args'], 'features': len(desc['features'])}
        if J is None or not dynamic:
            return o.data()
        rng = random.Random(f'c15-dyn:{seed}')
        check_test_depends(o, bdir, desc, J['tests'], J['targets'], rng, base)
        # build everything `all` builds plus every installed target file (optional ones are not in `all`)
        extra = sorted({os.path.relpath(p, bdir) for p in J['install_plan'].get('targets', {})})
        exes = sorted({os.path.relpath(t['cmd'][0], bdir) for t in J['tests'] + J['benchmarks'] if t['cmd'][0].startswith(bdir + os.sep)})
        deps = sorted({os.path.relpath(f, bdir) for t in J['tests'] + J['benchmarks'] for d in t['depends']
                       for tt in J['targets'] if tt['id'] == d for f in tt['filename']})
        p = subprocess.run([NINJA, '-C', bdir, '-j', '3', 'all'] + sorted(set(extra + exes + deps)), stdout=subprocess.PIPE,
                           stderr=subprocess.STDOUT, env={**runner.base_env(), 'PATH': PATH}, timeout=900)
        o.count('monitor:build')
        if p.returncode != 0:
            o.count('inconclusive:build-failed')
            o.violation('generated-project-does-not-build', tail=p.stdout.decode('utf-8', 'replace')[-1200:])
            return o.data()
        check_tests_run(o, bdir, desc, J['tests'], J['benchmarks'], J['targets'], rng, base)
        check_install_run(o, bdir, J['install_plan'], J['installed'], J['buildoptions'], base, rng, max_tags)
    except subprocess.TimeoutExpired:
        o.count('inconclusive:build-timeout')
    except Exception as e:      # harness problem: never a verdict about meson
        import traceback
        o.count('inconclusive:harness-exception')
        o.skipped = 'harness: ' + repr(e) + traceback.format_exc()[-600:]
    finally:
        shutil.rmtree(base, ignore_errors=True)
    return o.data()


def run_corpus(job: T.Tuple[str, str]) -> dict:
    name, root = job
    o = Out(f'corpus:{name}')
    base = os.path.join(root, 'c' + re.sub(r'\W', '_', name))
    src, bdir = os.path.join(base, 'src'), os.path.join(base, 'b')
    try:
        shutil.copytree(os.path.join(CORPUS_DIR, name), src, symlinks=True)
        r = setup_project(o, src, bdir, [], {'MESON_RUNNING_IN_PROJECT_TESTS': '1'})
        if r is None:
            return o.data()
        static_checks(o, src, bdir, r, None)
    except Exception as e:
        import traceback
        o.count('inconclusive:harness-exception')
        o.skipped = 'harness: ' + repr(e) + traceback.format_exc()[-600:]
    finally:
        shutil.rmtree(base, ignore_errors=True)
    return o.data()


def run_c04(job: T.Tuple[str, str]) -> dict:
    """gen_c04 target-graph projects (odd names: blanks, `$`, `:`, unicode; same basename in two dirs): static relations."""
    seed, root = job
    o = Out(f'c04:{seed}')
    base = os.path.join(root, 'k' + re.sub(r'\W', '_', str(seed)))
    src, bdir = os.path.join(base, 'src'), os.path.join(base, 'b')
    try:
        files, desc = gen_c04.generate(seed)
        runner.write_tree(src, files)
        o.features = ['c04:' + f for f in desc['features'] if f.startswith(('name:', 'kind:', 'custom:', 'generated-source', 'same-'))]
        rng = random.Random(f'c15-c04:{seed}')
        args = rng.choice([[], [], ['-Ddefault_library=both'], ['-Ddefault_library=static'], ['--unity=on']])
        if not desc['flat_collision'] and rng.random() < 0.15:
            args = args + ['--layout=flat']
            o.features.append('layout:flat')
        r = setup_project(o, src, bdir, args)
        if r is None:
            return o.data()
        static_checks(o, src, bdir, r, None)
    except Exception as e:
        import traceback
        o.count('inconclusive:harness-exception')
        o.skipped = 'harness: ' + repr(e) + traceback.format_exc()[-600:]
    finally:
        shutil.rmtree(base, ignore_errors=True)
    return o.data()


# ======================================================================================== directed probes
PROBES: T.Dict[str, T.Tuple[T.Dict[str, str], T.List[str]]] = {
    # every listed known finding has a probe that re-observes it in the quick tier
    'yield-and-override': ({
        'meson.build': "project('top', 'c', meson_version: '>=1.3.0')\n" + '\n'.join(gen_c15.print_opts('top', [gen_c15.Opt('s', 'string', 'top-s')], ['warning_level', 'default_library'])) +
                       "\nsubproject('sp')\n",
        'meson_options.txt': "option('s', type: 'string', value: 'top-s')\n",
        'subprojects/sp/meson.build': "project('sp', 'c')\n" + '\n'.join(gen_c15.print_opts('sp', [gen_c15.Opt('s', 'string', 'sp-s')], ['warning_level', 'default_library'])) + '\n',
        'subprojects/sp/meson_options.txt': "option('s', type: 'string', value: 'sp-s', yield: true)\n",
    }, ['-Dsp:warning_level=3', '-Dsp:default_library=static']),
    'same-source-installed-twice': ({
        'meson.build': "project('top', 'c', meson_version: '>=1.3.0')\ninstall_data('a.txt', install_dir: 'share/one')\n"
                       "install_data('a.txt', install_dir: 'share/two', install_tag: 'second')\n"
                       "install_subdir('d', install_dir: 'share/sd1')\ninstall_subdir('d', install_dir: 'share/sd2', strip_directory: true)\n"
                       "install_headers('h.h')\ninstall_headers('h.h', subdir: 'again')\n",
        'a.txt': 'a\n', 'd/f.txt': 'f\n', 'h.h': '\n',
    }, []),
    'link-groups': ({
        'meson.build': "project('top', 'c', meson_version: '>=1.3.0')\na = static_library('a', 'a.c')\nb = static_library('b', 'b.c')\n"
                       "executable('e', 'm.c', link_with: [a, b])\n",
        'a.c': 'int a(void) { return 1; }\n', 'b.c': 'int b(void) { return 2; }\n', 'm.c': 'int main(void) { return 0; }\n',
    }, []),
    'optional-subproject-fails': ({
        'meson.build': "project('top', 'c', meson_version: '>=1.3.0')\nsubproject('broken', required: false)\n",
        'subprojects/broken/meson.build': "project('broken', 'c')\nsubdir('inner')\ndependency('c15-no-such-dependency')\n",
        'subprojects/broken/inner/meson.build': "message('inner of broken')\n",
    }, []),
    'preprocess-target': ({
        'meson.build': "project('top', 'c', meson_version: '>=1.3.0')\ncc = meson.get_compiler('c')\n"
                       "pp = cc.preprocess('a.c', 'b.c', output: '@PLAINNAME@.i')\nexecutable('e', 'm.c', pp)\n",
        'a.c': 'int a(void) { return 1; }\n', 'b.c': 'int b(void) { return 2; }\n', 'm.c': 'int main(void) { return 0; }\n',
    }, []),
    'same-basename-two-dirs': ({
        'meson.build': "project('top', 'c', meson_version: '>=1.3.0')\nsubdir('x')\nsubdir('y')\n",
        'x/meson.build': "executable('tool', 'm.c', install: true, install_dir: 'bin/x')\n",
        'y/meson.build': "executable('tool', 'm.c', install: true, install_dir: 'bin/y')\n",
        'x/m.c': 'int main(void) { return 0; }\n', 'y/m.c': 'int main(void) { return 0; }\n',
    }, []),
}


def run_probe(job: T.Tuple[str, str]) -> dict:
    name, root = job
    o = Out(f'probe:{name}')
    base = os.path.join(root, 'p' + re.sub(r'\W', '_', name))
    src, bdir = os.path.join(base, 'src'), os.path.join(base, 'b')
    files, args = PROBES[name]
    desc = {'printed': {}, 'never_read': [], 'must_read': [], 'dumper_tests': {}, 'features': []}
    try:
        runner.write_tree(src, files)
        r = setup_project(o, src, bdir, args)
        if r is None:
            o.count('inconclusive:probe-setup-failed')
            return o.data()
        static_checks(o, src, bdir, r, desc)
        o.count('monitor:probe')
    except Exception as e:
        import traceback
        o.count('inconclusive:harness-exception')
        o.skipped = 'harness: ' + repr(e) + traceback.format_exc()[-600:]
    finally:
        shutil.rmtree(base, ignore_errors=True)
    return o.data()


def dispatch(job: tuple) -> dict:
    """job = (kind, ..., deadline): a job that starts after the deadline is not run (counted, never a verdict)."""
    kind, deadline = job[0], job[-1]
    if time.time() > deadline:
        o = Out(f'{kind}:{job[1]}')
        o.skipped = 'not-run: time budget'
        return o.data()
    if kind == 'gen':
        return run_generated(job[1:-1])
    if kind == 'corpus':
        return run_corpus(job[1:-1])
    if kind == 'c04':
        return run_c04(job[1:-1])
    return run_probe(job[1:-1])


# ======================================================================================== driver
def corpus_names(limit: int) -> T.List[str]:
    try:
        names = sorted(n for n in os.listdir(CORPUS_DIR) if os.path.isfile(os.path.join(CORPUS_DIR, n, 'meson.build')))
    except OSError:
        return []
    only = os.environ.get('C15_CORPUS_ONLY')
    if only:
        names = [n for n in names if any(x in n for x in only.split(','))]
    return names[:limit] if limit >= 0 else names


def absorb(chk: common.Check, res: dict, features: T.Set[str], skipped: T.Dict[str, int]) -> None:
    chk.merge_counts(res['counts'])
    if res['skipped']:
        reason = res['skipped'].split(':')[0]
        if reason == 'not-run':
            chk.count('not-run:time-budget')
            return
        skipped[reason] = skipped.get(reason, 0) + 1
        chk.count('skipped:' + reason)
        if reason == 'harness':
            chk.notes.setdefault('harness_errors', []).append({'case': res['key'], 'err': res['skipped'][-500:]})
        elif len(chk.notes.setdefault('skipped_samples', [])) < 6:
            chk.notes['skipped_samples'].append({'case': res['key'], 'why': res['skipped'][-300:]})
        chk.case(None, nontrivial=False)
    else:
        chk.case(res['key'] + '|' + ','.join(res['features']))
    features.update(res['features'])
    if res['sample']:
        chk.sample(res['sample'])
    for mech, w in res['viol']:
        chk.violation(mech, w)


def replay(chk: common.Check, path: str) -> int:
    w = load_json(path)
    case = w.get('case', '')
    root = common.scratch_dir('c15r')
    kind, _, key = case.partition(':')
    if kind == 'gen':
        size, _, seed = key.partition(':')
        res = run_generated((seed, root, size, True, 8))
    elif kind in ('corpus', 'c04', 'probe'):
        res = dispatch((kind, key, root, time.time() + 3600))
    else:
        print(f'[C15] cannot replay case {case!r}')
        return 3
    mechs = sorted({m for m, _ in res['viol']})
    hit = w.get('mechanism') in mechs
    print(f'[C15] replay {case}: mechanisms now observed: {mechs}; skipped={res["skipped"]}')
    for m, wit in res['viol']:
        if m == w.get('mechanism'):
            print('[C15]   ' + json.dumps(wit, ensure_ascii=True, default=repr)[:600])
            break
    print('[C15] replay: ' + ('STILL FAILS' if hit else 'no longer fails'))
    return 1 if hit else 0


def main() -> int:
    chk = common.Check(PID)
    runner.preload()
    if os.environ.get('VERIF_REPLAY'):
        return replay(chk, os.environ['VERIF_REPLAY'])
    quick = chk.tier == 'quick'
    n_gen = int(os.environ.get('C15_PROJECTS', '20' if quick else '250'))
    n_corpus = int(os.environ.get('C15_CORPUS', '12' if quick else '-1'))
    budget = float(os.environ.get('C15_BUDGET', '100' if quick else '1000'))
    root = common.scratch_dir('c15')
    t0 = time.time()
    deadline = t0 + budget
    n_c04 = int(os.environ.get('C15_C04_PROJECTS', '6' if quick else '80'))
    names = corpus_names(-1)
    if n_corpus >= 0 and len(names) > n_corpus:
        names = random.Random(f'c15-corpus:{chk.seed}').sample(names, n_corpus)
    gen_jobs: T.List[tuple] = []
    for k in range(n_gen):
        size = 'small' if (quick and k % 2) or (not quick and k % 3 == 0) else 'normal'
        gen_jobs.append(('gen', f'{chk.seed}.{k}', root, size, True, 2 if quick else 8, deadline))
    static_jobs: T.List[tuple] = [('c04', f'c15-{chk.seed}-{k}', root, deadline) for k in range(n_c04)]
    static_jobs += [('corpus', n, root, deadline) for n in names]
    # probes never fall to the budget; the long (dynamic) projects start first so that the pool stays busy at the end
    jobs: T.List[tuple] = [('probe', n, root, t0 + 36000) for n in PROBES] + gen_jobs + static_jobs
    if not quick:
        jobs = [('probe', n, root, t0 + 36000) for n in PROBES] + static_jobs + gen_jobs
    features: T.Set[str] = set()
    skipped: T.Dict[str, int] = {}
    walls: T.List[float] = []
    done = 0
    for res in common.pmap(dispatch, jobs, chk.jobs, timeout=3000):
        absorb(chk, res, features, skipped)
        if not (res['skipped'] or '').startswith('not-run'):
            walls.append(res['wall'])
            done += 1
    for mon in ('monitor:targets.filename', 'monitor:targets.sources', 'monitor:targets.parameters', 'monitor:targets.manifest-coverage',
                'monitor:tests.pickle-fields', 'monitor:tests.dumper-argv-env', 'monitor:tests.protocol',
                'monitor:tests.suite-selection', 'monitor:tests.depends-rebuilt',
                'monitor:buildoptions.value', 'monitor:buildoptions.subproject-reads-global',
                'monitor:install.plan-vs-InstallData', 'monitor:install.real-install', 'monitor:install.real-install-tags',
                'monitor:install.entry-present', 'monitor:install.nothing-else-installed',
                'monitor:buildsystem_files', 'monitor:buildsystem_files.opened-build-file',
                'monitor:order.intro-after-generate', 'monitor:create_install_data.calls', 'monitor:probe'):
        chk.require(mon, 1)
    return chk.finish(
        rule='one case = one project configured once (generated by vf/gen/gen_c15.py from "<VERIF_SEED>.<k>", a gen_c04 target-graph '
             'project, a directed probe, or a directory of "test cases/common"); distinct = project key + its feature cells; a project that does not configure is '
             'skipped and counted, never a verdict',
        assumptions=['Linux, gcc, ninja backend through the mini-ninja shim; build.ninja parsed by vf.mininja (trusted base)',
                     'ARGS / LINK_ARGS / command are de-quoted with shlex (POSIX rules); meson quotes every argument it emits',
                     'intro `parameters` are compared after making relative -I/-L paths absolute on both sides (the rewrite '
                     'IDE-integration.md announces); documentation-silent fields (custom-target target_sources, run/alias filename) are only counted',
                     'tests observed through dumper programs generated by gen_c15; timeout is compared with the pickled TestSerialisation only',
                     'corpus projects are configured with default options and checked statically (no build / test / install run)'],
        extra={'features': sorted(features), 'feature_cells': len(features), 'skipped': skipped, 'projects_done': done,
               'project_wall_max_s': round(max(walls), 1) if walls else 0})


if __name__ == '__main__':
    sys.exit(main())
