"""C14 -- template substitution replaces exactly the placeholders and nothing else.

Runtime monitoring of the real mesonbuild code (from $VERIF_REPO):
  * in-process: mesonbuild.utils.universal.do_conf_str on generated templates x configuration dictionaries,
    all three formats, judged line by line against vf.ref.reftemplate (independent scanner) and against
    obligations that do not depend on the escape rules (copy-through, no-rescan, line endings, missing set);
  * contracts (icontract, vf.monitors.c14_contracts) on do_conf_str / do_replacement_meson /
    do_define_meson / dump_conf_header, evaluated on every call of those runs;
  * through the real configure_file(): batches of ~30 templates + ~6 template-less headers per generated
    project, `meson setup --backend=none` in the fork server, file bytes / encodings / warnings compared;
  * sequences inside one meson.build: families of configuration_data() objects (assignment copies, set,
    merge_from) handed to several configure_file() calls, and ONE object (booleans, integers, strings) handed to
    calls of DIFFERENT formats (meson / cmake / cmake@ template, c / nasm / json without template) in every
    ordered pair and in orders of all six: every output must be the documented rendering of the values the
    build file set (a call changes nothing for the later ones), and the object read back afterwards through
    get() / get_unquoted() / has() / keys() must show those values, types included.
"""
from __future__ import annotations

import io
import json
import os
import random
import shutil
import signal
import sys
import time
import typing as T

from vf import common, runner
from vf.ref import reftemplate as R
from vf.gen import gen_template as G

FIXTURE = os.path.join(common.REPO, 'test cases', 'common', '14 configure file')

U: T.Any = None           # mesonbuild.utils.universal (set in boot())
CD: T.Any = None          # mesonbuild.build.ConfigurationData
MLOG: T.Any = None
MesonException: T.Any = None
K: T.Any = None           # vf.monitors.c14_contracts
KNOWN: T.Set[str] = set()


def boot() -> None:
    global U, CD, MLOG, MesonException, K
    common.use_repo()
    common.ensure_deps()
    runner.preload()
    import mesonbuild.utils.universal as _U
    import mesonbuild.build as _B
    import mesonbuild.mlog as _M
    from vf.monitors import c14_contracts as _K
    U, CD, MLOG, K = _U, _B.ConfigurationData, _M, _K
    MesonException = _U.MesonException
    _K.install()


# ------------------------------------------------------------------------------------------------
# running the real code on one template, judging the result
# ------------------------------------------------------------------------------------------------
HANG_CPU_S = 1.0      # CPU seconds (ITIMER_VIRTUAL): immune to a loaded machine, an endless loop burns CPU


class _Hang(BaseException):
    """Raised by the CPU-time watchdog inside a do_conf_str call that does not return."""


def _on_alarm(signum: int, frame: T.Any) -> None:
    raise _Hang()


def _call_real(lines: T.List[str], data: T.Mapping[str, T.Any], fmt: str, cpu_s: float) -> T.Tuple[T.Any, T.Any]:
    cd = CD(dict(data))
    signal.signal(signal.SIGVTALRM, _on_alarm)
    signal.setitimer(signal.ITIMER_VIRTUAL, cpu_s)
    try:
        with MLOG.no_logging():
            out, missing, _useless = U.do_conf_str('t.in', list(lines), cd, fmt)
        return out, missing
    finally:
        signal.setitimer(signal.ITIMER_VIRTUAL, 0)


def run_real(text: str, data: T.Mapping[str, T.Any], fmt: str) -> T.Tuple[str, T.Any, T.Any, T.List[str]]:
    lines = io.StringIO(text, newline='').readlines()      # exactly what do_conf_file reads from a file
    for attempt in (1, 2):
        try:
            out, missing = _call_real(lines, data, fmt, HANG_CPU_S * attempt * attempt)
            return 'ok', out, missing, lines
        except MesonException as e:
            return 'error', str(e), None, lines
        except _Hang:
            if attempt == 2:       # confirmed with four times the CPU budget
                return 'hang', 'no result within %.0f CPU seconds' % (HANG_CPU_S * 4), None, lines
        except Exception as e:      # anything else is an internal error of the code under test
            return 'crash', type(e).__name__ + ': ' + str(e), None, lines
    raise AssertionError('unreachable')


class Tally(dict):
    def add(self, k: str, n: int = 1) -> None:
        self[k] = self.get(k, 0) + n


def classify_plain(lr: R.LineRes, actual: str, data: T.Mapping[str, T.Any], fmt: str,
                   markers: T.Mapping[str, T.Sequence[str]]) -> str:
    if fmt != R.MESON:
        sim = R.scan_cmake(lr.src, data, fmt == R.CMAKE_AT, skip_after_empty=True)
        if sim.out == actual:
            return 'cmake-empty-value-skips-next-placeholder'
        if sim.out != lr.out and any(f.startswith('unspec:') for f in sim.flags):
            # the skipped character made upstream substitute a value that contains '@'/'$' and re-read it:
            # same root cause, but the exact text is outside what the documents describe
            return 'cmake-empty-value-skips-next-placeholder'
    if lr.eol and not actual.endswith(lr.eol):
        return 'line-ending-changed'
    if fmt == R.MESON:
        if markers and R.verbatim_values(actual, {k: (v[0], v[1]) for k, v in markers.items()}):
            return 'value-rescanned'
        twice = R.scan_meson(lr.out or '', data).out
        if twice == actual and twice != lr.out:
            return 'value-rescanned'
    if not R.copy_through(lr.src, actual, data, fmt):
        return 'copy-through-broken'
    return 'meson-substitution-mismatch' if fmt == R.MESON else 'cmake-substitution-mismatch'


def classify_define(lr: R.LineRes, body: str, data: T.Mapping[str, T.Any], fmt: str) -> str:
    if fmt == R.MESON:
        v = data.get(lr.name) if lr.name is not None else None
        if isinstance(v, str):
            for b in lr.bodies:
                if R.rstrip_blank(R.scan_meson(b.strip(), data).out) == R.rstrip_blank(body):
                    return 'mesondefine-str-value-rescanned'
        return 'mesondefine-render-mismatch'
    toks = R._tokens(R.split_eol(lr.src)[0])
    if lr.directive == '#cmakedefine' and len(toks) > 2 and lr.name is not None:
        sim = R.scan_cmake(' '.join(toks[2:]), data, fmt == R.CMAKE_AT, skip_after_empty=True)
        if R._tokens('#define ' + lr.name + ' ' + sim.out) == R._tokens(body):
            return 'cmake-empty-value-skips-next-placeholder'
        proper = R.scan_cmake(' '.join(toks[2:]), data, fmt == R.CMAKE_AT)
        if sim.out != proper.out and any(f.startswith('unspec:') for f in sim.flags):
            return 'cmake-empty-value-skips-next-placeholder'    # same cascade as in classify_plain
    return 'cmakedefine-render-mismatch'


def skip_quirk_reaches_unspecified(ref: T.Sequence[R.LineRes], data: T.Mapping[str, T.Any], fmt: str) -> bool:
    at_only = fmt == R.CMAKE_AT
    for lr in ref:
        if lr.kind == 'plain':
            src = lr.src
        elif lr.kind == 'define' and lr.directive == '#cmakedefine':
            src = ' '.join(R._tokens(R.split_eol(lr.src)[0])[2:])
        else:
            continue
        sim = R.scan_cmake(src, data, at_only, skip_after_empty=True)
        if any(f.startswith('unspec:') for f in sim.flags):
            return True
    return False


def judge(text: str, data: T.Mapping[str, T.Any], fmt: str, markers: T.Mapping[str, T.Sequence[str]],
          real: T.Tuple[str, T.Any, T.Any, T.List[str]], tally: Tally) -> T.List[T.Tuple[str, dict]]:
    """-> list of (mechanism, detail).  Only documented behaviour is demanded; 'unspec' lines and templates
    the code rejects because of them are counted, not judged."""
    status, out, missing, lines = real
    ref = R.render(text, data, fmt)
    found: T.List[T.Tuple[str, dict]] = []
    if [lr.src for lr in ref] != lines:
        tally.add('inconclusive:oracle-line-split-differs')
        return found
    unspec = [lr for lr in ref if lr.kind == 'unspec']
    if status == 'crash':
        exc = out.split(':', 1)[0]
        mech = 'internal-error:' + exc
        if exc == 'IndexError' and fmt != R.MESON and any(lr.why == 'directive-without-name' for lr in ref):
            mech = 'cmakedefine-without-name-indexerror'
        tally.add('outcome:internal-error')
        return [(mech, {'error': out})]
    if status == 'hang':
        tally.add('outcome:watchdog')
        mech = 'no-termination'
        if fmt != R.MESON and G.reference_cycle(data):
            mech = 'cmake-value-referencing-itself-never-terminates'
        return [(mech, {'error': out})]
    if status == 'error':
        tally.add('outcome:meson-error')
        if unspec:
            tally.add('outcome:error-on-unspecified-template')
            return found
        if fmt != R.MESON and skip_quirk_reaches_unspecified(ref, data, fmt):
            # the known skipped character made upstream substitute (and re-read) a value the proper reading
            # never touches; the error is a consequence of that deviation
            return [('cmake-empty-value-skips-next-placeholder', {'error': out})]
        return [('error-on-well-formed-template', {'error': out})]
    tally.add('outcome:ok')
    tally.add('lines:judged-templates', len(ref))
    mk = {k: (v[0], v[1]) for k, v in markers.items()}
    known_line_hit = False
    for i, lr in enumerate(ref):
        actual = out[i]
        if lr.kind == 'unspec':
            tally.add('lines:unspecified')
            continue
        if lr.kind == 'plain':
            tally.add('monitor:scanner-equality')
            assert lr.out is not None
            if actual != lr.out:
                if lr.flags and R.copy_through(lr.src, actual, data, fmt) and (not lr.eol or actual.endswith(lr.eol)):
                    tally.add('lines:soft-difference-tolerated')
                    continue
                mech = classify_plain(lr, actual, data, fmt, markers)
                found.append((mech, {'line': lr.src, 'expected': lr.out, 'actual': actual}))
                known_line_hit = True
                continue
            tally.add('monitor:line-ending')      # implied by equality with the scanner, which copies terminators
            if fmt == R.MESON or '${$' not in lr.src:
                tally.add('monitor:copy-through')
                if not R.copy_through(lr.src, actual, data, fmt):
                    found.append(('copy-through-broken', {'line': lr.src, 'actual': actual}))
            if fmt == R.MESON and mk:
                tally.add('monitor:no-rescan')
                bad = R.verbatim_values(actual, mk)
                if bad is not None:
                    found.append(('value-rescanned', {'line': lr.src, 'actual': actual, 'name': bad}))
            continue
        # directive line
        tally.add('monitor:define-render')
        body, term = R.split_eol(actual)
        if not R.body_matches(lr, body):
            mech = classify_define(lr, body, data, fmt)
            found.append((mech, {'line': lr.src, 'acceptable': lr.bodies, 'actual': actual}))
            known_line_hit = True
        elif fmt == R.MESON and mk:
            tally.add('monitor:no-rescan')
            bad = R.verbatim_values(actual, mk)
            if bad is not None:
                found.append(('value-rescanned', {'line': lr.src, 'actual': actual, 'name': bad}))
        tally.add('monitor:define-line-ending')
        if lr.eol == '\n':
            term_ok = term == '\n'
        elif lr.eol == '':
            term_ok = term in ('', '\n')       # upstream's unit tests pin the appended newline; not demanded either way
        else:
            term_ok = term == lr.eol
        if not term_ok:
            if term == '\n' and lr.eol in ('\r\n', '\r'):
                mech = ('mesondefine' if fmt == R.MESON else 'cmakedefine') + '-line-terminator-normalised'
            else:
                mech = 'define-line-terminator-wrong'
            found.append((mech, {'line': lr.src, 'actual': actual}))
    # undefined names
    tally.add('monitor:missing-set')
    exp_plain: T.Set[str] = set()
    exp_define: T.Set[str] = set()
    for lr in ref:
        if lr.kind == 'plain':
            exp_plain |= lr.missing
        elif lr.kind == 'define':
            exp_define |= lr.missing
    got = set(missing)
    bad_reported = sorted(m for m in got if m in data)
    if bad_reported:
        found.append(('defined-name-reported-missing', {'names': bad_reported}))
    if known_line_hit:
        tally.add('missing-set:skipped-after-line-deviation')
    elif unspec:
        if not exp_plain <= got:
            found.append(('missing-set-mismatch', {'expected_subset': sorted(exp_plain), 'reported': sorted(got)}))
    else:
        exp = exp_plain | exp_define
        if got != exp:
            if got == exp_plain or (exp_plain <= got <= exp):
                found.append(('cmakedefine-text-undefined-not-reported',
                              {'expected': sorted(exp), 'reported': sorted(got)}))
            else:
                found.append(('missing-set-mismatch', {'expected': sorted(exp), 'reported': sorted(got)}))
    return found


def context_findings(case: dict, real: T.Tuple[str, T.Any, T.Any, T.List[str]], tally: Tally) -> T.List[T.Tuple[str, dict]]:
    """Consistency where the documents are silent (and everywhere else): the formats are line based
    ("put a line like this in your configuration file"), so what becomes of a line is a function of that line,
    the data and the format - not of the other lines of the template.  Every line containing '#' (directive-like,
    at most 4) and now and then one other line is configured again as a one-line template; the result must be
    the text it got inside the whole template.  No particular outcome is demanded."""
    status, out, _missing, lines = real
    if status != 'ok' or len(lines) < 2:
        return []
    picks = [i for i, l in enumerate(lines) if '#' in l][:4]
    if len(case['text']) % 8 == 0:
        j = len(case['text']) % len(lines)
        if j not in picks:
            picks.append(j)
    found: T.List[T.Tuple[str, dict]] = []
    for i in picks:
        tally.add('monitor:line-context-independence')
        alone = run_real(lines[i], case['data'], case['fmt'])
        if alone[0] == 'ok' and len(alone[1]) == 1 and alone[1][0] == out[i]:
            continue
        found.append(('line-treatment-depends-on-other-lines',
                      {'line': lines[i], 'inside_the_template': out[i],
                       'as_a_one_line_template': alone[1] if alone[0] == 'ok' else [alone[0], alone[1]]}))
        break
    return found


def mechanisms_of(case: dict) -> T.List[T.Tuple[str, dict]]:
    t = Tally()
    real = run_real(case['text'], case['data'], case['fmt'])
    return judge(case['text'], case['data'], case['fmt'], case.get('markers') or {}, real, t) + \
        context_findings(case, real, t)


# ------------------------------------------------------------------------------------------------
# witness minimisation (same mechanism must survive)
# ------------------------------------------------------------------------------------------------
def minimise(case: dict, mech: str, budget: int = 250) -> dict:
    cur = {'fmt': case['fmt'], 'text': case['text'], 'data': dict(case['data']),
           'markers': dict(case.get('markers') or {})}
    calls = [0]

    def still(c: dict) -> bool:
        calls[0] += 1
        if calls[0] > budget:
            return False
        try:
            return any(m == mech for m, _ in mechanisms_of(c))
        except Exception:
            return False
    # whole lines
    lines = R.split_lines(cur['text'])
    i = 0
    while i < len(lines) and len(lines) > 1:
        cand = lines[:i] + lines[i + 1:]
        c2 = dict(cur, text=''.join(cand))
        if still(c2):
            lines = cand
            cur = c2
        else:
            i += 1
    # dictionary entries
    for k in list(cur['data']):
        d2 = {a: b for a, b in cur['data'].items() if a != k}
        m2 = {a: b for a, b in cur['markers'].items() if a != k}
        c2 = dict(cur, data=d2, markers=m2)
        if still(c2):
            cur = c2
    # characters
    text = cur['text']
    i = 0
    while i < len(text) and len(text) > 1:
        cand_t = text[:i] + text[i + 1:]
        c2 = dict(cur, text=cand_t)
        if still(c2):
            text = cand_t
            cur = c2
        else:
            i += 1
    return cur


# ------------------------------------------------------------------------------------------------
# in-process worker
# ------------------------------------------------------------------------------------------------
class Bag:
    """What a worker returns (plain data)."""

    def __init__(self) -> None:
        self.tally = Tally()
        self.found: T.Dict[str, T.List[dict]] = {}
        self.found_n: T.Dict[str, int] = {}
        self.shapes: T.Set[str] = set()
        self.cells: T.Dict[str, int] = {}
        self.samples: T.List[dict] = []
        self.cases = 0
        self.lines = 0
        self.minimised = 0

    def note(self, mech: str, witness: dict, case: T.Optional[dict] = None) -> None:
        self.found_n[mech] = self.found_n.get(mech, 0) + 1
        lst = self.found.setdefault(mech, [])
        if len(lst) >= 2:
            return
        if case is not None and mech not in KNOWN and self.minimised < 4 and not mech.startswith('contract:'):
            self.minimised += 1
            try:
                small = minimise(case, mech)
                witness = dict(witness, minimised={'fmt': small['fmt'], 'text': small['text'], 'data': small['data']})
            except Exception as e:
                witness = dict(witness, minimise_error=repr(e))
        lst.append(witness)

    def export(self) -> dict:
        return {'tally': dict(self.tally), 'found': self.found, 'found_n': self.found_n,
                'shapes': sorted(self.shapes), 'cells': self.cells, 'samples': self.samples,
                'cases': self.cases, 'lines': self.lines}


def do_case(bag: Bag, case: dict, mode: str = 'inproc') -> T.Tuple[str, T.Any, T.Any, T.List[str]]:
    real = run_real(case['text'], case['data'], case['fmt'])
    bag.cases += 1
    bag.lines += len(real[3])
    for mech, detail in judge(case['text'], case['data'], case['fmt'], case.get('markers') or {}, real, bag.tally) + \
            context_findings(case, real, bag.tally):
        w = {'mode': mode, 'fmt': case['fmt'], 'text': case['text'], 'data': case['data'],
             'markers': case.get('markers') or {}, 'detail': detail}
        bag.note(mech, w, case)
    return real


def drain_contracts(bag: Bag) -> None:
    snap = K.REC.snapshot()
    K.REC.reset()
    for k, v in snap['counts'].items():
        bag.tally.add(k, v)
    for v in snap['violations']:
        bag.note(v['mechanism'], {'mode': 'contract', **v['witness']})


def worker_inproc(job: T.Tuple[int, int, int, float]) -> dict:
    seed, idx, ncases, deadline = job
    rng = random.Random(f'C14:inproc:{seed}:{idx}')
    bag = Bag()
    K.REC.reset()
    for n in range(ncases):
        if n % 64 == 0 and time.time() > deadline:
            bag.tally.add('budget:inproc-chunk-cut-by-time')
            break
        case = G.gen_case(rng)
        do_case(bag, case)
        bag.shapes.add(common.digest(case['shape']))
        for c in case['cells']:
            bag.cells[c] = bag.cells.get(c, 0) + 1
        bag.cells['format:' + case['fmt']] = bag.cells.get('format:' + case['fmt'], 0) + 1
        if idx == 0 and len(bag.samples) < 3 and n % 7 == 3:
            bag.samples.append({'fmt': case['fmt'], 'template': case['text'], 'data': case['data']})
    drain_contracts(bag)
    return bag.export()


def worker_exhaustive(job: T.Tuple[int, int, int]) -> dict:
    part, nparts, maxlen = job
    bag = Bag()
    K.REC.reset()
    for n, line in enumerate(G.exhaustive_lines(maxlen)):
        if n % nparts != part:
            continue
        for di, d in enumerate(G.EXH_DICTS):
            markers = {'B': ['<[B|', d['B']]} if isinstance(d.get('B'), str) and d['B'].startswith('<[B|') else {}
            for eol in (('\n',) if n % 5 else ('\n', '\r\n', '')):
                case = {'fmt': 'meson', 'text': line + eol, 'data': d, 'markers': markers}
                do_case(bag, case)
                bag.shapes.add(common.digest(('exh', line, di, eol)))
    bag.tally.add('exhaustive:lines', bag.lines)
    drain_contracts(bag)
    return bag.export()


# ------------------------------------------------------------------------------------------------
# through the real configure_file()
# ------------------------------------------------------------------------------------------------
def mstr(s: str) -> str:
    return "'" + s.replace('\\', '\\\\').replace("'", "\\'").replace('\n', '\\n').replace('\r', '\\r') \
        .replace('\t', '\\t') + "'"


def mval(v: T.Any) -> str:
    if isinstance(v, bool):
        return 'true' if v else 'false'
    if isinstance(v, int):
        return str(v)
    return mstr(v)


def encodings_for(charset: str, rng: random.Random) -> T.Optional[str]:
    pool: T.List[T.Optional[str]] = [None, None, 'utf-8', 'utf-16']
    if charset in ('ascii', 'latin1'):
        pool += ['latin-1', 'iso-8859-1']
    if charset == 'ascii':
        pool += ['ascii']
    return rng.choice(pool)


def build_project(rng: random.Random, src: str, ntemplates: int, nheaders: int, bag: Bag, nseq: int = 4) -> T.Tuple[list, list]:
    mb: T.List[str] = ["project('c14 templates', meson_version: '>=1.3.0')", '']
    files: T.Dict[str, T.Union[str, bytes]] = {}
    tcases: T.List[dict] = []
    tries = 0
    while len(tcases) < ntemplates and tries < ntemplates * 4:
        tries += 1
        case = G.gen_case(rng, risky=(rng.random() < 0.04))
        real = do_case(bag, case, mode='file')
        if real[0] != 'ok':
            bag.tally.add('file:template-not-batched-because-it-is-rejected')
            continue
        i = len(tcases)
        enc = encodings_for(case['charset'], rng)
        name = f't{i:03d}'
        try:
            files[name + '.in'] = case['text'].encode(enc or 'utf-8')
            ''.join(real[1]).encode(enc or 'utf-8')
        except UnicodeEncodeError:
            enc = None
            files[name + '.in'] = case['text'].encode('utf-8')
        style = rng.choice(['set', 'set', 'dict', 'init'])
        items = list(case['data'].items())
        if style == 'set':
            mb.append(f'cd_{i} = configuration_data()')
            for k, v in items:
                mb.append(f'cd_{i}.set({mstr(k)}, {mval(v)})')
            conf = f'cd_{i}'
        elif style == 'init':
            mb.append(f'cd_{i} = configuration_data({{' + ', '.join(f'{mstr(k)}: {mval(v)}' for k, v in items) + '})')
            conf = f'cd_{i}'
        else:
            conf = '{' + ', '.join(f'{mstr(k)}: {mval(v)}' for k, v in items) + '}'
        kw = [f"input: '{name}.in'", f"output: '{name}.out'", f'configuration: {conf}']
        if case['fmt'] != 'meson' or rng.random() < 0.3:
            kw.append(f"format: '{case['fmt']}'")
        if enc is not None:
            kw.append(f"encoding: '{enc}'")
        mb.append('configure_file(' + ', '.join(kw) + ')')
        tcases.append({'name': name, 'case': case, 'encoding': enc, 'inproc_out': ''.join(real[1]),
                       'inproc_missing': sorted(real[2]), 'style': style})
        bag.cells['file-encoding:' + str(enc)] = bag.cells.get('file-encoding:' + str(enc), 0) + 1
        bag.cells['file-data-style:' + style] = bag.cells.get('file-data-style:' + style, 0) + 1
    hcases: T.List[dict] = []
    for j in range(nheaders):
        h = G.gen_header_case(rng)
        name = f'h{j:03d}'
        data: T.Dict[str, T.Any] = {}
        if not h['desc'] and rng.random() < 0.3:
            conf = '{' + ', '.join(f'{mstr(k)}: {mval(v)}' for k, v in h['data'].items()) + '}'
            data = dict(h['data'])
            style = 'dict'
        else:
            style = 'set'
            mb.append(f'hd_{j} = configuration_data()')
            for k, v in h['data'].items():
                d = h['desc'].get(k)
                dk = f', description: {mstr(d)}' if d else ''
                r = rng.random()
                if isinstance(v, str) and r < 0.2 and '"' not in v and '\\' not in v:
                    mb.append(f'hd_{j}.set_quoted({mstr(k)}, {mstr(v)}{dk})')
                    data[k] = '"' + v + '"'
                elif isinstance(v, bool) and r < 0.3:
                    mb.append(f'hd_{j}.set10({mstr(k)}, {mval(v)}{dk})')
                    data[k] = 1 if v else 0
                else:
                    mb.append(f'hd_{j}.set({mstr(k)}, {mval(v)}{dk})')
                    data[k] = v
            conf = f'hd_{j}'
        ext = {'c': 'h', 'nasm': 'asm', 'json': 'json'}[h['output_format']]
        kw = [f"output: '{name}.{ext}'", f'configuration: {conf}']
        if h['output_format'] != 'c' or rng.random() < 0.3:
            kw.append(f"output_format: '{h['output_format']}'")
        if h['macro_name']:
            kw.append(f"macro_name: '{h['macro_name']}'")
        mb.append('configure_file(' + ', '.join(kw) + ')')
        hcases.append({'name': f'{name}.{ext}', 'data': data, 'desc': h['desc'] if style == 'set' else {},
                       'output_format': h['output_format'], 'macro_name': h['macro_name'], 'shape': h['shape']})
        bag.cells['header-format:' + h['output_format']] = bag.cells.get('header-format:' + h['output_format'], 0) + 1
    for q in range(nseq):
        add_sequence(rng, q, mb, files, tcases, hcases, bag)
    files['meson.build'] = '\n'.join(mb) + '\n'
    runner.write_tree(src, files)
    return tcases, hcases


SEQ_TEMPLATE_FMT = {'template': 'meson', 'template-cmake': 'cmake', 'template-cmake@': 'cmake@'}


def sequence_template(fmt: str, keys: T.Sequence[str]) -> str:
    """The template a sequence step configures: every key of the universe (set or not at that moment) and one
    name that is never set, in every documented placeholder form of the format."""
    if fmt == 'meson':
        return ''.join(f'#mesondefine {k}\n{k}=[@{k}@]\n' for k in keys)
    return ''.join(f'#cmakedefine {k}\n#cmakedefine01 {k}\n#cmakedefine {k} is @{k}@ here\n{k}=[@{k}@] <${{{k}}}>\n'
                   for k in keys)


def same_data(a: T.Any, b: T.Any) -> bool:
    """Equality of two plain dictionaries that tells true from 1 (Python's == does not)."""
    if not isinstance(a, dict) or not isinstance(b, dict) or set(a) != set(b):
        return False
    return all(type(a[k]) is type(b[k]) and a[k] == b[k] for k in a)


def add_sequence(rng: random.Random, q: int, mb: T.List[str], files: T.Dict[str, T.Union[str, bytes]],
                 tcases: T.List[dict], hcases: T.List[dict], bag: Bag,
                 ops: T.Optional[T.List[T.Tuple[T.Any, ...]]] = None, plain_set: bool = False) -> None:
    """A family of configuration_data() objects related by assignment, used by several configure_file() calls
    (of every format: meson / cmake / cmake@ templates, c / nasm / json without template) with
    merge_from()/set()/assignment in between.  After every step the expected content is that of the data
    of THAT object AT THAT MOMENT according to the build definition (model kept here: assignment copies; a
    configure_file() call changes nothing).  At the end every member of the family is read back through the
    build language (get / get_unquoted / keys)."""
    if ops is None:
        ops = G.gen_sequence(rng)
    universe = ops[-1][1]
    models: T.List[T.Dict[str, T.Tuple[T.Any, T.Optional[str]]]] = [{}]
    emitted: T.List[T.List[str]] = [[]]       # per object: kinds of the configure_file() calls it went through
    names = [f'sq_{q}']
    step = 0
    nmerge = 0
    history: T.List[str] = []
    start = len(mb)
    seq_files: T.Dict[str, str] = {}

    def emit_entries(target: str, entries: T.Dict[str, T.Tuple[T.Any, T.Optional[str]]]) -> T.Dict[str, T.Tuple[T.Any, T.Optional[str]]]:
        """meson statements filling `target`; returns what the object then holds for these keys."""
        held: T.Dict[str, T.Tuple[T.Any, T.Optional[str]]] = {}
        for k, (v, d) in entries.items():
            dk = f', description: {mstr(d)}' if d else ''
            r = 1.0 if plain_set else rng.random()
            if isinstance(v, str) and r < 0.2 and '"' not in v and '\\' not in v:
                mb.append(f'{target}.set_quoted({mstr(k)}, {mstr(v)}{dk})')
                held[k] = ('"' + v + '"', d)
            elif isinstance(v, bool) and r < 0.3:
                mb.append(f'{target}.set10({mstr(k)}, {mval(v)}{dk})')
                held[k] = (1 if v else 0, d)
            else:
                mb.append(f'{target}.set({mstr(k)}, {mval(v)}{dk})')
                held[k] = (v, d)
        return held

    for op in ops[:-1]:
        if op[0] == 'init':
            mb.append(f'{names[0]} = configuration_data()')
            models[0].update(emit_entries(names[0], op[1]))
            history.append('init:%d' % len(op[1]))
        elif op[0] == 'copy':
            _c, src_i, dst_i = op
            names.append(f'sq_{q}_c{dst_i}')
            mb.append(f'{names[dst_i]} = {names[src_i]}')
            models.append(dict(models[src_i]))
            emitted.append([])        # the copy is a new object: it went through no call yet
            history.append('copy:%d>%d' % (src_i, dst_i))
            bag.cells['sequence:assignment-copy'] = bag.cells.get('sequence:assignment-copy', 0) + 1
        elif op[0] == 'set':
            _s, tgt, entries = op
            models[tgt].update(emit_entries(names[tgt], entries))
            history.append('set:%d' % tgt)
            bag.cells['sequence:set-before-use'] = bag.cells.get('sequence:set-before-use', 0) + 1
        elif op[0] == 'merge':
            _m, tgt, entries = op
            ex = f'sq_{q}_x{nmerge}'
            nmerge += 1
            mb.append(f'{ex} = configuration_data()')
            held = emit_entries(ex, entries)
            mb.append(f'{names[tgt]}.merge_from({ex})')
            models[tgt].update(held)       # "copies all entries from that object to the current"
            history.append('merge:%d' % tgt)
            bag.cells['sequence:merge_from'] = bag.cells.get('sequence:merge_from', 0) + 1
        else:
            _emit, who, kind, macro = op
            obj = names[who]
            model = models[who]
            data = {k: v for k, (v, _d) in model.items()}
            desc = {k: d for k, (_v, d) in model.items() if d}
            name = f'sq_{q}_s{step}'
            history.append('emit:%d:%s' % (who, kind))
            shape = ('sequence', tuple(history))
            bag.cells['sequence:emit-' + kind] = bag.cells.get('sequence:emit-' + kind, 0) + 1
            bag.tally.add('monitor:sequence-steps')
            if len(names) > 1:
                bag.tally.add('monitor:sequence-steps-in-a-family-of-copies')
            if emitted[who]:
                bag.tally.add('monitor:sequence-steps-after-another-format'
                              if any(k != kind for k in emitted[who]) else 'monitor:sequence-steps-after-the-same-format')
                for prev in sorted(set(emitted[who])):
                    cell = 'sequence-order:%s>%s' % (prev, kind)
                    bag.cells[cell] = bag.cells.get(cell, 0) + 1
            if kind in SEQ_TEMPLATE_FMT:
                fmt = SEQ_TEMPLATE_FMT[kind]
                text = sequence_template(fmt, sorted(universe) + ['NEVER_SET'])
                case = {'fmt': fmt, 'text': text, 'data': data, 'markers': {}, 'charset': 'ascii',
                        'cells': [], 'shape': shape}
                real = do_case(bag, case, mode='file')
                bag.shapes.add(common.digest(shape))
                if real[0] != 'ok':
                    # (a cmake value that mentions itself, ...) the call would stop the whole project: not made
                    bag.tally.add('sequence:template-step-rejected-in-process-and-left-out')
                    history[-1] += ':left-out'
                    continue
                emitted[who].append(kind)
                files[name + '.in'] = text.encode('utf-8')
                seq_files[name + '.in'] = text
                mb.append(f"configure_file(input: '{name}.in', output: '{name}.out', configuration: {obj}"
                          + (f", format: '{fmt}'" if fmt != 'meson' else '') + ')')
                if real[0] == 'ok':
                    tcases.append({'name': name, 'case': case, 'encoding': None, 'inproc_out': ''.join(real[1]),
                                   'inproc_missing': sorted(real[2]), 'style': 'sequence',
                                   'sequence': {'history': list(history), 'meson_build': mb[start:],
                                                'files': dict(seq_files), 'output': name + '.out', 'input': name + '.in'}})
            else:
                emitted[who].append(kind)
                ext = {'c': 'h', 'nasm': 'asm', 'json': 'json'}[kind]
                kw = [f"output: '{name}.{ext}'", f'configuration: {obj}']
                if kind != 'c':
                    kw.append(f"output_format: '{kind}'")
                if macro:
                    kw.append(f"macro_name: '{macro}'")
                mb.append('configure_file(' + ', '.join(kw) + ')')
                hcases.append({'name': f'{name}.{ext}', 'data': data, 'desc': desc, 'output_format': kind,
                               'macro_name': macro, 'shape': shape,
                               'sequence': {'history': list(history), 'meson_build': mb[start:], 'files': dict(seq_files),
                                            'output': f'{name}.{ext}'}})
            step += 1
    # every member of the family read back through the build language after all the calls: get() returns the
    # value that was set (type included), get_unquoted() the same without surrounding double quotes, keys() the
    # keys (docs/yaml/objects/cfg_data.yaml); written by a template-less json configure_file() of a FRESH dictionary
    for i, obj in enumerate(names):
        expect: T.Dict[str, T.Any] = {'has:NEVER_SET': False}
        kw = [f"'has:NEVER_SET': {obj}.has('NEVER_SET')"]
        for k, (v, _d) in sorted(models[i].items()):
            kw.append(f"{mstr('get:' + k)}: {obj}.get({mstr(k)})")
            expect['get:' + k] = v
            if isinstance(v, str) and len(v) < 2:
                continue        # nothing documented about quotes of an empty / one-character value
            kw.append(f"{mstr('unq:' + k)}: {obj}.get_unquoted({mstr(k)})")
            expect['unq:' + k] = v[1:-1] if isinstance(v, str) and v[0] == '"' and v[-1] == '"' else v
        if models[i]:
            kw.append(f"'keys': ','.join({obj}.keys())")
        name = f'sq_{q}_o{i}.json'
        mb.append(f"configure_file(output: '{name}', output_format: 'json', configuration: {{" + ', '.join(kw) + '})')
        history_o = list(history) + ['read-back:%d' % i]
        hcases.append({'name': name, 'observe': True, 'expect': expect, 'keys': sorted(models[i]),
                       'after': list(emitted[i]), 'shape': ('sequence-read-back', tuple(history_o)),
                       'sequence': {'history': history_o, 'meson_build': mb[start:], 'files': dict(seq_files),
                                    'output': name}})


def check_read_back(text: str, expect: T.Mapping[str, T.Any], keys: T.Sequence[str]) -> T.Optional[str]:
    """None if the json written from obj.get()/get_unquoted()/has()/keys() shows the entries the build
    definition gave the object (value AND type; the order of keys() is not documented, not demanded)."""
    try:
        got = json.loads(text)
    except ValueError as e:
        return 'json-unparsable: %s' % e
    if not isinstance(got, dict):
        return 'json-not-an-object'
    if keys:
        ks = got.pop('keys', None)
        if not isinstance(ks, str) or sorted(ks.split(',')) != sorted(keys):
            return 'keys(): %r' % (ks,)
    if set(got) != set(expect):
        return 'entries-differ: %r' % sorted(set(got) ^ set(expect))
    for k in sorted(expect):
        if type(got[k]) is not type(expect[k]) or got[k] != expect[k]:
            return '%s is %r, the build definition set %r' % (k, got[k], expect[k])
    return None


def parse_missing_warnings(out: str) -> T.Dict[str, T.Set[str]]:
    res: T.Dict[str, T.Set[str]] = {}
    for line in out.splitlines():
        a = line.find('The variable(s) ')
        b = line.find(" in the input file '")
        if a == -1 or b == -1:
            continue
        names = line[a + len('The variable(s) '):b]
        c = line.find("'", b + len(" in the input file '"))
        fname = line[b + len(" in the input file '"):c]
        st = res.setdefault(fname, set())
        for part in names.split(', '):
            part = part.strip()
            if len(part) >= 2 and part[0] == part[-1] and part[0] in '\'"':
                part = part[1:-1]
            st.add(part)
    return res


def build_order_project(rng: random.Random, src: str, part: int, nparts: int, nperm: int, all_perms: bool,
                        bag: Bag) -> T.Tuple[list, list]:
    """One configuration_data() object (booleans, integers, strings) per chain, handed to configure_file()
    calls of different formats one after the other: every ordered pair of the six kinds and orders of all six."""
    mb: T.List[str] = ["project('c14 format orders', meson_version: '>=1.3.0')", '']
    files: T.Dict[str, T.Union[str, bytes]] = {}
    tcases: T.List[dict] = []
    hcases: T.List[dict] = []
    for q, ops in enumerate(G.gen_format_orders(rng, part, nparts, nperm, all_perms)):
        add_sequence(rng, q, mb, files, tcases, hcases, bag, ops=ops, plain_set=(q % 3 != 2))
        bag.tally.add('monitor:format-order-chains')
    files['meson.build'] = '\n'.join(mb) + '\n'
    runner.write_tree(src, files)
    return tcases, hcases


def worker_project(job: T.Tuple[T.Any, ...]) -> dict:
    seed, idx, ntemplates, nheaders = job[:4]
    orders: T.Optional[T.Tuple[int, int, bool]] = job[4] if len(job) > 4 else None    # (nparts, nperm, all_perms)
    rng = random.Random(f'C14:file:{seed}:{idx}' if orders is None else f'C14:orders:{seed}:{idx}')
    bag = Bag()
    K.REC.reset()
    root = common.scratch_dir('c14p') if os.getpid() == common._MAIN_PID else None
    tmp = root or __import__('tempfile').mkdtemp(prefix='c14p-')
    try:
        src = os.path.join(tmp, 'src')
        bdir = os.path.join(tmp, 'build')
        os.makedirs(src)
        if orders is None:
            tcases, hcases = build_project(rng, src, ntemplates, nheaders, bag)
        else:
            tcases, hcases = build_order_project(rng, src, idx, orders[0], orders[1], orders[2], bag)
        drain_contracts(bag)     # the pre-runs above were in this process
        r = runner.meson(['setup', '--backend=none', bdir], cwd=src, monitors=[K.child_monitor],
                         timeout=120 if orders is None else 300)
        bag.tally.add('file:projects')
        if r.timed_out:
            bag.tally.add('inconclusive:file-project-timeout')
            return bag.export()
        with open(os.path.join(src, 'meson.build'), encoding='utf-8') as f:
            mbtext = f.read()
        if r.rc != 0:
            mech = 'file:internal-error' if r.traceback else 'file:setup-rejects-batch'
            bag.note(mech, {'mode': 'project', 'meson_build': mbtext[-3000:], **r.brief()})
            return bag.export()
        events = {e.get('src') or e.get('dst'): e for e in r.records if e.get('ev') in ('conf_file', 'header')}
        for e in r.records:
            if e.get('ev') == 'contracts':
                for k, v in e['counts'].items():
                    bag.tally.add(k, v)
                for v in e['violations']:
                    bag.note(v['mechanism'], {'mode': 'contract-in-meson', **v['witness']})
        warned = parse_missing_warnings(r.out)
        for tc in tcases:
            case = tc['case']
            ev = events.get(tc['name'] + '.in')
            if ev is None:
                bag.tally.add('inconclusive:file-no-do_conf_file-event')
                continue
            seqw = {'sequence': tc['sequence']} if tc.get('sequence') else {}
            if ev['data'] != case['data'] and not seqw:
                bag.tally.add('inconclusive:harness-data-not-transported')
                bag.note('harness:meson-build-does-not-carry-the-data',
                         {'mode': 'harness', 'intended': case['data'], 'seen': ev['data']})
                continue
            if seqw and not same_data(ev['data'], case['data']):
                # the literal transport (mstr/mval) is validated by every non-sequence item of the same project;
                # here the object's entries are the result of the statements of the history
                seqw['data_configure_file_worked_with'] = ev['data']
            bag.tally.add('monitor:file-format-and-encoding-honoured')
            if ev['fmt'] != case['fmt'] or ev['encoding'] != (tc['encoding'] or 'utf-8'):
                # both are literal keyword arguments in the generated meson.build
                bag.note('file:format-or-encoding-not-honoured',
                         {'mode': 'file', 'fmt': case['fmt'], 'text': case['text'], 'data': case['data'],
                          'markers': case['markers'], 'encoding': tc['encoding'],
                          'detail': {'do_conf_file_got': [ev['fmt'], ev['encoding']]}})
            bag.tally.add('monitor:file-output-equals')
            try:
                with open(os.path.join(bdir, tc['name'] + '.out'), 'rb') as f:
                    raw = f.read()
                got = raw.decode(tc['encoding'] or 'utf-8')
            except (OSError, UnicodeDecodeError) as e:
                bag.note('file:output-unreadable', {'mode': 'file', 'error': repr(e), 'fmt': case['fmt'],
                                                    'text': case['text'], 'data': case['data'], 'encoding': tc['encoding']})
                continue
            if got != tc['inproc_out']:
                mech = classify_file_difference(case, tc, got)
                if 'data_configure_file_worked_with' in seqw:
                    mech = 'sequence:object-holds-entries-the-build-definition-did-not-give-it'
                bag.note(mech,
                         {'mode': 'file', 'fmt': case['fmt'], 'text': case['text'], 'data': case['data'],
                          'markers': case['markers'], 'encoding': tc['encoding'], **seqw,
                          'detail': {'file_output': got, 'do_conf_str_output': tc['inproc_out']}})
            bag.tally.add('monitor:missing-warning')
            w = sorted(warned.get(tc['name'] + '.in', set()))
            if w != tc['inproc_missing'] or sorted(ev['missing']) != tc['inproc_missing']:
                bag.note('file:missing-warning-differs',
                         {'mode': 'file', 'fmt': case['fmt'], 'text': case['text'], 'data': case['data'],
                          'markers': case['markers'], 'encoding': tc['encoding'], **seqw,
                          'detail': {'warned': w, 'do_conf_file': ev['missing'], 'do_conf_str': tc['inproc_missing']}})
        for hc in hcases:
            bag.cases += 1
            bag.shapes.add(common.digest(hc['shape']))
            if hc.get('observe'):
                bag.tally.add('monitor:object-read-back')
                if hc['after']:
                    bag.tally.add('monitor:object-read-back-after-configure_file')
                try:
                    with open(os.path.join(bdir, hc['name']), encoding='utf-8', newline='') as f:
                        text = f.read()
                    why = check_read_back(text, hc['expect'], hc['keys'])
                except (OSError, UnicodeDecodeError) as e:
                    text, why = '', repr(e)
                if why is not None:
                    bag.note('sequence:object-read-back-differs-from-what-was-set',
                             {'mode': 'read-back', 'expect': hc['expect'], 'keys': hc['keys'],
                              'configure_file_calls_before': hc['after'], 'sequence': hc['sequence'],
                              'detail': {'why': why, 'file': text}})
                continue
            ev = events.get(hc['name'])
            if (ev is None or ev['data'] != hc['data']) and not hc.get('sequence'):
                bag.tally.add('inconclusive:harness-data-not-transported')
                bag.note('harness:meson-build-does-not-carry-the-data',
                         {'mode': 'harness', 'intended': hc['data'], 'seen': ev and ev['data']})
                continue
            seen_other = ev is not None and not same_data(ev['data'], hc['data'])
            bag.tally.add('monitor:header-keys')
            with open(os.path.join(bdir, hc['name']), encoding='utf-8', newline='') as f:
                text = f.read()
            why = R.check_header(text, hc['data'], hc['output_format'], hc['macro_name'])
            if why is None and hc['output_format'] != 'json':
                why = check_descriptions(text, hc)
            if why is not None:
                mech = 'header:' + why.split(':')[0]
                extra_w: T.Dict[str, T.Any] = {}
                if seen_other:
                    mech = 'sequence:object-holds-entries-the-build-definition-did-not-give-it'
                    extra_w = {'data_configure_file_worked_with': ev['data']}
                bag.note(mech,
                         {'mode': 'header', 'data': hc['data'], 'desc': hc['desc'], 'output_format': hc['output_format'],
                          'macro_name': hc['macro_name'], 'sequence': hc.get('sequence'), **extra_w,
                          'detail': {'why': why, 'file': text}})
        if idx == 0:
            bag.samples.append({'project_meson_build_head': mbtext[:700]})
    finally:
        if root is None:
            shutil.rmtree(tmp, ignore_errors=True)
    return bag.export()


# ------------------------------------------------------------------------------------------------
# what an earlier run / an editor left in the build directory at the paths configure_file() writes through
# (`<output>` and the temporary `<output>~`): none of it may show in the generated file
# ------------------------------------------------------------------------------------------------
LEFTOVER_CLASSES = ['longer-previous-plus-tail', 'longer-previous-plus-tail', 'longer-foreign', 'longer-foreign',
                    'longer-binary', 'shorter', 'empty', 'previous-output', 'one-byte-longer']
LEFTOVER_TAIL = {'c': '#define LEFTOVER_%d 1\n\n', 'nasm': '%%define LEFTOVER_%d 1\n\n', 'json': ', "LEFTOVER_%d": 1}',
                 'template': 'leftover line %d @LEFTOVER@ ${LEFTOVER}\n', 'crlf': 'leftover line %d\r\n'}


def leftover_content(rng: random.Random, cls: str, prev: bytes, flavour: str) -> bytes:
    """Content of a pre-existing file, relative to `prev` (what the same output held before / will be near)."""
    if cls == 'longer-previous-plus-tail':      # a killed generation of a LARGER configuration / longer template
        tail = LEFTOVER_TAIL[flavour if rng.random() < 0.8 else 'crlf']
        return prev + ''.join(tail % j for j in range(rng.randint(1, 40))).encode('utf-8')
    if cls == 'longer-foreign':                 # an editor backup / somebody else's file of that name
        line = rng.choice(['/* foreign %d */\n', '#define FOREIGN_%d "x"\n', 'foreign text %d\r\n', '{"foreign": %d}\n'])
        n = (2 * len(prev) + rng.randint(200, 3000)) // 14 + 1
        return ''.join(line % j for j in range(n)).encode('utf-8')
    if cls == 'longer-binary':
        return bytes(rng.randrange(256) for _ in range(len(prev) + rng.randint(1, 600)))
    if cls == 'shorter':
        return prev[:rng.randint(0, max(0, len(prev) - 1))] if prev and rng.random() < 0.5 else b'x\n'
    if cls == 'empty':
        return b''
    if cls == 'one-byte-longer':
        return prev + rng.choice([b'\n', b'}', b'Z', b'\x00'])
    return prev                                  # 'previous-output'


def classify_leftover(got: bytes, planted: T.Mapping[str, T.Mapping[str, str]]) -> str:
    """WHY a generated file differs when files pre-existed: which planted file shows through, and how."""
    tmp = planted['tmp']['content'].encode('latin-1') if 'tmp' in planted else None
    out = planted['out']['content'].encode('latin-1') if 'out' in planted else None
    if tmp is not None and tmp and got == tmp:
        return 'temporary-file-content-kept-whole'
    if out is not None and out and got == out:
        return 'existing-output-not-replaced'
    if tmp is not None and len(got) == len(tmp) and got[-1:] == tmp[-1:]:
        return 'temporary-file-not-truncated-old-tail-survives'
    if out is not None and len(got) == len(out) and got[-1:] == out[-1:]:
        return 'existing-output-not-truncated-old-tail-survives'
    return 'other'


def plant_leftovers(rng: random.Random, bdir: str, items: T.List[dict], bag: 'Bag') -> None:
    os.makedirs(bdir, exist_ok=True)
    for it in items:
        it['planted'] = {}
        if rng.random() < 0.35:
            continue
        fn = it['name'] + '.out' if it['kind'] == 'template' else it['name']
        flavour = 'template' if it['kind'] == 'template' else it['output_format']
        prev = (it.get('last_disk') or '').encode('utf-8')
        where = rng.choice(['tmp', 'tmp', 'both', 'out'])
        for w in (('tmp', 'out') if where == 'both' else (where,)):
            cls = rng.choice(LEFTOVER_CLASSES)
            content = leftover_content(rng, cls, prev, flavour)
            with open(os.path.join(bdir, fn + ('~' if w == 'tmp' else '')), 'wb') as f:
                f.write(content)
            it['planted'][w] = {'class': cls, 'content': content.decode('latin-1')}
            bag.cells[f'history-leftover:{w}:{cls}'] = bag.cells.get(f'history-leftover:{w}:{cls}', 0) + 1


def _leftover_generate(spec: dict, path: str) -> None:
    """Run the REAL writer (dump_conf_header / do_conf_file) for `spec` with output `path`."""
    if spec['kind'] == 'header':
        cd = CD({k: (v, spec['desc'].get(k)) for k, v in spec['data'].items()})
        U.dump_conf_header(path, cd, spec['output_format'], spec['macro_name'])
    else:
        with MLOG.no_logging():
            U.do_conf_file(spec['src'], path, CD(dict(spec['data'])), spec['fmt'])


def leftover_one(spec: dict, plan: T.Mapping[str, T.Mapping[str, str]], root: str, tag: str) -> T.Tuple[bytes, bool]:
    """Generate into a directory that already holds the planted files; returns (bytes on disk, `~` still there)."""
    d = os.path.join(root, tag)
    os.makedirs(d)
    path = os.path.join(d, spec['out'])
    for w, pl in plan.items():
        with open(path + ('~' if w == 'tmp' else ''), 'wb') as f:
            f.write(pl['content'].encode('latin-1'))
    _leftover_generate(spec, path)
    with open(path, 'rb') as f:
        got = f.read()
    left = os.path.exists(path + '~')
    shutil.rmtree(d, ignore_errors=True)
    return got, left


def leftover_spec(rng: random.Random, root: str, i: int) -> T.Optional[dict]:
    if i % 2:
        h = G.gen_header_case(rng)
        ext = {'c': 'h', 'nasm': 'asm', 'json': 'json'}[h['output_format']]
        return {'kind': 'header', 'out': 'config.' + ext, 'data': dict(h['data']), 'desc': dict(h['desc']),
                'output_format': h['output_format'], 'macro_name': h['macro_name'], 'flavour': h['output_format']}
    case = G.gen_case(rng, charset='ascii', risky=False, allow_newline_values=False)
    if run_real(case['text'], case['data'], case['fmt'])[0] != 'ok':
        return None
    src = os.path.join(root, f't{i}.in')
    with open(src, 'wb') as f:
        f.write(case['text'].encode('utf-8'))
    return {'kind': 'template', 'out': 'out.txt', 'src': src, 'text': case['text'], 'data': dict(case['data']),
            'fmt': case['fmt'], 'flavour': 'template'}


def leftover_bigger(rng: random.Random, spec: dict, root: str, tag: str) -> bytes:
    """What a generation of a LARGER configuration / longer template writes (the complete `<output>~` that a run killed
    just before the rename leaves behind) - produced by the real writer itself."""
    big = dict(spec)
    extra = rng.randint(1, 12)
    if spec['kind'] == 'header':
        big['data'] = dict(spec['data'], **{f'HAVE_FEATURE_{j:02d}': rng.choice([True, False, 7, '"s"']) for j in range(extra)})
        big['desc'] = dict(spec['desc'], **{f'HAVE_FEATURE_{j:02d}': f'whether feature {j} was found' for j in range(0, extra, 2)})
    else:
        big['src'] = os.path.join(root, tag + '.in')
        with open(big['src'], 'wb') as f:
            f.write((spec['text'] + ('' if spec['text'].endswith('\n') or not spec['text'] else '\n') +
                     ''.join(f'more text {j}\n' for j in range(extra))).encode('utf-8'))
    got, _ = leftover_one(big, {}, root, tag)
    return got


def worker_leftover(job: T.Tuple[int, int, int]) -> dict:
    """Differential on the real writers: the same generation into a FRESH directory and into directories that already
    hold files at `<output>` / `<output>~` (longer, shorter, foreign, binary, the complete temporary of a killed larger
    generation): the bytes produced must be the same."""
    seed, idx, n = job
    rng = random.Random(f'C14:leftover:{seed}:{idx}')
    bag = Bag()
    K.REC.reset()
    root = __import__('tempfile').mkdtemp(prefix='c14l-')
    try:
        for i in range(n):
            spec = leftover_spec(rng, root, i)
            if spec is None:
                continue
            try:
                ref, _ = leftover_one(spec, {}, root, f'fresh{i}')
                killed = leftover_bigger(rng, spec, root, f'big{i}')
            except Exception as e:
                bag.tally.add('leftover:writer-rejects-case-in-fresh-directory')
                continue
            bag.cases += 1
            bag.shapes.add(common.digest(('leftover', spec['kind'], spec.get('fmt') or spec.get('output_format'), len(ref) // 64)))
            plans: T.List[dict] = [{'tmp': {'class': 'temporary-of-a-killed-larger-generation', 'content': killed.decode('latin-1')}}]
            for _j in range(3):
                plan: dict = {}
                where = rng.choice(['tmp', 'tmp', 'both', 'out'])
                for w in (('tmp', 'out') if where == 'both' else (where,)):
                    cls = rng.choice(LEFTOVER_CLASSES + ['equal-to-new-content'])
                    content = ref if cls == 'equal-to-new-content' else leftover_content(rng, cls, ref, spec['flavour'])
                    plan[w] = {'class': cls, 'content': content.decode('latin-1')}
                plans.append(plan)
            for j, plan in enumerate(plans):
                try:
                    got, left = leftover_one(spec, plan, root, f'dirty{i}_{j}')
                except Exception as e:
                    bag.note('file:leftover-in-build-dir-influences-output:generation-fails',
                             {'mode': 'leftover', 'spec': spec, 'plan': plan, 'detail': {'error': type(e).__name__ + ': ' + str(e)}})
                    continue
                bag.tally.add('monitor:leftover-files-do-not-influence-output')
                for w, pl in plan.items():
                    c = f'leftover:{spec["kind"]}:{w}:{pl["class"]}'
                    bag.cells[c] = bag.cells.get(c, 0) + 1
                if any(len(pl['content']) > len(ref) for w, pl in plan.items() if w == 'tmp'):
                    bag.tally.add('monitor:leftover-temporary-longer-than-new-content')
                if left:
                    bag.tally.add('leftover:temporary-still-present-afterwards')
                if got != ref:
                    bag.note('file:leftover-in-build-dir-influences-output:' + classify_leftover(got, plan),
                             {'mode': 'leftover', 'spec': spec, 'plan': plan,
                              'detail': {'in_fresh_directory': ref.decode('latin-1'), 'with_leftovers': got.decode('latin-1')}})
        drain_contracts(bag)
    finally:
        shutil.rmtree(root, ignore_errors=True)
    return bag.export()


def replay_leftover(w: dict) -> int:
    root = common.scratch_dir('c14r')
    spec = dict(w['spec'])
    if spec['kind'] == 'template':
        spec['src'] = os.path.join(root, 't.in')
        with open(spec['src'], 'wb') as f:
            f.write(spec['text'].encode('utf-8'))
    try:
        ref, _ = leftover_one(spec, {}, root, 'fresh')
        got, _ = leftover_one(spec, w['plan'], root, 'dirty')
        bad = got != ref
    except Exception as e:
        print('[C14] replay: generation raised', repr(e))
        bad = True
    print('[C14] replay: planted', {k: (v['class'], len(v['content'])) for k, v in w['plan'].items()},
          '-> generated file', 'DIFFERS from the one a fresh directory gets' if bad else 'equals the one a fresh directory gets')
    print('[C14] replay: witness', 'STILL FAILS' if bad else 'no longer fails')
    return 1 if bad else 0


# ------------------------------------------------------------------------------------------------
# histories on ONE build directory: configure, edit template/data, reconfigure, compare what is on disk
# ------------------------------------------------------------------------------------------------
def item_statements(it: dict) -> T.List[str]:
    v = it['var']
    out = [f'{v} = configuration_data()']
    for k, val in it['data'].items():
        out.append(f'{v}.set({mstr(k)}, {mval(val)})')
    if it['kind'] == 'template':
        out.append(f"configure_file(input: '{it['name']}.in', output: '{it['name']}.out', configuration: {v}, "
                   f"format: '{it['fmt']}')")
    else:
        kw = f"output: '{it['name']}', configuration: {v}, output_format: '{it['output_format']}'"
        if it['macro_name']:
            kw += f", macro_name: '{it['macro_name']}'"
        out.append(f'configure_file({kw})')
    return out


def edit_item(rng: random.Random, it: dict, rnd: int) -> str:
    """Change the template / data of one item for the next round; returns the edit's name.  'append',
    'truncate', 'add-last-key', 'remove-last-key' make the new output a line-wise extension / prefix of
    the old one; the others are controls."""
    if it['kind'] == 'template':
        lines = R.split_lines(it['text'])
        names = list(it['data']) + ['U_hist']
        ph = (lambda n: '${' + n + '}') if it['fmt'] == 'cmake' and rng.random() < 0.5 else (lambda n: '@' + n + '@')
        edit = rng.choice(['append', 'append', 'truncate', 'truncate', 'middle', 'value', 'none'])
        if edit == 'append':
            for j in range(rng.randint(1, 3)):
                lines.append(f'added in round {rnd}.{j}: {ph(rng.choice(names))} end\n')
        elif edit == 'truncate':
            if len(lines) < 2:
                return 'none'
            del lines[-rng.randint(1, min(2, len(lines) - 1)):]
        elif edit == 'middle':
            lines.insert(len(lines) // 2, f'inserted in round {rnd}: {ph(rng.choice(names))}\n')
        elif edit == 'value':
            if not it['data']:
                return 'none'
            k = rng.choice(list(it['data']))
            it['data'][k] = f'changed{rnd}'
        it['text'] = ''.join(lines)
        return edit
    data = it['data']
    edit = rng.choice(['add-last-key', 'add-last-key', 'remove-last-key', 'remove-last-key', 'add-first-key',
                       'change-value', 'none'])
    if edit == 'add-last-key':
        data[f'zz_last{rnd}'] = rng.choice([1, 'tok', True, '"s"'])
    elif edit == 'remove-last-key':
        if not data:
            return 'none'
        del data[max(data)]
    elif edit == 'add-first-key':
        data[f'0first{rnd}'] = rng.choice([0, 'tok', False])
    elif edit == 'change-value':
        if not data:
            return 'none'
        k = rng.choice(list(data))
        data[k] = rnd * 100 + 7
    return edit


def make_history_items(rng: random.Random, nt: int, nh: int, bag: Bag) -> T.List[dict]:
    items: T.List[dict] = []
    tries = 0
    while len(items) < nt and tries < nt * 6:
        tries += 1
        case = G.gen_case(rng, fmt=rng.choice(['meson', 'meson', 'cmake', 'cmake@']), charset='ascii', risky=False,
                          allow_newline_values=False)
        text = case['text']
        if not text.endswith('\n'):
            text += '\n'
        data = dict(case['data'])
        if run_real(text, data, case['fmt'])[0] != 'ok':
            continue
        i = len(items)
        items.append({'kind': 'template', 'name': f'ht{i}', 'var': f'cd_t{i}', 'fmt': case['fmt'], 'text': text,
                      'data': data, 'edits': []})
    for j in range(nh):
        h = G.gen_header_case(rng)
        ext = {'c': 'h', 'nasm': 'asm', 'json': 'json'}[h['output_format']]
        items.append({'kind': 'header', 'name': f'hh{j}.{ext}', 'var': f'cd_h{j}', 'output_format': h['output_format'],
                      'macro_name': h['macro_name'], 'data': dict(h['data']), 'edits': []})
    return items


def check_history_round(bdir: str, items: T.List[dict], bag: Bag, rnd: int, r: T.Any) -> None:
    events = {e.get('src') or e.get('dst'): e for e in r.records if e.get('ev') in ('conf_file', 'header')}
    for e in r.records:
        if e.get('ev') == 'contracts':
            for k, v in e['counts'].items():
                bag.tally.add(k, v)
            for v in e['violations']:
                bag.note(v['mechanism'], {'mode': 'contract-in-meson', **v['witness']})
    for it in items:
        key = it['name'] + '.in' if it['kind'] == 'template' else it['name']
        ev = events.get(key)
        if ev is None or ev['data'] != it['data']:
            bag.tally.add('inconclusive:harness-data-not-transported')
            bag.note('harness:meson-build-does-not-carry-the-data',
                     {'mode': 'harness', 'intended': it['data'], 'seen': ev and ev['data']})
            continue
        bag.tally.add('monitor:history-output-current')
        bag.cells['history-edit:' + (it['edits'][-1] if it['edits'] else 'initial')] = \
            bag.cells.get('history-edit:' + (it['edits'][-1] if it['edits'] else 'initial'), 0) + 1
        planted = it.get('planted') or {}
        witness = {'mode': 'history', 'kind': it['kind'], 'edits': list(it['edits']),
                   'rounds': it['rounds'] + [{'statements': item_statements(it),
                                              'template': it.get('text'), 'planted': planted}],
                   'item': {k: (dict(it[k]) if k == 'data' else it[k])     # a copy: later rounds edit it['data']
                            for k in ('name', 'fmt', 'output_format', 'macro_name', 'data') if k in it}}
        if planted:
            bag.tally.add('monitor:history-output-current-despite-leftover-files')
        raw = b''
        try:
            fn = it['name'] + '.out' if it['kind'] == 'template' else it['name']
            with open(os.path.join(bdir, fn), 'rb') as f:
                raw = f.read()
            got = io.TextIOWrapper(io.BytesIO(raw), encoding='utf-8', newline='').read()
        except (OSError, UnicodeDecodeError) as e:
            mech = 'file:output-unreadable'
            if planted:
                mech = 'file:leftover-in-build-dir-influences-output:' + classify_leftover(raw, planted)
            bag.note(mech, dict(witness, detail={'error': repr(e)}))
            continue
        stale = it.get('last_disk') is not None and got == it['last_disk'] and 'out' not in planted
        lo_mech = ('file:leftover-in-build-dir-influences-output:' + classify_leftover(raw, planted)) if planted else None
        if it['kind'] == 'template':
            case = {'fmt': it['fmt'], 'text': it['text'], 'data': dict(it['data']), 'markers': {}}
            real = do_case(bag, case, mode='file')
            if real[0] != 'ok':
                bag.tally.add('inconclusive:history-template-rejected-in-process')
                continue
            want = ''.join(real[1])
            if got != want:
                mech = 'file:stale-output-kept-after-reconfigure' if stale else (lo_mech or 'file:output-differs-from-do_conf_str')
                bag.note(mech, dict(witness, detail={'on_disk': got, 'expected_for_current_template_and_data': want}))
        else:
            why = R.check_header(got, it['data'], it['output_format'], it['macro_name'])
            if why is not None:
                mech = 'file:stale-output-kept-after-reconfigure' if stale else (lo_mech or 'header:' + why.split(':')[0])
                bag.note(mech, dict(witness, detail={'why': why, 'on_disk': got}))
        it['last_disk'] = got


def write_history_tree(src: str, items: T.List[dict]) -> None:
    mb = ["project('c14 history', meson_version: '>=1.3.0')"]
    files: T.Dict[str, T.Union[str, bytes]] = {}
    for it in items:
        mb += item_statements(it)
        if it['kind'] == 'template':
            files[it['name'] + '.in'] = it['text'].encode('utf-8')
    files['meson.build'] = '\n'.join(mb) + '\n'
    runner.write_tree(src, files)


def worker_history(job: T.Tuple[int, int, int, int, int]) -> dict:
    seed, idx, nt, nh, nrounds = job
    rng = random.Random(f'C14:history:{seed}:{idx}')
    prng = random.Random(f'C14:history-leftovers:{seed}:{idx}')
    bag = Bag()
    K.REC.reset()
    root = common.scratch_dir('c14p') if os.getpid() == common._MAIN_PID else None
    tmp = root or __import__('tempfile').mkdtemp(prefix='c14p-')
    try:
        src = os.path.join(tmp, 'src')
        bdir = os.path.join(tmp, 'build')
        os.makedirs(src)
        items = make_history_items(rng, nt, nh, bag)
        for it in items:
            it['rounds'] = []
        for rnd in range(nrounds):
            if rnd:
                for it in items:
                    it['rounds'].append({'statements': item_statements(it), 'template': it.get('text'),
                                         'planted': it.get('planted') or {}})
                    before = (it.get('text'), dict(it['data']))
                    ed = edit_item(rng, it, rnd)
                    if it['kind'] == 'template' and run_real(it['text'], it['data'], it['fmt'])[0] != 'ok':
                        it['text'], it['data'] = before[0], before[1]
                        ed = 'none'
                    it['edits'].append(ed)
            write_history_tree(src, items)
            plant_leftovers(prng, bdir, items, bag)
            argv = ['setup', '--backend=none', bdir] if rnd == 0 else ['setup', '--reconfigure', bdir]
            r = runner.meson(argv, cwd=src, monitors=[K.child_monitor], timeout=120)
            bag.tally.add('history:rounds')
            if r.timed_out:
                bag.tally.add('inconclusive:file-project-timeout')
                break
            if r.rc != 0:
                mech = 'file:internal-error' if r.traceback else 'file:setup-rejects-batch'
                bag.note(mech, {'mode': 'project', 'round': rnd, **r.brief()})
                break
            check_history_round(bdir, items, bag, rnd, r)
        bag.cases += len(items)
        bag.shapes.add(common.digest(('history', tuple(tuple(it['edits']) for it in items))))
        drain_contracts(bag)
    finally:
        if root is None:
            shutil.rmtree(tmp, ignore_errors=True)
    return bag.export()


def replay_history(w: dict) -> int:
    tmp = common.scratch_dir('c14r')
    src, bdir = os.path.join(tmp, 'src'), os.path.join(tmp, 'b')
    os.makedirs(src)
    item = w['item']
    got = ''
    for rnd, rd in enumerate(w['rounds']):
        tree: T.Dict[str, T.Union[str, bytes]] = {
            'meson.build': "project('r', meson_version: '>=1.3.0')\n" + '\n'.join(rd['statements']) + '\n'}
        if w['kind'] == 'template':
            tree[item['name'] + '.in'] = rd['template'].encode('utf-8')
        runner.write_tree(src, tree)
        os.makedirs(bdir, exist_ok=True)
        fn0 = item['name'] + '.out' if w['kind'] == 'template' else item['name']
        for where, pl in (rd.get('planted') or {}).items():
            with open(os.path.join(bdir, fn0 + ('~' if where == 'tmp' else '')), 'wb') as f:
                f.write(pl['content'].encode('latin-1'))
        r = runner.meson(['setup', '--backend=none', bdir] if rnd == 0 else ['setup', '--reconfigure', bdir], cwd=src)
        if r.rc != 0:
            print('[C14] replay: round', rnd, 'failed to configure')
            return 1
    fn = item['name'] + '.out' if w['kind'] == 'template' else item['name']
    with open(os.path.join(bdir, fn), encoding='utf-8', newline='', errors='surrogateescape') as f:
        got = f.read()
    if w['kind'] == 'template':
        real = run_real(w['rounds'][-1]['template'], item['data'], item['fmt'])
        bad = real[0] != 'ok' or got != ''.join(real[1])
    else:
        bad = R.check_header(got, item['data'], item['output_format'], item['macro_name']) is not None
    print('[C14] replay: edits', w.get('edits'), '-> output on disk is', 'NOT that of the current template/data' if bad else 'current')
    print('[C14] replay: witness', 'STILL FAILS' if bad else 'no longer fails')
    return 1 if bad else 0


def check_descriptions(text: str, hc: dict) -> T.Optional[str]:
    """Configuration.md: the description is placed (as a comment) before the value."""
    prefix = '#' if hc['output_format'] == 'c' else '%'
    for k, d in hc['desc'].items():
        if hc['output_format'] == 'c':
            com = '/* ' + d + ' */\n'
        else:
            com = '; ' + '\n; '.join(d.split('\n')) + '\n'
        if (com + prefix + 'define ' + k) not in text and (com + prefix + 'undef ' + k) not in text:
            return 'description-not-before-value:' + k
    return None


def classify_file_difference(case: dict, tc: dict, got: str) -> str:
    want = tc['inproc_out']
    if got.replace('\r\n', '\n').replace('\r', '\n') == want.replace('\r\n', '\n').replace('\r', '\n'):
        return 'file:line-endings-changed-by-file-io'
    return 'file:output-differs-from-do_conf_str'


# ------------------------------------------------------------------------------------------------
# directed cases
# ------------------------------------------------------------------------------------------------
DIRECTED: T.List[T.Tuple[str, dict, T.Optional[str]]] = [
    # (label, case, mechanism expected on the unchanged tree or None)
    ('doc:version-string', {'fmt': 'meson', 'text': '#define VERSION_STR "@version@"\n', 'data': {'version': '1.2.3'}}, None),
    ('doc:mesondefine-forms', {'fmt': 'meson', 'text': '#mesondefine T\n#mesondefine F\n#mesondefine I\n#mesondefine S\n#mesondefine Z\n',
                               'data': {'T': True, 'F': False, 'I': 4, 'S': '"value"'}}, None),
    ('crlf-plain', {'fmt': 'meson', 'text': 'a @A@\r\nb\r\n@A@', 'data': {'A': 'x'}}, None),
    ('no-rescan-plain', {'fmt': 'meson', 'text': '@A@ @B@\n', 'data': {'A': '@B@', 'B': '\\@A\\@'}}, None),
    ('backslash-values', {'fmt': 'meson', 'text': '@A@|@B@\n', 'data': {'A': '\\1\\g<0>', 'B': 'C:\\n'}}, None),
    ('cmake-bool', {'fmt': 'cmake', 'text': '@T@ ${F}\n#cmakedefine01 T\n#cmakedefine F x\n', 'data': {'T': True, 'F': False}}, None),
    ('cmake-nested', {'fmt': 'cmake', 'text': '${${A}}\n', 'data': {'A': 'B', 'B': 'b'}}, None),
    ('cmake-at-only', {'fmt': 'cmake@', 'text': '${A} @A@\n', 'data': {'A': 'v'}}, None),
    # known findings: re-observed on every run
    ('probe:mesondefine-rescan', {'fmt': 'meson', 'text': '#mesondefine A\n', 'data': {'A': '@B@', 'B': 'zz'}},
     'mesondefine-str-value-rescanned'),
    ('probe:mesondefine-rescan-undefined', {'fmt': 'meson', 'text': '#mesondefine A\n', 'data': {'A': 'x\\\\@y'}},
     'mesondefine-str-value-rescanned'),
    ('probe:mesondefine-crlf', {'fmt': 'meson', 'text': '#mesondefine A\r\n', 'data': {'A': 1}},
     'mesondefine-line-terminator-normalised'),
    ('probe:cmakedefine-crlf', {'fmt': 'cmake', 'text': '#cmakedefine01 A\r\n', 'data': {'A': 1}},
     'cmakedefine-line-terminator-normalised'),
    ('probe:cmake-empty-skip', {'fmt': 'cmake', 'text': '${A}${B}\n', 'data': {'A': '', 'B': 'b'}},
     'cmake-empty-value-skips-next-placeholder'),
    ('probe:cmake-empty-skip-at', {'fmt': 'cmake@', 'text': '@U@@B@\n', 'data': {'B': 'b'}},
     'cmake-empty-value-skips-next-placeholder'),
    ('probe:cmake-self-reference', {'fmt': 'cmake@', 'text': '@A@\n', 'data': {'A': 'p@A@q'}},
     'cmake-value-referencing-itself-never-terminates'),
    ('probe:cmakedefine-noname', {'fmt': 'cmake', 'text': '#cmakedefine\n', 'data': {'A': 1}},
     'cmakedefine-without-name-indexerror'),
    ('probe:cmakedefine-text-undefined', {'fmt': 'cmake', 'text': '#cmakedefine A @U@\n', 'data': {'A': 1}},
     'cmakedefine-text-undefined-not-reported'),
]


def run_directed(bag: Bag) -> T.Dict[str, T.List[str]]:
    seen: T.Dict[str, T.List[str]] = {}
    for label, case, _expect in DIRECTED:
        case = dict(case, markers={})
        before = dict(bag.found_n)
        do_case(bag, case, mode='directed')
        seen[label] = sorted(m for m in bag.found_n if bag.found_n[m] != before.get(m, 0))
        bag.shapes.add(common.digest(('directed', label)))
    bag.tally.add('monitor:directed-probes', len(DIRECTED))
    return seen


def run_fixture(bag: Bag, chk: common.Check) -> None:
    """config6.h.in + prog6.c: calibrate the scanner, then run the real code on every template of the fixture."""
    try:
        with open(os.path.join(FIXTURE, 'config6.h.in'), encoding='utf-8', newline='') as f:
            cfg = f.read()
        with open(os.path.join(FIXTURE, 'prog6.c'), encoding='utf-8') as f:
            prog = f.read()
    except OSError as e:
        chk.inconclusive.append('fixture unreadable: %r' % e)
        return
    bad = R.selftest_fixture(cfg, prog)
    if bad:
        chk.inconclusive.append('reftemplate disagrees with the upstream fixture (oracle not calibrated): ' + '; '.join(bad[:3]))
        return
    try:
        with open(os.path.join(FIXTURE, 'config7.h.in'), encoding='utf-8', newline='') as f:
            cfg7 = f.read()
        with open(os.path.join(FIXTURE, 'prog7.c'), encoding='utf-8') as f:
            prog7 = f.read()
        bad = R.selftest_fixture_cmake(cfg7, prog7)
    except OSError as e:
        bad = [repr(e)]
    if bad:
        chk.inconclusive.append('reftemplate disagrees with the upstream cmake fixture: ' + '; '.join(bad[:3]))
        return
    bag.tally.add('monitor:fixture-calibration', 12 + 8)
    do_case(bag, {'fmt': 'cmake', 'text': cfg7, 'data': {'var1': 'foo', 'var2': 'bar'}, 'markers': {}}, mode='fixture')
    conf6 = {'var1': 'foo', 'var2': 'bar', 'var3': 'baz', 'var4': 'qux'}
    do_case(bag, {'fmt': 'meson', 'text': cfg, 'data': conf6, 'markers': {}}, mode='fixture')
    do_case(bag, {'fmt': 'meson', 'text': cfg.replace('\n', '\r\n'), 'data': conf6, 'markers': {}}, mode='fixture')
    # the other templates of the fixture directory, with a dictionary covering the names they use
    generic = {'var': 'mystring', 'other': 'string 2', 'second': ' bonus', 'empty': '', 'BE_TRUE': True,
               'SHOULD_BE_DEFINED': 'string', 'MESSAGE': 'mystring', 'ZERO': 0, 'ONE': 1}
    for fn in sorted(os.listdir(FIXTURE)):
        if fn.endswith('.in') and fn not in ('config6.h.in', 'invalid-utf8.bin.in'):
            try:
                with open(os.path.join(FIXTURE, fn), encoding='utf-8', newline='') as f:
                    txt = f.read()
            except (OSError, UnicodeDecodeError):
                continue
            do_case(bag, {'fmt': 'meson', 'text': txt, 'data': generic, 'markers': {}}, mode='fixture')
            bag.tally.add('fixture:other-templates')


# ------------------------------------------------------------------------------------------------
# replay
# ------------------------------------------------------------------------------------------------
def replay(chk: common.Check, path: str) -> int:
    with open(path, encoding='utf-8') as f:
        w = json.load(f)
    mech = w.get('mechanism')
    mode = w.get('mode')
    print(f'[C14] replay {path}: mode={mode} mechanism={mech}')
    src = w.get('minimised') or w
    if mode == 'history':
        return replay_history(w)
    if mode == 'leftover':
        return replay_leftover(w)
    if mode == 'file' and w.get('sequence'):
        sq = w['sequence']
        tmp = common.scratch_dir('c14r')
        os.makedirs(os.path.join(tmp, 'src'))
        tree2: T.Dict[str, T.Union[str, bytes]] = {k: v.encode('utf-8') for k, v in sq['files'].items()}
        tree2['meson.build'] = "project('r', meson_version: '>=1.3.0')\n" + '\n'.join(sq['meson_build']) + '\n'
        runner.write_tree(os.path.join(tmp, 'src'), tree2)
        r = runner.meson(['setup', '--backend=none', os.path.join(tmp, 'b')], cwd=os.path.join(tmp, 'src'))
        bad = True
        if r.rc == 0:
            real = run_real(w['text'], w['data'], w['fmt'])
            with open(os.path.join(tmp, 'b', sq['output']), encoding='utf-8', newline='') as f:
                got = f.read()
            warned = sorted(parse_missing_warnings(r.out).get(sq['input'], set()))
            bad = real[0] != 'ok' or got != ''.join(real[1]) or warned != sorted(real[2])
        print('[C14] replay: history', sq['history'], '-> output/warning', 'NOT those of the object as built' if bad else 'as expected')
        print('[C14] replay: witness', 'STILL FAILS' if bad else 'no longer fails')
        return 1 if bad else 0
    if mode == 'read-back':
        sq = w['sequence']
        tmp = common.scratch_dir('c14r')
        os.makedirs(os.path.join(tmp, 'src'))
        tree3: T.Dict[str, T.Union[str, bytes]] = {k: v.encode('utf-8') for k, v in sq['files'].items()}
        tree3['meson.build'] = "project('r', meson_version: '>=1.3.0')\n" + '\n'.join(sq['meson_build']) + '\n'
        runner.write_tree(os.path.join(tmp, 'src'), tree3)
        r = runner.meson(['setup', '--backend=none', os.path.join(tmp, 'b')], cwd=os.path.join(tmp, 'src'))
        why3: T.Optional[str] = 'setup failed'
        if r.rc == 0:
            with open(os.path.join(tmp, 'b', sq['output']), encoding='utf-8', newline='') as f:
                why3 = check_read_back(f.read(), w['expect'], w['keys'])
        print('[C14] replay: history', sq['history'], '-> read-back verdict:', why3)
        print('[C14] replay: witness', 'STILL FAILS' if why3 else 'no longer fails')
        return 1 if why3 else 0
    if mode == 'header' and w.get('sequence'):
        sq = w['sequence']
        tmp = common.scratch_dir('c14r')
        os.makedirs(os.path.join(tmp, 'src'))
        tree: T.Dict[str, T.Union[str, bytes]] = {k: v.encode('utf-8') for k, v in sq['files'].items()}
        tree['meson.build'] = "project('r', meson_version: '>=1.3.0')\n" + '\n'.join(sq['meson_build']) + '\n'
        runner.write_tree(os.path.join(tmp, 'src'), tree)
        r = runner.meson(['setup', '--backend=none', os.path.join(tmp, 'b')], cwd=os.path.join(tmp, 'src'))
        why: T.Optional[str] = 'setup failed'
        if r.rc == 0:
            with open(os.path.join(tmp, 'b', sq['output']), encoding='utf-8', newline='') as f:
                text = f.read()
            why = R.check_header(text, w['data'], w['output_format'], w.get('macro_name'))
            if why is None and w['output_format'] != 'json':
                why = check_descriptions(text, {'output_format': w['output_format'], 'desc': w.get('desc') or {}})
        print('[C14] replay: history', sq['history'], '-> header verdict:', why)
        print('[C14] replay: witness', 'STILL FAILS' if why else 'no longer fails')
        return 1 if why else 0
    if mode == 'header':
        bag = Bag()
        tmp = common.scratch_dir('c14r')
        os.makedirs(os.path.join(tmp, 'src'))
        mb = ["project('r', meson_version: '>=1.3.0')", 'cd = configuration_data()']
        for k, v in w['data'].items():
            d = (w.get('desc') or {}).get(k)
            mb.append(f'cd.set({mstr(k)}, {mval(v)}' + (f', description: {mstr(d)}' if d else '') + ')')
        kw = "output: 'out.h', configuration: cd, output_format: '%s'" % w['output_format']
        if w.get('macro_name'):
            kw += ", macro_name: '%s'" % w['macro_name']
        mb.append(f'configure_file({kw})')
        runner.write_tree(os.path.join(tmp, 'src'), {'meson.build': '\n'.join(mb) + '\n'})
        r = runner.meson(['setup', '--backend=none', os.path.join(tmp, 'b')], cwd=os.path.join(tmp, 'src'))
        why = 'setup failed'
        if r.rc == 0:
            with open(os.path.join(tmp, 'b', 'out.h'), encoding='utf-8', newline='') as f:
                text = f.read()
            why = R.check_header(text, w['data'], w['output_format'], w.get('macro_name')) or \
                check_descriptions(text, {'output_format': w['output_format'], 'desc': w.get('desc') or {}})
        print('[C14] replay: header verdict:', why)
        return 1 if why else 0
    if 'text' not in src or 'data' not in src:
        if mode in ('contract', 'contract-in-meson') and w.get('function') in ('do_define_meson', 'do_replacement_meson'):
            a = w['args']
            src = {'fmt': 'meson', 'text': a[0], 'data': a[1], 'markers': {}}
        else:
            print('[C14] replay: witness carries no single template (project-level failure); re-run the tier')
            return 1
    case = {'fmt': src.get('fmt', w.get('fmt', 'meson')), 'text': src['text'], 'data': src['data'],
            'markers': src.get('markers') or w.get('markers') or {}}
    K.REC.reset()
    found = mechanisms_of(case)
    snap = K.REC.snapshot()
    mechs = sorted({m for m, _ in found} | {v['mechanism'] for v in snap['violations']})
    if mode == 'file':
        bag = Bag()
        tmp = common.scratch_dir('c14r')
        os.makedirs(os.path.join(tmp, 'src'))
        enc = w.get('encoding')
        mb = ["project('r', meson_version: '>=1.3.0')", 'cd = configuration_data()']
        for k, v in case['data'].items():
            mb.append(f'cd.set({mstr(k)}, {mval(v)})')
        mb.append(f"configure_file(input: 't.in', output: 't.out', configuration: cd, format: '{case['fmt']}'"
                  + (f", encoding: '{enc}'" if enc else '') + ')')
        runner.write_tree(os.path.join(tmp, 'src'), {'meson.build': '\n'.join(mb) + '\n',
                                                     't.in': case['text'].encode(enc or 'utf-8')})
        r = runner.meson(['setup', '--backend=none', os.path.join(tmp, 'b')], cwd=os.path.join(tmp, 'src'))
        real = run_real(case['text'], case['data'], case['fmt'])
        if r.rc != 0:
            mechs.append('file:setup-rejects-batch')
        elif real[0] == 'ok':
            with open(os.path.join(tmp, 'b', 't.out'), 'rb') as f:
                got = f.read().decode(enc or 'utf-8')
            if got != ''.join(real[1]):
                mechs.append('file:output-differs-from-do_conf_str')
            warned = sorted(parse_missing_warnings(r.out).get('t.in', set()))
            if warned != sorted(real[2]):
                mechs.append('file:missing-warning-differs')
    print('[C14] replay: mechanisms observed now:', mechs)
    for m, d in found:
        print('   ', m, json.dumps(d, ensure_ascii=True)[:400])
    still = mech in mechs or (mech is not None and mech.startswith('file:') and any(m.startswith('file:') for m in mechs))
    print('[C14] replay: witness', 'STILL FAILS' if still else 'no longer fails')
    return 1 if still else 0


# ------------------------------------------------------------------------------------------------
# main
# ------------------------------------------------------------------------------------------------
def merge(chk: common.Check, total: Bag, part: dict) -> None:
    for k, v in part['tally'].items():
        total.tally.add(k, v)
    for k, v in part['cells'].items():
        total.cells[k] = total.cells.get(k, 0) + v
    total.shapes.update(part['shapes'])
    total.cases += part['cases']
    total.lines += part['lines']
    for s in part['samples']:
        chk.sample(s)
    for mech, n in part['found_n'].items():
        total.found_n[mech] = total.found_n.get(mech, 0) + n
    for mech, ws in part['found'].items():
        lst = total.found.setdefault(mech, [])
        for w in ws:
            if len(lst) < 3:
                lst.append(w)


def main() -> int:
    global KNOWN
    chk = common.Check('C14')
    KNOWN = set(chk.known)
    boot()
    if os.environ.get('VERIF_REPLAY'):
        return replay(chk, os.environ['VERIF_REPLAY'])
    quick = chk.tier == 'quick'
    jobs = chk.jobs
    t0 = time.time()
    total = Bag()

    # 1. calibration on the upstream fixture, directed cases and probes (parent process)
    K.REC.reset()
    first = Bag()
    run_fixture(first, chk)
    probe_seen = run_directed(first)
    drain_contracts(first)
    merge(chk, total, first.export())
    for label, _case, expect in DIRECTED:
        if expect is not None and expect not in probe_seen.get(label, []):
            total.tally.add('probe-not-reproduced:' + expect)
        elif expect is not None:
            total.tally.add('probe-reproduced:' + expect)

    # 2. bounded exhaustive lines (meson format)
    maxlen = 3 if quick else 4
    nparts = max(1, min(jobs, 16))
    for part in common.pmap(worker_exhaustive, [(p, nparts, maxlen) for p in range(nparts)], jobs):
        merge(chk, total, part)
    exh_lines = total.tally.get('exhaustive:lines', 0)

    # 3. random templates in-process
    target_lines = 200_000 if quick else 10_000_000
    avg_lines = 4.5
    ncases = int(target_lines / avg_lines)
    budget = 40.0 if quick else 11 * 60.0
    deadline = time.time() + budget
    nchunks = max(jobs * (2 if quick else 8), 1)
    per = (ncases + nchunks - 1) // nchunks
    for part in common.pmap(worker_inproc, [(chk.seed, i, per, deadline) for i in range(nchunks)], jobs):
        merge(chk, total, part)

    # 4. through the real configure_file()
    nproj = 20 if quick else 300
    # ... and ONE object through calls of different formats in every order: all 36 ordered pairs of
    # {meson, cmake, cmake@ template, c, nasm, json without template} + orders of all six (thorough: all 720)
    norder = 2 if quick else 12
    order_jobs: T.List[T.Tuple[T.Any, ...]] = [(chk.seed, i, 0, 0, (norder, 6 if quick else 0, not quick))
                                               for i in range(norder)]
    proj_jobs: T.List[T.Tuple[T.Any, ...]] = [(chk.seed, i, 30, 6) for i in range(nproj)]
    for part in common.pmap(worker_project, order_jobs + proj_jobs, jobs):
        merge(chk, total, part)

    # 5. histories on one build directory (configure, edit, reconfigure)
    nhist = 10 if quick else 80
    for part in common.pmap(worker_history, [(chk.seed, i, 6, 5, 4) for i in range(nhist)], jobs):
        merge(chk, total, part)

    # 6. files already present at `<output>` / `<output>~` (killed earlier generation, editor backup): the real
    #    writers into a fresh directory and into directories holding such files must produce the same bytes
    nleft = 320 if quick else 6000
    lchunks = max(1, min(jobs * 2, 32))
    for part in common.pmap(worker_leftover, [(chk.seed, i, (nleft + lchunks - 1) // lchunks) for i in range(lchunks)], jobs):
        merge(chk, total, part)

    # ---- verdict -------------------------------------------------------------------------------
    chk.evaluations = total.cases
    chk.distinct = set(total.shapes)
    for k, v in total.tally.items():
        if k.startswith('inconclusive:'):
            chk.inconclusive_case(k[len('inconclusive:'):])
            chk.counters['inconclusive:' + k[len('inconclusive:'):]] = v
        else:
            chk.count(k, v)
    chk.count('lines:total', total.lines)
    for mech, ws in sorted(total.found.items()):
        if mech.startswith('harness:'):
            chk.inconclusive.append('harness problem: ' + mech)
            continue
        chk.count('observed:' + mech, total.found_n.get(mech, 0))
        for w in ws:
            chk.violation(mech, w)
    if any(k.startswith('contract-internal-error') for k in total.tally):
        chk.inconclusive.append('a contract monitor raised internally: ' +
                                ', '.join(k for k in total.tally if k.startswith('contract-internal-error')))
    for name, minimum in [
        ('monitor:fixture-calibration', 20), ('monitor:directed-probes', len(DIRECTED)),
        ('monitor:scanner-equality', 10000), ('monitor:copy-through', 10000), ('monitor:no-rescan', 2000),
        ('monitor:line-ending', 10000), ('monitor:missing-set', 2000), ('monitor:define-render', 1000),
        ('monitor:define-line-ending', 1000), ('monitor:file-output-equals', 100), ('monitor:missing-warning', 100),
        ('monitor:header-keys', 30), ('monitor:sequence-steps', 100), ('monitor:format-order-chains', 36),
        ('monitor:sequence-steps-after-another-format', 100), ('monitor:object-read-back-after-configure_file', 50), ('monitor:line-context-independence', 2000), ('monitor:sequence-steps-in-a-family-of-copies', 50), ('monitor:history-output-current', 200),
        ('monitor:history-output-current-despite-leftover-files', 60),
        ('monitor:leftover-files-do-not-influence-output', 600),
        ('monitor:leftover-temporary-longer-than-new-content', 200),
        ('contract:do_conf_str:confstr_line_count_preserved', 1000),
        ('contract:do_replacement_meson:repl_meson_agrees_with_scanner', 10000),
        ('contract:do_define_meson:define_has_documented_form', 500),
        ('contract:dump_conf_header:header_defines_exactly_the_keys_sorted_once', 30),
        ('calls:do_conf_file', 100),
    ]:
        chk.require(name, minimum)
    cells = dict(sorted(total.cells.items()))
    return chk.finish(
        rule=('a case is one template (1-8 lines assembled from %d inline and %d whole-line fragment kinds, with '
              'LF/CRLF/CR/no final terminator) x one configuration dictionary (2-5 names; str incl. placeholder '
              'look-alikes/empty/blank/backslash/non-ASCII, int, bool, undefined; 55%% marker-wrapped) x format '
              '(meson/cmake/cmake@), or one template-less header, or one step (configure_file of one of six kinds, or the '
              'final read-back) of a history of configuration_data() objects inside one meson.build - random families '
              'and every ordered pair / orders of all six kinds on one object, or one generation (template or template-less header) into a directory that already holds files at <output> / <output>~ (longer, shorter, foreign, binary, the complete temporary of a killed larger generation) compared with the same generation into a fresh directory; distinct = structural hash of (format, fragment '
              'kinds and terminator per line, multiset of value classes, marker mode); plus every concatenation of '
              '<=%d symbols of a %d-symbol escape alphabet x 4 dictionaries; trivial cases (no fragment) are not '
              'excluded from evaluations but collapse to one shape')
        % (len(G.INLINE) + len(G.RANDOM_INLINE), len(G.LINEFRAG), maxlen, len(G.EXH_ALPHABET)),
        assumptions=[
            'escape semantics of the meson format are taken from the upstream fixture config6.h.in/prog6.c (prose is silent); '
            'the scanner is re-calibrated against the fixture on every run',
            'shapes the documents do not describe (malformed directives, exotic white space, cmake values containing @ or $, '
            'malformed ${...}, bool in @VAR@ of the meson format) are checked for consistency only: no internal error',
            'a directive line without terminator may or may not gain a newline (upstream unit tests pin the added newline)',
            "'/* undef X */' (Configuration.md) and '/* #undef X */' (code, upstream tests) are both accepted",
            'lines are split as a text file opened with newline="" does (\\n, \\r\\n, lone \\r)',
            'file mode trusts the monitor record of do_conf_file/dump_conf_header arguments to confirm that the generated '
            'meson.build carried the intended dictionary',
            'files that pre-exist at <output> and <output>~ are regular, writable files (symlinks, directories, read-only files at those paths are not explored: the documents say nothing about them)',
            'a configuration_data() object is what the build file made it (set/set10/set_quoted/merge_from, assignment '
            'copies): configure_file() is documented to read it, never to change it; the order of keys() is not demanded; '
            'get_unquoted() is not asked about values shorter than two characters',
        ],
        exhaustive=False,
        extra={'coverage_cells': cells, 'exhaustive_part': {'alphabet': G.EXH_ALPHABET, 'max_symbols': maxlen,
                                                             'lines_run': exh_lines},
               'phase_wall_s': round(time.time() - t0, 1)})


if __name__ == '__main__':
    sys.exit(main())
