"""Mutation validation of the C10 check (BUILDER.md rule 5, DESIGN.md 1.7 list "M:" of C10 plus own ones).

    /venv/bin/python -m vf.checks.c10_mutants all|<name prefix> [quick|thorough]

Each mutant is applied to a scratch git worktree of /repo (/tmp/wt-C10-<k>, removed afterwards), the check is
run against it with VERIF_REPO and the pinned unit tests are run on the mutant.  Not part of `./check C10`.
"""
import os
import subprocess
import sys
import time

DF = 'mesonbuild/interpreter/dependencyfallbacks.py'
WR = 'mesonbuild/wrap/wrap.py'
MUTANTS = {
    'M1-system-under-forcefallback': (DF, "        if not self.forcefallback or not self.subproject_name:\n            for name in self.names:\n                candidates.append((self._do_dependency, name))",
                                      "        if True:\n            for name in self.names:\n                candidates.append((self._do_dependency, name))"),
    'M2-ignore-nofallback': (DF, "        elif self.nofallback:\n            mlog.log('Not looking for a fallback subproject for the dependency',\n                     mlog.bold(self._display_name), 'because:\\nUse of fallback dependencies is disabled.')\n            return None\n",
                             "        elif self.nofallback:\n            mlog.log('Not looking for a fallback subproject for the dependency',\n                     mlog.bold(self._display_name), 'because:\\nUse of fallback dependencies is disabled.')\n"),
    'M3-drop-required-or': (DF, "if self.forcefallback or self.allow_fallback is True or required or self._get_subproject(subp_name):",
                            "if self.forcefallback or self.allow_fallback is True or self._get_subproject(subp_name):"),
    'M4-skip-check_hash-on-cache-hit': (WR, "            if os.path.exists(cache_path):\n                self.check_hash(what, cache_path)\n",
                                        "            if os.path.exists(cache_path):\n"),
    'M5a-prefix-compare-check_hash': (WR, "        dhash = self.hash_file(path)\n        if dhash != expected:", "        dhash = self.hash_file(path)\n        if dhash[:16] != expected[:16]:"),
    'M5b-prefix-compare-download': (WR, "            expected = self.wrap.get(what + '_hash').lower()\n            if dhash != expected:\n                os.remove(tmpfile)",
                                    "            expected = self.wrap.get(what + '_hash').lower()\n            if not dhash.startswith(expected):\n                os.remove(tmpfile)"),
    'M6-keep-dir-on-patch-failure': (WR, "            except Exception:\n                windows_proof_rmtree(self.dirname)\n                raise\n",
                                     "            except Exception:\n                raise\n"),
    'M7-drop-check_can_download': (WR, "    def _download(self, what: str, ofname: str, packagename: str, fallback: bool = False) -> None:\n        self.check_can_download()\n",
                                   "    def _download(self, what: str, ofname: str, packagename: str, fallback: bool = False) -> None:\n"),
    'M8-override-version-mismatch-falls-through': (DF, "                if not override:\n                    # We cached this dependency on disk from a previous run,\n                    # but it could got updated on the system in the meantime.\n                    return None\n",
                                                   "                if not override or True:\n                    return None\n"),
    'M9-fff-ignores-provider-subproject': (DF, "                    self.forcefallback |= subp_name in force_fallback_for\n", ""),
    'M10-fallback-url-unverified': (WR, "            if dhash != expected:\n                os.remove(tmpfile)", "            if dhash != expected and not fallback:\n                os.remove(tmpfile)"),
    'M11-allow_fallback-false-ignored': (DF, "        if not self.subproject_name and self.allow_fallback is not False:", "        if not self.subproject_name:"),
    'M12-packagefiles-never-checked': (WR, "        if what + '_hash' not in self.wrap.values and not hash_required:\n            return", "        if not hash_required:\n            return"),
    'M15-cleanup-only-on-WrapException': (WR, "            except Exception:\n                windows_proof_rmtree(self.dirname)\n                raise\n",
                                          "            except WrapException:\n                windows_proof_rmtree(self.dirname)\n                raise\n"),
    'M16-rename-before-verify': (WR, "            dhash, tmpfile = self.get_data_with_backoff(srcurl)\n            expected = self.wrap.get(what + '_hash').lower()\n            if dhash != expected:\n                os.remove(tmpfile)\n",
                                 "            dhash, tmpfile = self.get_data_with_backoff(srcurl)\n            expected = self.wrap.get(what + '_hash').lower()\n            if dhash != expected:\n                os.rename(tmpfile, ofname)\n"),
    'M17-cache-hit-hash-optional': (WR, "                self.check_hash(what, cache_path)\n", "                self.check_hash(what, cache_path, hash_required=False)\n"),
    'M18-subproject-dep-version-unchecked': (DF, "        if not self._check_version(wanted, found):\n            self._log_found(False, subproject=subproject.subdir,",
                                             "        if False:\n            self._log_found(False, subproject=subproject.subdir,"),
    'M20-diff-failure-ignored': (WR, "            if p.returncode != 0:\n                mlog.log(out.strip())\n                raise WrapException(f'Failed to apply diff file \"{filename}\"')",
                                 "            if p.returncode != 0:\n                mlog.log(out.strip())"),
    'M21-fff-dep-name-ignored': (DF, "                              any(name in force_fallback_for for name in self.names) or\n", ""),
    'M22-nofallback-beats-fff': (DF, "        if self.forcefallback:\n            mlog.log('Looking for a fallback subproject for the dependency',\n                     mlog.bold(self._display_name), 'because:\\nUse of fallback dependencies is forced.')\n        elif self.nofallback:",
                                 "        if self.forcefallback and not self.nofallback:\n            mlog.log('Looking for a fallback subproject for the dependency',\n                     mlog.bold(self._display_name), 'because:\\nUse of fallback dependencies is forced.')\n        elif self.nofallback:"),
    'M23-optional-notfound-raises': (DF, "            elif required and (dep or i == last):", "            elif (required or self.nofallback) and (dep or i == last):"),
    'M24-cache-hit-checks-wrong-role': (WR, "                self.check_hash(what, cache_path)\n", "                self.check_hash('source', cache_path)\n"),
    'M39-cached-system-dep-under-forced-fallback': (DF, "        elif self.forcefallback and self.subproject_name:\n            cached_dep = None\n        else:\n            cached_dep = self.coredata.deps[self.for_machine].get(identifier)",
                                                    "        else:\n            cached_dep = self.coredata.deps[self.for_machine].get(identifier)"),
    'M40-skip-diffs': (WR, "                self.apply_patch(packagename)\n                self.apply_diff_files()\n", "                self.apply_patch(packagename)\n"),
    'M41-forced-optional-provide-not-used': (DF, "if self.forcefallback or self.allow_fallback is True or required or self._get_subproject(subp_name):", "if self.allow_fallback is True or required or self._get_subproject(subp_name):"),
    'M42-override-slot-from-global-default_library': ('mesonbuild/interpreter/mesonmain.py',
                                                      "        optkey = OptionKey('default_library', subproject=self.interpreter.subproject)\n",
                                                      "        optkey = OptionKey('default_library')\n"),
    'M43-rmtree-helper-stats-dangling-symlinks': ('mesonbuild/utils/universal.py',
                                                  "        os.chmod(d, os.stat(d).st_mode | stat.S_IWRITE | stat.S_IREAD)\n        for fname in files:\n            fpath = os.path.join(d, fname)\n            if not os.path.islink(fpath) and os.path.isfile(fpath):\n                os.chmod(fpath, os.stat(fpath).st_mode | stat.S_IWRITE | stat.S_IREAD)\n",
                                                  "        for path in [d, *(os.path.join(d, fname) for fname in files)]:\n            os.chmod(path, os.stat(path).st_mode | stat.S_IWRITE | stat.S_IREAD)\n"),
    'M44-subproject-build-copy-shares-override-tables': ('mesonbuild/build.py',
                                                         "        for k, v in self.__dict__.items():\n            other.__dict__[k] = copy.copy(v)\n        return other\n\n    def copy_for_build_machine",
                                                         "        shared = {'find_overrides', 'searched_programs', 'dependency_overrides'}\n        for k, v in self.__dict__.items():\n            other.__dict__[k] = v if k in shared else copy.copy(v)\n        return other\n\n    def copy_for_build_machine"),
    'M45-dependency-cache-key-ignores-search-path-order': ('mesonbuild/coredata.py',
                                                           "        return tuple(data[type_])\n", "        return tuple(sorted(set(data[type_])))\n"),
    'M46-unknown-version-meets-upper-bounds-on-detection': ('mesonbuild/dependencies/base.py',
                                                           "            # an unknown version can never satisfy any requirement\n            if not self.version:\n",
                                                           "            # an unknown version can never satisfy any requirement\n            if self.version is None:\n"),
    'M47-not_found_message-part-of-dependency-identity': ('mesonbuild/dependencies/detect.py',
                                                          "'default_options',\n                   'not_found_message', 'include_type'}:", "'default_options',\n                   'include_type'}:"),
    'M48-missing-fallback-variable-raises-wider-exception': ('mesonbuild/interpreter/interpreterobjects.py',
                                                            "                ustr += f' Did you mean \"{close_matches[0]}\"?'\n            raise InvalidArguments(ustr)",
                                                            "                ustr += f' Did you mean \"{close_matches[0]}\"?'\n            raise InterpreterException(ustr)"),
    'M49-declare_dependency-default-version-from-top-project': ('mesonbuild/interpreter/interpreter.py',
                                                               "        if version is None:\n            version = self.project_version\n",
                                                               "        if version is None:\n            version = self.build.project_version\n"),
    'M50-subproject-wraps-loaded-from-main-subproject_dir-name': ('mesonbuild/interpreter/interpreter.py',
                                                                 "        subprojects_dir = os.path.join(self.subdir, spdirname)\n",
                                                                 "        subprojects_dir = os.path.join(self.subdir, self.subproject_dir)\n"),
}


def run(name: str, tier: str) -> None:
    path, old, new = MUTANTS[name]
    wt = f'/tmp/wt-C10-{name.split("-")[0]}'
    subprocess.run(['git', '-C', '/repo', 'worktree', 'remove', '--force', wt], capture_output=True)
    subprocess.run(['git', '-C', '/repo', 'worktree', 'add', '--detach', wt], check=True, capture_output=True)
    try:
        fp = os.path.join(wt, path)
        s = open(fp).read()
        assert s.count(old) == 1, (name, s.count(old))
        open(fp, 'w').write(s.replace(old, new))
        t = time.time()
        env = dict(os.environ, VERIF_REPO=wt, VERIF_JOBS=os.environ.get('VERIF_JOBS', '4'))
        p = subprocess.run(['/verif/check', 'C10', '--tier', tier], env=env, capture_output=True, text=True)
        mechs = sorted({l.split('mechanism=')[1].split(' ')[0] for l in p.stdout.splitlines() if 'mechanism=' in l})
        incon = [l for l in p.stdout.splitlines() if l.startswith('INCONCLUSIVE')]
        tp = subprocess.run(['/venv/bin/python', '-m', 'pytest', '-q', '-p', 'no:cacheprovider', '-x',
                             'unittests/cargotests.py', 'unittests/optiontests.py', 'unittests/taptests.py',
                             'unittests/versiontests.py'], cwd=wt, capture_output=True, text=True)
        print(f'{name}: exit={p.returncode} wall={time.time() - t:.0f}s pinned_tests={"pass" if tp.returncode == 0 else "FAIL"}')
        for m in mechs[:8]:
            print('     ', m)
        for l in incon:
            print('     ', l[:300])
        if p.returncode not in (0, 1, 3):
            print(p.stdout[-1500:], p.stderr[-1500:])
    finally:
        subprocess.run(['git', '-C', '/repo', 'worktree', 'remove', '--force', wt], capture_output=True)


if __name__ == '__main__':
    which = sys.argv[1]
    tier = sys.argv[2] if len(sys.argv) > 2 else 'quick'
    for n in (list(MUTANTS) if which == 'all' else [k for k in MUTANTS if k.startswith(which)]):
        run(n, tier)
