"""C01 -- build definitions evaluate exactly as the language reference prescribes.

Workload: generated core-language projects (vf.gen.gen_lang) run through the REAL `meson setup --backend=none`
in a forked child with three monitors injected (vf.monitors.c01_monitors): alias monitor, AST-shape
post-condition on mparser.Parser.parse, coverage counters.  Oracle: vf.ref.refmeson (independent interpreter
written from the documents).  Compared: `Message:` lines, in-language assert(x == <literal>), exit status,
file and line of the reported failure.  Cells the documents leave open (RefUnspecified) are checked for
consistency only (no internal error, messages before that point).
"""
from __future__ import annotations

import collections
import json
import os
import random
import re
import shutil
import sys
import tempfile
import time
import typing as T

from vf import common, runner
from vf.ref import refmeson as R
from vf.gen import gen_lang as G
from vf.monitors import c01_monitors as M

ENV = {'MESON_FORCE_BACKTRACE': ''}     # ordinary errors -> exit 1 + "ERROR:" line; internal errors -> traceback

# ------------------------------------------------------------------------------------------------------
# observation of one real run

_NOISE = re.compile(
    r'^(?:\S+\| )?(?:'
    r'The Meson build system$|Version: |Source dir: |Build dir: |Build type: |Project name: |Project version: |'
    r'Host machine cpu(?: family)?: |Build machine cpu(?: family)?: |Target machine cpu(?: family)?: |'
    r'Build targets in project: |Subproject \S+ finished\.$|Executing subproject |Found ninja|'
    r'(?:\S+:\d+(?::\d+)?: )?(?:WARNING|DEPRECATION|NOTICE): |\s*\* \d+\.\d+(?:\.\d+)?: \{|Message: BEGIN$'
    r')')
_ONLY_PREFIX = re.compile(r'^\S+\|\s*$')     # an empty continuation line of a subproject message
_ERROR = re.compile(r'^(?:\S+\| )?(?:(.+?):(\d+):(\d+): )?ERROR: ')


_SP_LINE = re.compile(r'^(\S+\|) (.*)$', re.S)


def norm_line(l: str) -> str:
    """Trailing blanks are not compared, nor blanks at the start of a subproject's line: the nested logger that
    prefixes subproject output with 'name| ' strips them (the in-language asserts compare the values exactly)."""
    m = _SP_LINE.match(l)
    if m and not m.group(2).startswith('Message:'):
        return m.group(1) + ' ' + m.group(2).strip()
    return l.rstrip()


class Observed(T.NamedTuple):
    rc: int
    lines: T.List[str]           # message lines (noise and blank lines removed), up to END / the error
    ended: bool                  # 'Message: END' was printed
    err_file: T.Optional[str]
    err_line: T.Optional[int]
    err_text: str
    internal: str                # '' or name of the exception that escaped
    timed_out: bool
    records: T.List[dict]


def run_real(files: T.Mapping[str, str], monitors: bool = True, mon_opts: T.Optional[dict] = None) -> Observed:
    d = tempfile.mkdtemp(prefix='c01-')
    try:
        runner.write_tree(d, files)
        mons = [lambda rec: M.install(rec, mon_opts)] if monitors else []
        r = runner.meson(['setup', '--backend=none', os.path.join(d, 'b')], cwd=d, env=ENV, monitors=mons, timeout=45)
    finally:
        shutil.rmtree(d, ignore_errors=True)
    lines: T.List[str] = []
    ended = False
    err_file = err_line = None
    err_text = ''
    raw = r.out.split('\n')
    # the last ERROR line is the verdict of the run; messages end at the first one
    err_idx = first_err = None
    for i, l in enumerate(raw):
        if _ERROR.match(l):
            err_idx = i
            if first_err is None:
                first_err = i
    for i, l in enumerate(raw):
        if first_err is not None and i >= first_err:
            break
        if l == 'Message: END':
            ended = True
            break
        if not l.strip() or _NOISE.match(l) or _ONLY_PREFIX.match(l):
            continue
        lines.append(norm_line(l))
    if err_idx is not None:
        m = _ERROR.match(raw[err_idx])
        assert m
        if m.group(1):
            f = m.group(1)
            err_file = os.path.relpath(f, d) if os.path.isabs(f) else f
            err_line = int(m.group(2))
        err_text = raw[err_idx][:300]
    internal = ''
    if r.traceback or r.rc not in (0, 1):
        tb = (r.err + '\n' + r.out)
        m2 = re.findall(r'^([A-Za-z_][\w.]*(?:Error|Exception|Request|Interrupt|Exit)\w*)\b', tb, re.M)
        internal = m2[-1] if m2 else f'rc={r.rc}'
    return Observed(r.rc, lines, ended, err_file, err_line, err_text, internal, r.timed_out, r.records)


# ------------------------------------------------------------------------------------------------------
# known deviations of the real interpreter, modelled narrowly so that a mismatch can be *explained*
# (classifier output = mechanism key).  These are NOT part of the oracle.

class Deviant(R.Evaluator):
    """The reference with exactly one documented-behaviour deviation switched on."""

    def __init__(self, files: T.Mapping[str, str], deviation: str, env: T.Optional[T.Mapping[str, T.Any]] = None) -> None:
        super().__init__(files, env=env)
        self.deviation = deviation
        self.sites: T.List[str] = []

    def site(self, s: str) -> None:
        if s not in self.sites:
            self.sites.append(s)

    # -- bool is accepted where an int operand/argument is required, with Python's True == 1
    def _plus(self, l: T.Any, r: T.Any, plusassign: bool = False) -> T.Any:
        if self.deviation == 'bool-int-conflation' and type(l) is int and type(r) is bool:
            self.site('arith')
            return l + int(r)
        return super()._plus(l, r, plusassign)

    def _arith(self, op: str, l: T.Any, r: T.Any) -> T.Any:
        if self.deviation == 'bool-int-conflation' and op != '+' and type(l) is int and type(r) is bool:
            self.site('arith')
            return super()._arith(op, l, int(r))
        return super()._arith(op, l, r)

    @staticmethod
    def _pyeq_differs(a: T.Any, b: T.Any) -> bool:
        try:
            return bool(a == b) != R.strict_eq(a, b)
        except Exception:
            return False

    def _compare(self, op: str, l: T.Any, r: T.Any) -> bool:
        if self.deviation == 'bool-int-conflation':
            tl, tr = type(l), type(r)
            if tl is int and tr is bool:
                if op in ('==', '!='):
                    self.site('equality')
                    return (l == r) if op == '==' else (l != r)
                if op in ('<', '<=', '>', '>='):
                    self.site('compare')
                    return super()._compare(op, l, int(r))
            if op in ('==', '!=') and tl is tr and tl in (list, dict) and self._pyeq_differs(l, r):
                self.site('container')
                return (l == r) if op == '==' else (l != r)
            if op in ('in', 'notin') and tr is list:
                py = l in r
                if py != any(R.strict_eq(l, x) for x in r):
                    self.site('container')
                    return py if op == 'in' else not py
        if self.deviation == 'dict-in-nonstr-key' and op in ('in', 'notin') and type(r) is dict and type(l) is not str:
            self.site('error')
            raise R.RefRuntimeError('in: dict accepts only str')
        return super()._compare(op, l, r)

    def _index(self, o: T.Any, i: T.Any) -> T.Any:
        if self.deviation == 'bool-int-conflation' and type(i) is bool and type(o) in (list, str, R.RefRange):
            self.site('index')
            return super()._index(o, int(i))
        return super()._index(o, i)

    def _sig(self, what: str, pos: T.List[T.Any], kw: T.Dict[str, T.Any], types: T.Sequence[T.Any], opt: int = 0,  # type: ignore[override]
             kwtypes: T.Optional[T.Dict[str, type]] = None) -> None:
        if self.deviation == 'bool-int-conflation':
            for i, (v, t) in enumerate(zip(pos, types)):
                if t is int and type(v) is bool:
                    self.site('method-arg')
                    pos[i] = int(v)
            for k, v in list(kw.items()):
                if kwtypes and kwtypes.get(k) is int and type(v) is bool:
                    self.site('method-arg')
                    kw[k] = int(v)
        if self.deviation == 'bool-to-string-empty' and what == 'to_string()' and types == [str, str] and len(pos) == 2:
            if pos[0] == '':
                self.site('true')
                pos[0] = 'true'
            if pos[1] == '':
                self.site('false')
                pos[1] = 'false'
        return R.Evaluator._sig(what, pos, kw, types, opt, kwtypes)

    def _m_array_contains(self, v: list, pos: T.List[T.Any], kw: T.Dict[str, T.Any]) -> T.Any:
        if self.deviation == 'bool-int-conflation' and len(pos) == 1 and not kw:
            item = pos[0]

            def deep(l: list, eq: T.Callable[[T.Any, T.Any], bool]) -> bool:
                return any(eq(x, item) or (type(x) is list and deep(x, eq)) for x in l)
            strict = deep(v, R.strict_eq)
            py = deep(v, lambda a, b: bool(a == b))
            if py != strict:
                self.site('container')
                return py
        return super()._m_array_contains(v, pos, kw)


DEVIATIONS = ['bool-int-conflation', 'dict-in-nonstr-key', 'bool-to-string-empty']


def deviation_free(files: T.Mapping[str, str], env: T.Optional[T.Mapping[str, T.Any]] = None) -> bool:
    """True when no known deviation can influence this program: such programs may be batched / used as valid
    workload.  A program that touches a known-deviation cell stops at its first wrong assert and would hide
    everything after it, so those cells run alone (matrix) or are regenerated (random valid programs)."""
    for dev in DEVIATIONS:
        ev = Deviant(files, dev, env=dict(env) if env else None)
        ev.max_steps = 50000
        ev.run()
        if ev.sites:
            return False
    return True


# ------------------------------------------------------------------------------------------------------
# comparison

def expected_lines(out: R.Outcome) -> T.List[str]:
    # the runner reads the child's stdout in text mode: a lone \r arrives as \n (the in-language asserts still
    # compare such strings exactly)
    lines: T.List[str] = []
    for l in out.message_lines():
        lines += l.replace('\r\n', '\n').replace('\r', '\n').split('\n')
    # trailing blanks are not compared: the nested logger used for subprojects strips them
    return [norm_line(l) for l in lines if l.strip() and l != 'Message: BEGIN' and l != 'Message: END'
            and not _ONLY_PREFIX.match(l)]


def alt_runtime_lines(files: T.Mapping[str, str], err: R.RefError) -> T.Optional[T.List[str]]:
    """For a failure the reference finds while *parsing*: the messages printed if the real implementation only
    notices at evaluation time (the documents do not say when an error is detected): the same program with the
    offending file cut before the faulty line.  None when that prefix is not a program."""
    if err.file not in files or not err.line:
        return None
    text = files[err.file].split('\n')
    for cut in range(err.line - 1, max(err.line - 6, 0), -1):
        f2 = dict(files)
        f2[err.file] = '\n'.join(text[:cut]) + '\n__cut_here__()\n'
        o = R.Evaluator(f2).run()
        if o.error is not None and o.error.cls == 'runtime' and 'unknown function __cut_here__' in o.error.msg:
            return expected_lines(o)
    return None


def compare(files: T.Mapping[str, str], ref: R.Outcome, obs: Observed) -> T.List[str]:
    """List of discrepancies between what the documents prescribe and what was observed (empty = conforms)."""
    out: T.List[str] = []
    if obs.timed_out:
        return ['timeout']
    if obs.internal:
        out.append('internal-error:' + obs.internal)
    exp = expected_lines(ref)
    e = ref.error
    if e is None:
        if obs.rc != 0 or obs.err_text:
            out.append('unexpected-failure')
        if obs.lines != exp:
            out.append('messages-differ')
        if obs.rc == 0 and not obs.ended:
            out.append('no-END')
        return out
    if e.cls == 'unspecified':
        if obs.lines[:len(exp)] != exp:
            out.append('messages-before-open-cell-differ')
        return out
    # a prescribed failure
    if obs.rc == 0:
        out.append('missing-failure')
        return out
    if obs.internal:
        return out
    # an unterminated string / missing endif: the documents do not say where the text stops being a program
    eof_like = e.cls == 'syntax' and ('end of file' in e.msg or 'unterminated' in e.msg)
    ok_msgs = obs.lines == exp or eof_like
    if not ok_msgs and e.cls == 'syntax':
        alt = alt_runtime_lines(files, e)
        if alt is not None and obs.lines == alt:
            ok_msgs = True
        elif alt is None and obs.lines[:len(exp)] == exp:
            ok_msgs = True
    if not ok_msgs:
        out.append('messages-before-failure-differ')
    if obs.err_file is not None and not eof_like:
        frames = e.frames or [(e.file, e.line, e.end_line)]
        of = os.path.normpath(obs.err_file)
        same_file = [fr for fr in frames if os.path.normpath(fr[0]) == of]
        if not same_file:
            out.append('failure-in-other-file')
        elif obs.err_line is not None and not any(lo <= obs.err_line <= hi for _, lo, hi in same_file):
            out.append('failure-at-other-line')
    return out


def classify(files: T.Mapping[str, str], ref: R.Outcome, obs: Observed, problems: T.List[str]) -> str:
    """Mechanism key: WHY the run deviates.  A known deviation is named only when switching exactly that
    deviation on in the reference reproduces the whole observation."""
    if any(p.startswith('internal-error:') for p in problems):
        exc = [p for p in problems if p.startswith('internal-error:')][0].split(':', 1)[1]
        e = ref.error
        if exc.endswith(('BreakRequest', 'ContinueRequest')) and e is not None and 'outside of a foreach loop' in e.msg:
            return 'jump-outside-loop:raw-exception'
        if e is not None and e.file in files and e.line:
            stmt = '\n'.join(files[e.file].split('\n')[e.line - 1:e.end_line])
            if exc.endswith('TypeError') and 'index must be an integer' in e.msg and 'range(' in stmt:
                return 'range-index-nonint:internal-error'
            if exc.endswith('ValueError') and 'keyword fill has the wrong type bool' in e.msg:
                return 'int-to-string-fill-bool:internal-error'
        return 'internal-error:' + exc.rsplit('.', 1)[-1]
    e = ref.error
    if problems == ['failure-at-other-line'] and e is not None and e.cls == 'runtime' and e.file in files:
        stmt = '\n'.join(files[e.file].split('\n')[e.line - 1:e.end_line])
        if 'subdir(' in stmt and 'void' in e.msg:
            return 'error-line:stale-node-after-subdir'
    if 'missing-failure' in problems and e is not None and e.cls == 'syntax' and 'end of line after the iterable' in e.msg:
        return 'foreach-header-trailing-tokens:accepted'
    if problems == ['missing-failure'] and e is not None and e.cls == 'syntax':
        if e.msg.startswith('expected an expression'):
            return 'missing-operand:accepted-when-unevaluated'
        if e.msg.startswith('expected end of line, got') and any(k in e.msg for k in ("'endif'", "'endforeach'", "'else'", "'elif'")):
            return 'block-keyword-on-statement-line:accepted'
    for dev in DEVIATIONS:
        ev = Deviant(files, dev)
        o = ev.run()
        if ev.sites and not compare(files, o, obs):
            return f'{dev}:{ev.sites[0]}'
    return '+'.join(sorted(problems))


# ------------------------------------------------------------------------------------------------------
# one case = one project

def monitor_findings(files: T.Mapping[str, str], ref: R.Outcome, obs: Observed) -> T.Tuple[T.List[T.Tuple[str, dict]], T.Dict[str, int]]:
    viol: T.List[T.Tuple[str, dict]] = []
    counts: T.Dict[str, int] = collections.Counter()
    for rec in obs.records:
        ev = rec.get('ev')
        if ev == 'counters':
            for k, v in rec['c'].items():
                counts[k] += v
        elif ev == 'ast-shape':
            if rec.get('ref') is None:
                counts['mon:ast-shape:ref-rejects-real-parses'] += 1   # decided by the outcome comparison
            else:
                a, b = rec['real'], rec['ref']
                i = next((k for k in range(min(len(a), len(b))) if a[k] != b[k]), min(len(a), len(b)))
                viol.append(('ast-shape:tree-differs', {'real': a[max(0, i - 120):i + 120], 'ref': b[max(0, i - 120):i + 120],
                                                        'file': rec.get('file', '')}))
        elif ev == 'alias':
            viol.append(('alias:value-changed-without-assignment', {k: rec[k] for k in rec if k != 'ev'}))
        elif ev == 'monitor-error':
            counts['mon:error:' + rec.get('where', '?')] += 1
    return viol, counts


def statement_spans(text: str) -> T.List[T.Tuple[int, int]]:
    try:
        tree = R.parse(text)
    except R.RefError:
        return []
    return [(s.line, s.end_line) for s in tree.a[0]]


def minimise(files: T.Dict[str, str], mechanism: str, budget: int = 16) -> T.Dict[str, str]:
    """Greedy statement-level reduction of the main file while the same mechanism is still classified."""
    main = files['meson.build']
    spans = statement_spans(main)
    if len(spans) <= 3:
        return files
    lines = main.split('\n')
    keep = list(range(len(spans)))
    runs = 0

    def build(sel: T.List[int]) -> T.Dict[str, str]:
        out: T.List[str] = []
        for i in sel:
            a, b = spans[i]
            out += lines[a - 1:b]
        f2 = dict(files)
        f2['meson.build'] = '\n'.join(out) + '\n'
        return f2

    def still(sel: T.List[int]) -> bool:
        nonlocal runs
        runs += 1
        f2 = build(sel)
        ref = R.Evaluator(f2).run()
        obs = run_real(f2, monitors=False)
        probs = compare(f2, ref, obs)
        return bool(probs) and classify(f2, ref, obs, probs) == mechanism
    chunk = max(1, len(keep) // 2)
    while chunk >= 1 and runs < budget:
        i = 1     # never drop project()
        changed = False
        while i < len(keep) and runs < budget:
            cand = keep[:i] + keep[i + chunk:]
            if len(cand) >= 1 and still(cand):
                keep = cand
                changed = True
            else:
                i += chunk
        if not changed:
            chunk //= 2
    return build(keep)


def shape_sweep(seed: int, n: int) -> dict:
    """AST-shape contract in-process on type-agnostic operator soups: where the reference grammar accepts the text,
    the real parser must accept it and build the same tree (after the documented normalisation)."""
    common.use_repo()
    from mesonbuild import mparser
    from mesonbuild.mesonlib import MesonException
    rng = random.Random(seed)
    res: dict = {'kind': 'shape', 'violations': [], 'counts': collections.Counter(), 'cover': {}, 'checked': 0,
                 'key': f'shape:{seed}', 'sample': None, 'label': f'shape:{seed}'}
    c = res['counts']
    for i in range(n):
        text = G.shape_statement(rng, rng.choice([2, 3, 4, 4, 5]))
        try:
            ref: T.Optional[str] = R.sexpr(R.parse(text))
        except R.RefSyntaxError:
            ref = None
        except R.RefUnspecified:
            continue
        try:
            real: T.Optional[str] = M.real_sexpr(mparser.Parser(text, 'shape').parse())
            rerr = ''
        except MesonException as e:
            real, rerr = None, type(e).__name__
        except Exception as e:      # anything else escaping the parser is an internal error
            res['violations'].append(('internal-error:parser:' + type(e).__name__, {'text': text, 'files': {'meson.build': G.PROJECT_LINE + '\n' + text}}))
            continue
        c['mon:ast-shape:sweep'] += 1
        if ref is None:
            c['shape:ref-rejects' + (':real-too' if real is None else ':real-parses')] += 1
            continue
        res['checked'] += 1
        if real is None:
            res['violations'].append(('ast-shape:real-rejects-documented-text', {'text': text, 'error': rerr, 'ref': ref[:600],
                                                                                 'files': {'meson.build': G.PROJECT_LINE + '\n' + text}}))
        elif real != ref:
            k = next((j for j in range(min(len(real), len(ref))) if real[j] != ref[j]), 0)
            res['violations'].append(('ast-shape:tree-differs', {'text': text, 'real': real[max(0, k - 100):k + 100], 'ref': ref[max(0, k - 100):k + 100],
                                                                 'files': {'meson.build': G.PROJECT_LINE + '\n' + text}}))
        if len(res['violations']) >= 5:
            break
    if seed % 16 == 0:
        res['sample'] = {'label': res['label'], 'last_text': text}
    res['counts'] = dict(c)
    res['wall'] = 0.0
    return res


def run_case(item: T.Tuple[str, T.Any]) -> dict:
    """Worker: build the program for this item, predict with the reference, run the real meson, compare."""
    kind, spec = item
    try:        # a runaway generator/reference must die with MemoryError (-> inconclusive), not eat the machine
        import resource
        if resource.getrlimit(resource.RLIMIT_AS)[0] in (resource.RLIM_INFINITY, -1):
            resource.setrlimit(resource.RLIMIT_AS, (8 << 30, 8 << 30))
    except Exception:
        pass
    if kind == 'shape':
        return shape_sweep(*spec)
    t0 = time.time()
    res: dict = {'kind': kind, 'violations': [], 'counts': collections.Counter(), 'cover': collections.Counter(),
                 'checked': 0, 'key': None, 'sample': None, 'known_sites': []}
    try:
        if kind == 'valid':
            seed, depth, chunks = spec
            rng = random.Random(seed)
            pg = G.ProgramGen(rng, depth)
            pg.extra_check = deviation_free
            prog = pg.program(chunks, multi_file=True, label=f'valid:{seed}')
        elif kind == 'faulty':
            seed, op, variant = spec
            prog = G.faulty_program(random.Random(seed), op, variant)
        else:   # 'literal': files given (matrix batches, probes, replay)
            prog = G.Program(dict(spec['files']), spec.get('pkind', 'literal'), 0, spec.get('fault'), spec.get('label', ''))
            if spec.get('pkind') == 'probe':
                res['expect'] = (spec.get('fault') or {}).get('expect_mechanism', '')
        files = dict(prog.files)
        ref = R.Evaluator(files).run()
        obs = run_real(files)
        problems = compare(files, ref, obs)
        mviol, mcounts = monitor_findings(files, ref, obs)
        res['counts'].update(mcounts)
        res['cover'].update(ref.cover)
        # compared facts: every in-language assert, every message line, and the verdict (ok / fails at file:line)
        res['checked'] = sum(v.count('assert(') for v in files.values()) + len(expected_lines(ref)) + 1
        e = ref.error
        res['counts']['ref:' + ('ok' if e is None else e.cls)] += 1
        res['counts']['obs:' + ('ok' if obs.rc == 0 else 'internal' if obs.internal else 'error')] += 1
        if e is not None and e.cls == 'syntax' and obs.rc != 0 and obs.lines != expected_lines(ref):
            res['counts']['note:ref-syntax-real-runtime'] += 1
        if obs.timed_out:
            res['counts']['inconclusive:timeout'] += 1
        res['key'] = common.digest({'k': kind, 'f': files})
        res['label'] = prog.label
        if kind != 'valid' or spec[0] % 25 == 0:
            res['sample'] = {'label': prog.label, 'ref': ref.brief()['error'], 'messages': len(ref.messages),
                             'main_head': files['meson.build'][:400]}
        if problems and not obs.timed_out:
            mech = classify(files, ref, obs, problems)
            wfiles = files
            if kind == 'valid' and not mech.startswith(tuple(DEVIATIONS)):
                try:
                    wfiles = minimise(files, mech)
                except Exception:
                    wfiles = files
            res['violations'].append((mech, {
                'label': prog.label, 'files': wfiles, 'problems': problems, 'fault': prog.fault,
                'expected': {'error': ref.brief()['error'], 'lines_tail': expected_lines(ref)[-6:]},
                'observed': {'rc': obs.rc, 'lines_tail': obs.lines[-6:], 'error': obs.err_text, 'err_file': obs.err_file,
                             'err_line': obs.err_line, 'internal': obs.internal}}))
        for mech, w in mviol:
            w = dict(w)
            w['label'] = prog.label
            w['files'] = files
            res['violations'].append((mech, w))
    except Exception as ex:     # a crash of the harness itself is inconclusive for that case
        import traceback
        res['counts']['inconclusive:harness-error'] += 1
        res['harness_error'] = traceback.format_exc()[-1500:]
    res['wall'] = time.time() - t0
    res['counts'] = dict(res['counts'])
    res['cover'] = dict(res['cover'])
    return res


# ------------------------------------------------------------------------------------------------------
# directed probes (re-observed on every run)

PROBES: T.List[T.Tuple] = [
    # bool/int conflation (known finding): each must be classified with its own site, or conform once repaired
    ('bool-int-conflation:arith', "x = 1 + true\nmessage(x)"),
    ('bool-int-conflation:arith', "x = 7 * false\nmessage(x)"),
    ('bool-int-conflation:equality', "x = 1 == true\nmessage(x)"),
    ('bool-int-conflation:compare', "x = 0 < true\nmessage(x)"),
    ('bool-int-conflation:container', "x = [1] == [true]\nmessage(x)"),
    ('bool-int-conflation:container', "x = 1 in [true]\nmessage(x)"),
    ('bool-int-conflation:container', "x = [0, 2].contains(false)\nmessage(x)"),
    ('bool-int-conflation:container', "x = {'a': 1} != {'a': true}\nmessage(x)"),
    ('bool-int-conflation:index', "x = [1, 2, 3][true]\nmessage(x)"),
    ('bool-int-conflation:method-arg', "x = 'abc'.substring(true)\nmessage(x)"),
    # (once the crash is repaired the bool is simply taken as 1: the method-arg conflation)
    ('int-to-string-fill-bool:internal-error|bool-int-conflation:method-arg', "x = 5.to_string(fill: true)\nmessage(x)"),
    ('range-index-nonint:internal-error', "x = range(3)['a']"),
    ('error-line:stale-node-after-subdir', "x = subdir('d')"),
    ('bool-int-conflation:method-arg', "x = [1, 2].get(true)\nmessage(x)"),
    ('dict-in-nonstr-key:error', "d = {'foo': 42}\nx = 42 in d\nmessage(x)"),
    ('dict-in-nonstr-key:error', "x = [] not in {}\nmessage(x)"),
    ('bool-to-string-empty:true', "x = true.to_string('', 'no')\nmessage('[' + x + ']')"),
    ('bool-to-string-empty:false', "x = false.to_string('yes', '')\nmessage('[' + x + ']')"),
    ('foreach-header-trailing-tokens:accepted', "foreach q : [1, 2] message('in header', q)\nendforeach"),
    ('foreach-header-trailing-tokens:accepted', "foreach q : [] nope\nendforeach"),
    ('missing-operand:accepted-when-unevaluated', "x = true ? 1 :\nmessage(x)"),
    ('missing-operand:accepted-when-unevaluated', "if false\n  x = 1 +\nendif"),
    ('block-keyword-on-statement-line:accepted', "if true\n  x = 1 endif\nmessage(x)"),
    # .format() / f-strings substitute in ONE pass: text coming from an argument or a variable is never re-scanned
    ('', "message('@0@ then @1@'.format('@1@', 'x'), '@1@ @0@ @1@'.format('@0@', '@1@'), '@0@@0@'.format('@0@'))"),
    ('', "message('@1@'.format('a', '@0@'), '@01@ @00@'.format('a', 'b'), '@0@'.format(['@0@', '@1@'], 'z'))"),
    ('', "fa = '@fb@'\nfb = 'x @fa@ @0@'\nmessage(f'@fa@ and @fb@', f'@fb@@fa@'.format('y'))"),
    # a stored iterable value has no iteration state: second walk, nested walk of the same value, walk after break
    ('', "r = range(4)\nq = r\na = []\nforeach i : r\n  if i == 2\n    break\n  endif\n  a += [i]\nendforeach\nforeach i : q\n  a += [i]\nendforeach\n"
         "foreach i : r\n  foreach j : get_variable('r')\n    a += [[i, j]]\n  endforeach\nendforeach\nmessage(a, r[1], q[-1])"),
    ('', "l = [1, 2]\nd = {'a': 1, 'b': 2}\na = []\nforeach i : l\n  foreach j : l\n    a += [i * j]\n  endforeach\nendforeach\n"
         "foreach k, v : d\n  break\nendforeach\nforeach k, v : d\n  a += [k]\nendforeach\nmessage(a)"),
    # a fallback that is the empty value of its type is still a fallback (and is ignored when the variable exists)
    ('', "sp = subproject('s')\nmessage(sp.get_variable('nope', 0), sp.get_variable('nope', false), sp.get_variable('nope', ''), "
         "sp.get_variable('nope', []), sp.get_variable('nope', {}), sp.get_variable('zero', 5), sp.get_variable('empty', [1]), sp.get_variable('zero'))",
     {'subprojects/s/meson.build': "project('s')\nzero = 0\nempty = []\n"}),
    ('', "message(get_variable('nope', 0), get_variable('nope', false), get_variable('nope', ''), get_variable('nope', []), get_variable('nope', {}), "
         "[].get(0, 0), [].get(3, false), [1].get(-2, ''), [].get(0, []), {}.get('k', 0), {}.get('k', false), {}.get('k', ''), {}.get('k', {}), "
         "{'k': 0}.get('k', 1), [0].get(0, 1))"),
    ('jump-outside-loop:raw-exception', "break"),
    ('jump-outside-loop:raw-exception', "if true\n  continue\nendif"),
    # behaviour the documents fix and the unchanged tree gets right (sanity of the pipeline)
    ('', "message(true == (1 == 1), 'a' + 'b', -7 / 2, -7 % 3, 7 % -3)"),
    ('', "x = true == 1"),          # bool on the left is rejected
    ('', "x = true + 1"),
    ('', "x = [1, 2, 3]\ny = x\ny += [4]\nmessage(x, y)\nassert(x == [1, 2, 3])"),
    ('', "x = false and (1 / 0 == 0)\ny = true or (1 / 0 == 0)\nmessage(x, y)"),
    ('', "message('a\\tb', '''a\\tb''', '\\x41\\101', '\\q')"),
    ('', "d = {'b': 1, 'a': 2, 'C': 3}\nmessage(d.keys(), d)\nforeach k, v : d\n  message(k, v)\nendforeach"),
    ('', "message([1, 2, 3][-1], 'abc'[-3], range(2, 9, 3)[-1])"),
    ('', "x = 1 < 2 < 3"),
    ('', "x = true ? 1 : false ? 2 : 3"),
    ('', "x = - - 1"),
]


def probe_items() -> T.List[T.Tuple[str, T.Any]]:
    items = []
    for i, probe in enumerate(PROBES):
        mech, body = probe[0], probe[1]
        text = G.PROJECT_LINE + "\nmessage('BEGIN')\n" + body + "\nmessage('AFTER')\nmessage('END')\n"
        pfiles = {'meson.build': text}
        if len(probe) > 2:
            pfiles.update(probe[2])
        if "subdir('d')" in body:
            pfiles['d/meson.build'] = "z = 1\n"
        items.append(('literal', {'files': pfiles, 'pkind': 'probe', 'label': f'probe{i}:{mech or "conforms"}:{body[:40]}',
                                  'fault': {'expect_mechanism': mech}}))
    return items


def matrix_items(rng: random.Random, per_cell: int) -> T.List[T.Tuple[str, T.Any]]:
    """Operator x type x type / method / probe cells: valid ones batched 40 per project, prescribed failures
    and open cells one per project."""
    cells = G.matrix_cells(rng, per_cell)
    valid: T.List[T.Tuple[str, str]] = []
    items: T.List[T.Tuple[str, T.Any]] = []
    head = G.PROJECT_LINE + "\nmessage('BEGIN')\n"
    for label, expr in cells:
        if label.startswith('pluseq:'):
            l, r = expr.split('|')
            stmts = f't = {l}\nt += {r}\n'
            name = 't'
        else:
            stmts = f't = {expr}\n'
            name = 't'
        o = R.Evaluator({'meson.build': "project('x')\n" + stmts}).run()
        single = {'meson.build': "project('x')\n" + stmts}
        if o.ok and R.tname(o.variables.get(name)) in G.TYPES and deviation_free(single):
            valid.append((label, stmts))
        else:
            text = head + stmts + f"message('t', t)\nmessage('AFTER')\nmessage('END')\n"
            items.append(('literal', {'files': {'meson.build': text}, 'pkind': 'cell', 'label': 'cell:' + label}))
    for i in range(0, len(valid), 40):
        text = head
        for j, (label, stmts) in enumerate(valid[i:i + 40]):
            nm = f'm{j}'
            text += stmts.replace('t = ', nm + ' = ', 1).replace('t += ', nm + ' += ') + f"message('{nm}', {nm})\n##ASSERT {nm}\n"
        text += "message('END')\n"
        files = G.finalize({'meson.build': text})
        items.append(('literal', {'files': files, 'pkind': 'cells', 'label': f'cells:{i}..{i + 40}'}))
    return items


# ------------------------------------------------------------------------------------------------------

def replay(chk: common.Check, path: str) -> int:
    with open(path, encoding='utf-8') as f:
        w = json.load(f)
    files = w.get('files')
    if not files:
        print('witness has no files')
        return 2
    runner.preload()
    ref = R.Evaluator(files).run()
    obs = run_real(files)
    problems = compare(files, ref, obs)
    mviol, _ = monitor_findings(files, ref, obs)
    print('reference:', ref.brief()['error'], 'messages', len(ref.messages))
    print('observed : rc', obs.rc, obs.err_text, 'internal', obs.internal or '-')
    if problems:
        print('STILL FAILS:', classify(files, ref, obs, problems), problems)
    for mech, ww in mviol:
        print('STILL FAILS (monitor):', mech, json.dumps({k: v for k, v in ww.items() if k != 'files'})[:400])
    if not problems and not mviol:
        print('no longer fails')
        return 0
    return 1


def main() -> int:
    chk = common.Check('C01')
    if os.environ.get('VERIF_REPLAY'):
        return replay(chk, os.environ['VERIF_REPLAY'])
    runner.preload()
    thorough = chk.tier == 'thorough'
    n_valid = 2500 if thorough else 250
    n_wrongtype = 1500 if thorough else 40      # (the cell matrix already visits every operator x type x type cell)
    per_cell = 20 if thorough else 1
    budget_s = 15 * 60 if thorough else 150

    rng = chk.rng
    items: T.List[T.Tuple[str, T.Any]] = []
    items += probe_items()
    base = chk.seed * 1_000_003
    for i in range(n_valid):
        depth = 3 if not thorough else (3 + (i % 4 == 0) + (i % 16 == 0) * 2)     # 3, 4, 6
        items.append(('valid', (base + i, depth, 14 if depth <= 4 else 10)))
    cat = G.fault_catalog()
    reps = 4 if thorough else 1
    for rep in range(reps):
        for j, (op, variant) in enumerate(cat):
            items.append(('faulty', (base + 500_000 + rep * 10_000 + j, op, variant)))
    for j in range(n_wrongtype):
        items.append(('faulty', (base + 700_000 + j, 'wrong-type', j)))
    items += matrix_items(rng, per_cell)
    for j in range(400 if thorough else 40):
        items.append(('shape', (base + 900_000 + j, 250)))
    # argument passing with aliased variables: the alias monitor decides (the call itself may be an open cell)
    for label, text in G.argpass_cases(rng, 12 if thorough else 4):
        items.append(('literal', {'files': {'meson.build': text}, 'pkind': 'argpass', 'label': label}))
    # probes first, everything else interleaved so that a time-budget cut loses every class proportionally
    n_probe = len(PROBES)
    rest = items[n_probe:]
    random.Random(chk.seed).shuffle(rest)
    items = items[:n_probe] + rest

    # run in slices so that the time budget is honoured
    t0 = time.time()
    results: T.List[dict] = []
    slice_n = max(chk.jobs * 8, 64)
    skipped = 0
    for i in range(0, len(items), slice_n):
        if time.time() - t0 > budget_s:
            skipped = len(items) - i
            break
        results += common.pmap(run_case, items[i:i + slice_n], chk.jobs)
    if skipped:
        chk.count('skipped:time-budget', skipped)

    cover: T.Counter[str] = collections.Counter()
    real_cells: T.Counter[str] = collections.Counter()
    kinds: T.Counter[str] = collections.Counter()
    by_kind: T.Dict[str, T.List[dict]] = {}
    for res in results:
        kinds[res['kind']] += 1
        for k, v in res['counts'].items():
            if k.startswith('cell:'):
                real_cells[k[5:]] += v
            else:
                chk.count(k, v)
        cover.update(res['cover'])
        chk.count('checked-statements', res['checked'])
        lab0 = res.get('label', '?').split(':', 1)[0] if res['kind'] != 'valid' else 'valid'
        chk.count('cases:' + ('probe' if lab0.startswith('probe') else lab0))
        if res['key']:
            chk.case(res['key'], nontrivial=res['checked'] > 0)
        if res.get('sample'):
            lab = str(res['sample'].get('label', ''))
            skind = 'probe' if lab.startswith('probe') else lab.split(':', 1)[0] if res['kind'] != 'faulty' else 'faulty'
            by_kind.setdefault(skind, []).append(res['sample'])
        if res.get('harness_error'):
            chk.notes.setdefault('harness_errors', []).append(res['harness_error'])
        for mech, w in res['violations']:
            chk.violation(mech, w)
    for skind, n in (('valid', 2), ('faulty', 2), ('probe', 1), ('cell', 1), ('cells', 1), ('shape', 1)):
        for smp in by_kind.get(skind, [])[:n]:
            chk.sample(smp)
    # directed probes must have produced exactly their expected mechanism (or conform, once repaired)
    for res in results:
        if res.get('expect') is None:
            continue
        want = res['expect']
        got = [m for m, _ in res['violations']]
        if not got:
            chk.count('probe:conforming' if not want else 'probe:known-now-conforming')
        elif want and len(got) == 1 and got[0] in want.split('|'):
            chk.count('probe:known-reproduced')
        elif want:
            chk.violation('probe-misclassified', {'label': res.get('label'), 'want': want, 'got': got})
    chk.require('mon:ast-shape', 50)
    chk.require('mon:ast-shape:sweep', 2000)
    chk.require('mon:alias', 500)
    chk.require('checked-statements', 2000)
    chk.require('ref:ok', 100)
    chk.require('ref:runtime', 100)
    chk.require('ref:syntax', 50)
    for k in ('inconclusive:timeout', 'inconclusive:harness-error'):
        if chk.counters.get(k, 0) > 0:
            chk.inconclusive.append(f'{k} = {chk.counters[k]} (a case hit the 45 s watchdog or the harness failed on it)')
    if any(k.startswith('mon:error:') for k in chk.counters):
        chk.inconclusive.append('a monitor raised internally: ' + ', '.join(k for k in chk.counters if k.startswith('mon:error:')))
    if sum(real_cells.values()) == 0:
        chk.inconclusive.append('coverage counters of the real interpreter never reported')
    ops = {k: v for k, v in cover.items() if k.startswith('op:')}
    # every binary operator x type x type cell must have been evaluated by the reference (and hence run for real)
    want_cells = [f'op:{"notin" if op == "not in" else op}:{lt}:{rt}' for op in G.BINOPS if op not in ('and', 'or')
                  for lt in G.TYPES for rt in G.TYPES]
    need_cell = per_cell if not skipped else 1      # a time-budget cut scales everything down proportionally
    missing = [c for c in want_cells if cover.get(c, 0) < need_cell]
    if missing:
        chk.inconclusive.append(f'{len(missing)} operator cells evaluated fewer than {need_cell} times, e.g. {missing[:3]}')
    methods = {k: v for k, v in cover.items() if k.startswith('method:')}
    extra = {
        'projects': dict(kinds),
        'reference_cells': {'operator_cells': len(ops), 'method_cells': len(methods),
                            'least_covered_ops': sorted(ops.items(), key=lambda kv: kv[1])[:12],
                            'least_covered_methods': sorted(methods.items(), key=lambda kv: kv[1])[:12],
                            'nodes': {k[5:]: v for k, v in cover.items() if k.startswith('node:')},
                            'foreach': {k: v for k, v in cover.items() if k.startswith('foreach')}},
        'real_interpreter_cells': {'distinct': len(real_cells), 'evaluations': sum(real_cells.values()),
                                   'operator_cells': len([k for k in real_cells if k.startswith('op:')]),
                                   'method_cells': len([k for k in real_cells if k.startswith('method:')]),
                                   'node_kinds': {k[5:]: v for k, v in real_cells.items() if k.startswith('node:')}},
    }
    return chk.finish(
        rule='one case = one generated project (files hashed); valid projects: ~14 type-directed chunks (assignments with '
             'message()+assert(x == literal), +=, aliasing probes, if/elif/else, foreach over array/dict/range with '
             'break/continue, set/get/is/unset_variable, short-circuit bombs, subdir(), subproject()); faulty projects: '
             'valid prefix + ONE fault from the catalogue or a random ill-typed operator cell; cells: every binary '
             'operator x type x type, unary, index, += and every documented method with good and bad arguments. '
             'non-trivial = at least one message/assert is compared.',
        assumptions=['refmeson is a reading of Syntax.md + docs/yaml; cells the documents leave open are consistency-only',
                     'whether an error is detected while parsing or while evaluating is not fixed by the documents: '
                     'either message prefix is accepted, file and line of the failure are compared',
                     'only the documented core sub-language is generated (no build targets, modules, disabler objects)',
                     'message lines are compared with blank lines and trailing blanks removed (the in-language asserts compare exactly)'],
        extra=extra)


if __name__ == '__main__':
    sys.exit(main())
