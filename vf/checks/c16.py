"""C16 - `meson format` preserves meaning and comments and is idempotent.

Driver.  Runs the REAL ``mesonbuild.mformat.Formatter(...).format(text, path)`` (from $VERIF_REPO) in-process on
  (1) grammar-based programs decorated with arbitrary legal trivia (vf.gen.gen_c16), each under 6 (quick) / 30
      (thorough) configurations taken round-robin from a pairwise covering set over every FormatterConfig key,
      the .editorconfig switch (4 flavours, requested by flag or by the use_editor_config key) - configurations are
      REAL meson.format / .editorconfig files in a scratch tree, loaded by the real Formatter;
  (2) every build file of the repository corpus once (and mutated variants that still parse);
  (3) directed probes for every listed finding and negative controls;
  (3b) process-history independence: the same (text, configuration) cases formatted first-in-process (one pristine child
      each) and one after the other in one process, neighbours differing in indent_by;
  (4) the real ``meson format`` command (fork server): -q, -d, -i, -o, plain stdout, stdin, -r, -c / meson.format
      auto-discovery, -e, CRLF/CR files; multi-file runs (-r and several sources) under FILE-SPECIFIC .editorconfig
      sections, judged against a fresh Formatter per file (the result for a file must not depend on earlier files);
      the files of one run are in different directories (multi_tree) or SEVERAL FILES OF THE SAME DIRECTORY - meson.build +
      meson.options / meson_options.txt, named as sources (also with -r, also a directory as source) - with sections
      that select files by NAME (samedir_tree); --check-only right after --inplace over the same sources must exit 0;
while vf.monitors.c16_contracts (oracle: the independent reader vf.ref.refmeson) judges every run:
  output parses (real parser and reference parser); same tree modulo exactly the documented simplifications; same
  comments in the same order; format(format(x)) == format(x); two documented option effects (insert_final_newline; a
  triple-quoted literal holding a newline is not made a plain one); max_line_length splitting on unambiguous probes;
  CLI: exit status of -q/-d == "--inplace would change the file's bytes", bytes written by -i/-o, stdout, recursion.
A violation gets a mechanism key from a classifier: structural ones in c16_contracts, and for verdicts that only say
which contract failed, DIFFERENTIAL classifiers here (re-run the real formatter on the input with one suspected root
cause removed; attribute what vanishes).  Unattributed verdicts are minimised (ddmin) and reported as they are.
Workers return counts and first witnesses only.  VERIF_C16_BUDGET=<seconds> overrides the wall-clock budget of the
generated-program workload (development aid on an overloaded machine).
"""
from __future__ import annotations

import collections
import json
import os
import random
import sys
import time
import typing as T
from pathlib import Path

from vf import common, runner

common.use_repo()
os.environ.pop('MESON_RUNNING_IN_PROJECT_TESTS', None)

from vf.ref import refmeson as R            # noqa: E402
from vf.gen import gen_c16 as G             # noqa: E402
from vf.monitors import c16_contracts as C  # noqa: E402

PID = 'C16'
WITNESS_PER_MECH = 2
MAX_TEXT = 20000

# mechanisms produced by the classifiers that are only "something of this contract failed" (no root cause named);
# for those the driver tries the differential classifiers (DIFFERENTIAL) before reporting
GENERIC_PREFIXES = ('non-idempotent-layout', 'non-idempotent-indentation', 'non-idempotent-blanks', 'comment-lost',
                    'comments-reordered', 'comment-text-altered', 'comment-added', 'output-unparseable',
                    'output-rejected-by-reference-parser-only', 'tree-changed:', 'second-pass-changes-tree:',
                    'call-arguments-changed', 'method-arguments-changed', 'string-value-changed', 'files-call-changed',
                    'non-idempotent-and-second-output-unparseable', 'formatter-exception', 'files-call-changed-on-second-pass',
                    'multiline-string-with-newline-made-plain', 'final-newline-missing')


def is_generic(m: str) -> bool:
    return any(part.startswith(GENERIC_PREFIXES) for part in m.split('+'))


# --------------------------------------------------------------------------------------------------
# the real formatter, configured through real files

class Env:
    """Scratch tree: one directory per configuration with meson.format (+ .editorconfig); nothing else."""

    def __init__(self, root: str, cfgs: T.Sequence[T.Dict[str, T.Any]], rng: random.Random,
                 written_keys: T.Optional[T.Sequence[T.Optional[T.Sequence[str]]]] = None) -> None:
        self.root = root
        self.cfgs = list(cfgs)
        self.entries: T.List[T.Dict[str, T.Any]] = []
        for i, c in enumerate(self.cfgs):
            d = os.path.join(root, f'cfg{i}')
            os.makedirs(d, exist_ok=True)
            # which keys are spelled out in meson.format matters when an .editorconfig is in play (file keys win over
            # editorconfig keys, which win over defaults): keys with default values are written with probability 0.3
            written = {k: v for k, v in c.items() if k in ('editorconfig', 'ec_via_key') or v != G.DEFAULT_CONFIG[k] or rng.random() < 0.3}
            if written_keys is not None and written_keys[i] is not None:
                written = {k: c[k] for k in written_keys[i]}       # replay: exactly the recorded file
            cfgfile: T.Optional[str] = None
            if i > 0 or rng.random() < 0.0:
                cfgfile = os.path.join(d, 'meson.format')
                with open(cfgfile, 'w', encoding='utf-8') as f:
                    f.write(G.config_file_text(written))
            ec = c.get('editorconfig')
            if ec is not None:
                with open(os.path.join(d, '.editorconfig'), 'w', encoding='utf-8') as f:
                    f.write(G.EDITORCONFIGS[ec])
            else:
                # stop the upward search for .editorconfig files at the scratch directory
                pass
            self.entries.append({'dir': d, 'cfgfile': cfgfile, 'src': os.path.join(d, 'meson.build'), 'written': sorted(written),
                                 'use_ec': ec is not None and not c.get('ec_via_key')})


ENV: T.Optional[Env] = None
_FMT: T.Dict[T.Any, T.Any] = {}
_ROUNDS = [0, None]
_VISITS: T.Counter[str] = collections.Counter()
_INSTRUMENTED = False


def silence_mlog() -> None:
    from mesonbuild import mlog
    mlog._logger.log_disable_stdout = True


def instrument() -> None:
    """Counters per visitor method of the three formatting passes + rounds of the 5-round loop.
    Wrappers only count and delegate; they never raise through the code they observe."""
    global _INSTRUMENTED
    if _INSTRUMENTED:
        return
    _INSTRUMENTED = True
    from mesonbuild import mformat
    orig_init = mformat.ComputeLineLengths.__init__

    def init(self: T.Any, config: T.Any, level: int) -> None:
        _ROUNDS[0] = level + 1
        _ROUNDS[1] = self
        orig_init(self, config, level)
    mformat.ComputeLineLengths.__init__ = init   # type: ignore[method-assign]
    for cls in (mformat.TrimWhitespaces, mformat.ArgumentFormatter, mformat.ComputeLineLengths):
        for name, fn in list(vars(cls).items()):
            if not name.startswith('visit_') or not callable(fn):
                continue

            def mk(fn: T.Callable, key: str) -> T.Callable:
                def w(self: T.Any, node: T.Any) -> None:
                    _VISITS[key] += 1
                    return fn(self, node)
                w.__name__ = fn.__name__
                return w
            setattr(cls, name, mk(fn, f'pass:{cls.__name__}.{name}'))


def formatter(ci: int, override: T.Optional[T.Tuple[T.Tuple[str, T.Any], ...]] = None) -> T.Any:
    from mesonbuild import mformat
    key = (ci, override)
    f = _FMT.get(key)
    if f is None:
        assert ENV is not None
        e = ENV.entries[ci]
        f = mformat.Formatter(Path(e['cfgfile']) if e['cfgfile'] else None, e['use_ec'], False)
        for k, v in override or ():
            setattr(f.config, k, v)      # only used by the differential classifiers, never for a verdict
        _FMT[key] = f
    return f


def run_real(text: str, ci: int, counts: T.Dict[str, int], override: T.Optional[T.Tuple[T.Tuple[str, T.Any], ...]] = None
             ) -> T.Tuple[T.Optional[str], T.Optional[str], T.Optional[str], T.Optional[str], T.Optional[str]]:
    """(out, out2, exc, exc2, real_parse_error) of the real formatter / parser."""
    from mesonbuild import mparser
    assert ENV is not None
    f = formatter(ci, override)
    src = Path(ENV.entries[ci]['src'])
    out = out2 = exc = exc2 = rpe = None
    _ROUNDS[0] = 0
    try:
        out = f.format(text, src)
    except RecursionError:
        exc = 'RecursionError'
    except Exception as e:   # noqa: BLE001 - observed, classified by the contracts
        exc = f'{type(e).__name__}: {e}'[:300]
    r = _ROUNDS[0]
    counts[f'rounds:{r}'] = counts.get(f'rounds:{r}', 0) + 1
    if r == 5 and _ROUNDS[1] is not None and getattr(_ROUNDS[1], 'need_regenerate', False):
        counts['rounds:limit-hit-still-wanting-more'] = counts.get('rounds:limit-hit-still-wanting-more', 0) + 1
    if out is not None:
        try:
            mparser.Parser(out, 'out').parse()
        except RecursionError:
            rpe = 'RecursionError'
        except Exception as e:   # noqa: BLE001
            rpe = f'{type(e).__name__}: {e}'[:300]
        try:
            out2 = f.format(out, src)
        except RecursionError:
            exc2 = 'RecursionError'
        except Exception as e:   # noqa: BLE001
            exc2 = f'{type(e).__name__}: {e}'[:300]
    return out, out2, exc, exc2, rpe


# --------------------------------------------------------------------------------------------------
# differential classifiers: transform the INPUT so that one suspected root cause is absent; a generic verdict that
# vanishes under the transformation is attributed to that root cause

def t_foreign(text: str, cfg: T.Mapping[str, T.Any]) -> str:
    """comments: replace str.splitlines() boundaries other than LF by '?'"""
    out = []
    changed = False
    for t in R.tokenize(text, trivia=True):
        s = t.text
        if t.kind in ('comment', 'cont') and C._FOREIGN_RE.search(s):
            s = C._FOREIGN_RE.sub('?', s)
            changed = True
        out.append(s)
    return ''.join(out) if changed else text


def t_mlbackslash(text: str, cfg: T.Mapping[str, T.Any]) -> str:
    """triple-quoted literals the formatter would simplify (no newline, no quote) and that hold a backslash: replace the
    backslashes by '/' (the rewritten literal '...' would re-read them as escapes; one at the end even swallows the
    closing quote, after which the rest of the file lexes differently)"""
    if not cfg.get('simplify_string_literals', True):
        return text
    out = []
    changed = False
    for t in R.tokenize(text, trivia=True):
        s = t.text
        if t.kind in ('mstring', 'mfstring') and '\\' in t.value and '\n' not in t.value and "'" not in t.value:
            s = s.replace('\\', '/')
            changed = True
        out.append(s)
    return ''.join(out) if changed else text


def t_trailing_cont(text: str, cfg: T.Mapping[str, T.Any]) -> str:
    """remove a backslash-newline continuation that ends a statement (only blanks / a line end / the end of file follow)"""
    toks = R.tokenize(text, trivia=True)
    out = []
    changed = False
    n = len(toks)
    for i, t in enumerate(toks):
        s = t.text
        if t.kind == 'cont' and '#' not in s:
            j = i + 1
            while j < n and toks[j].kind == 'ws':
                j += 1
            if j >= n or toks[j].kind in ('eol', 'eof'):
                s = ''
                changed = True
        out.append(s)
    return ''.join(out) if changed else text


def t_files(text: str, cfg: T.Mapping[str, T.Any]) -> str:
    """rename the function files() so that the formatter's files() special-casing (flattening, sorting) is off"""
    toks = R.tokenize(text, trivia=True)
    out = []
    trivia = ('ws', 'comment', 'cont', 'nl', 'eol')
    prev_sig = ''
    changed = False
    for i, t in enumerate(toks):
        s = t.text
        if t.kind == 'id' and s == 'files' and prev_sig != '.':
            j = i + 1
            while j < len(toks) and toks[j].kind in trivia:
                j += 1
            if j < len(toks) and toks[j].kind == '(':
                s = 'filez'
                changed = True
        if t.kind not in trivia:
            prev_sig = t.kind
        out.append(s)
    return ''.join(out) if changed else text


def t_cont_after_open(text: str, cfg: T.Mapping[str, T.Any]) -> str:
    """replace a backslash-newline continuation that directly follows an opening bracket by a blank"""
    toks = R.tokenize(text, trivia=True)
    out = []
    changed = False
    prev_sig = ''
    for t in toks:
        s = t.text
        if t.kind == 'cont' and '#' not in s and prev_sig in ('(', '[', '{'):
            s = ' '
            changed = True
        elif t.kind not in ('ws', 'comment', 'cont', 'nl', 'eol'):
            prev_sig = t.kind
        out.append(s)
    return ''.join(out) if changed else text


def t_single_comma(text: str, cfg: T.Mapping[str, T.Any]) -> T.Tuple[str, T.Optional[T.Tuple[T.Tuple[str, T.Any], ...]]]:
    """same input, same configuration except no_single_comma_function switched off: with the option on, a multi-line
    one-argument call is printed without the trailing comma that (for the next pass) marks it as multi-line"""
    if not cfg.get('no_single_comma_function'):
        return text, None
    return text, (('no_single_comma_function', False),)


def t_empty_indent(text: str, cfg: T.Mapping[str, T.Any]) -> T.Tuple[str, T.Optional[T.Tuple[T.Tuple[str, T.Any], ...]]]:
    """same input, same configuration except that the EMPTY indentation unit becomes one space: which comments the output
    holds cannot depend on the indentation unit, so this flip may explain a lost comment (TrimWhitespaces.dedent())"""
    if cfg.get('indent_by') != '':
        return text, None
    return text, (('indent_by', ' '),)


def empty_indent_mechanism(text: str, cfg: T.Mapping[str, T.Any], contracts: T.Set[str]) -> T.List[str]:
    return ['comment-lost:empty-indent_by'] if 'same-comments' in contracts else []


# configuration flips that may explain more than layout instability
SEMANTIC_FLIPS: T.Tuple[T.Any, ...] = (t_empty_indent,)


def files_mechanism(text: str, cfg: T.Mapping[str, T.Any], contracts: T.Set[str]) -> T.List[str]:
    """Sub-classification once a verdict has been attributed to the files() special-casing."""
    names = []
    try:
        calls = C.files_calls(C.norm(R.parse(text), raw=True))
    except R.RefError:
        calls = []
    nested = sorting = trivia_only = False
    try:
        toks = [t for t in R.tokenize(text, trivia=True)]
    except R.RefError:
        toks = []
    for i, t in enumerate(toks):
        # files ( [ <only trivia, at least a comment or a continuation> ]
        if t.kind == 'id' and t.text == 'files':
            j = i + 1
            seq = []
            while j < len(toks) and len(seq) < 2:
                if toks[j].kind not in ('ws', 'comment', 'cont', 'nl', 'eol'):
                    seq.append(toks[j].kind)
                j += 1
            if seq == ['(', '[']:
                marks = False
                while j < len(toks) and toks[j].kind in ('ws', 'comment', 'cont', 'nl', 'eol'):
                    marks = marks or toks[j].kind in ('comment', 'cont')
                    j += 1
                if j < len(toks) and toks[j].kind == ']' and marks:
                    trivia_only = True
    for c in calls:
        pos, kws = c[2][1:], c[3][1:]
        if len(pos) == 1 and not kws and pos[0][0] == 'array':
            items = pos[0][1:]
            if len(items) == 1 and items[0][0] == 'array':
                nested = True
            if len(items) >= 2:
                sorting = True
    _, in_files, after_array = C.comment_sites(text)
    # only the listed shapes are attributed; anything else stays with its generic name (and other classifiers get their turn)
    if 'same-comments' in contracts and in_files:
        names.append('files-flattening-drops-comment-after-array')
    if 'idempotent' in contracts:
        if nested:
            names.append('files-nested-array-flattened-one-level-per-pass')
        elif sorting and cfg.get('sort_files'):
            names.append('files-array-sorted-only-on-second-pass')
        elif trivia_only:
            names.append('files-trivia-only-array-flattened-on-later-pass')
    return names


def mlbackslash_mechanism(text: str, cfg: T.Mapping[str, T.Any], contracts: T.Set[str]) -> T.List[str]:
    """The (repaired) defect changed the VALUE of a string: it shows in the tree / parse contracts (or as an exception on
    the formatter's own output).  Replacing the literal also shifts the layout, so a layout-only second-pass difference that
    happens to vanish says nothing about it and stays with the layout classifiers that follow."""
    return ['multiline-string-simplified-changes-escapes'] if contracts - {'idempotent', 'final-newline'} else []


DIFFERENTIAL: T.Tuple[T.Tuple[T.Callable[[str, T.Mapping[str, T.Any]], T.Any], T.Any], ...] = (
    (t_foreign, 'comment-split-at-non-lf-line-boundary'),
    (t_mlbackslash, mlbackslash_mechanism),
    (t_single_comma, 'single-argument-call-relayouted-on-second-pass'),
    (t_files, files_mechanism),
    (t_cont_after_open, 'continuation-after-open-bracket-relayouted-on-second-pass'),
    (t_trailing_cont, 'continuation-at-end-of-statement-gains-a-line-per-pass'),
    (t_empty_indent, empty_indent_mechanism),
)


Override = T.Optional[T.Tuple[T.Tuple[str, T.Any], ...]]


def _apply(transforms: T.Sequence[T.Tuple[T.Any, T.Any]], text: str, cfg: T.Mapping[str, T.Any], override: Override
           ) -> T.Tuple[str, Override, T.List[T.Tuple[T.Any, T.Any]]]:
    """Apply the differential transformations one after the other; returns (text, configuration override, the ones that
    changed something)."""
    used = []
    ov = dict(override or ())
    for transform, mech in transforms:
        try:
            tr = transform(text, cfg)
        except (R.RefError, RecursionError):
            continue
        t2, o2 = tr if isinstance(tr, tuple) else (tr, None)
        if t2 == text and not o2:
            continue
        try:
            R.parse(t2)
        except (R.RefError, RecursionError):
            continue
        text = t2
        ov.update(dict(o2 or ()))
        used.append((transform, mech))
    return text, (tuple(sorted(ov.items())) if ov else None), used


def evaluate(text: str, ci: int, counts: T.Dict[str, int]) -> T.List[T.Tuple[str, str, dict]]:
    """All contracts for one (input, configuration index) -> [(mechanism, contract, detail)].

    Verdicts whose mechanism only says WHICH contract failed (generic) go through the differential classifiers: the input
    (or, for one option, the configuration) is changed so that one suspected root cause is absent; a generic verdict that
    vanishes is attributed to that root cause.  First one cause at a time (cumulatively), then - for overlapping causes -
    all remaining ones together followed by leave-one-out reduction.  What is still generic afterwards is reported as is."""
    assert ENV is not None
    cfg = ENV.cfgs[ci]
    out, out2, exc, exc2, rpe = run_real(text, ci, counts)
    vs = C.judge(text, out, out2, cfg, exc, exc2, rpe, counts)
    if out is not None and out2 is not None and out2 != out:
        counts['observed:second-pass-differs'] = counts.get('observed:second-pass-differs', 0) + 1
    if not vs:
        return []
    result: T.List[T.Tuple[str, str, dict]] = [(v.mechanism, v.contract, v.detail) for v in vs if not is_generic(v.mechanism)]
    generic = [v for v in vs if is_generic(v.mechanism)]
    scratch: T.Dict[str, int] = {}

    def judge_variant(t: str, ov: Override) -> T.List[C.Verdict]:
        cfg2 = dict(cfg, **dict(ov)) if ov else cfg
        o, o2, e1, e2, rp = run_real(t, ci, scratch, ov)
        return C.judge(t, o, o2, cfg2, e1, e2, rp, scratch)

    def attribute(used: T.Sequence[T.Tuple[T.Any, T.Any]], base_text: str, gone: T.Set[str], vs2: T.Sequence[C.Verdict]) -> None:
        nonlocal generic
        first = next(v for v in generic if v.contract in gone)
        for _tr, mech in used:
            names = mech(base_text, cfg, gone) if callable(mech) else [mech]
            if not names:
                names = ['unattributed:' + first.mechanism]
            for name in names:
                counts['differential:' + name] = counts.get('differential:' + name, 0) + 1
                if name not in {r[0] for r in result}:
                    result.append((name, first.contract, dict(first.detail, classified_by='differential', generic=first.mechanism)))
        # verdicts that the transformed input turned into specific ones are kept as they are
        for v in vs2:
            if not is_generic(v.mechanism) and v.mechanism not in {r[0] for r in result}:
                result.append((v.mechanism, v.contract, v.detail))
        generic = [v for v in vs2 if is_generic(v.mechanism)]

    cur_text, cur_ov = text, None
    pending = list(DIFFERENTIAL)
    # (1) one cause at a time, cumulatively
    for item in list(pending):
        if not generic:
            break
        t2, ov2, used = _apply([item], cur_text, cfg, cur_ov)
        if not used:
            pending.remove(item)
            continue
        if ov2 != cur_ov and item[0] not in SEMANTIC_FLIPS and any(v.contract != 'idempotent' for v in generic):
            continue      # a configuration flip may only explain layout instability (same tree, same comments)
        vs2 = judge_variant(t2, ov2)
        gone = {v.contract for v in generic} - {v.contract for v in vs2 if is_generic(v.mechanism)}
        if gone:
            mech = item[1]
            if callable(mech) and not mech(cur_text, cfg, gone):
                continue       # the transformation helps, but the input shows none of the listed shapes: not attributed
            attribute(used, cur_text, gone, vs2)
            cur_text, cur_ov = t2, ov2
            pending.remove(item)
    # (2) overlapping causes: all remaining ones together, then drop the ones that are not needed
    if generic and len(pending) > 1 and all(v.contract == 'idempotent' for v in generic):
        t2, ov2, used = _apply(pending, cur_text, cfg, cur_ov)
        if len(used) > 1:
            vs2 = judge_variant(t2, ov2)
            if not any(is_generic(v.mechanism) for v in vs2):
                needed = list(used)
                for item in list(used):
                    trial = [u for u in needed if u is not item]
                    if not trial:
                        continue
                    t3, ov3, used3 = _apply(trial, cur_text, cfg, cur_ov)
                    vs3 = judge_variant(t3, ov3)
                    if not any(is_generic(v.mechanism) for v in vs3):
                        needed = trial
                t2, ov2, used = _apply(needed, cur_text, cfg, cur_ov)
                vs2 = judge_variant(t2, ov2)
                attribute(used, cur_text, {v.contract for v in generic}, vs2)
                cur_text = t2
    for v in generic:
        d = dict(v.detail)
        if cur_text != text:
            d['after_differential_input'] = cur_text[:2000]
        result.append((v.mechanism, v.contract, d))
    return result


# --------------------------------------------------------------------------------------------------
# witness minimisation (delta debugging over chunks, lines, tokens, characters)

def ddmin(units: T.List[str], pred: T.Callable[[T.List[str]], bool], deadline: float) -> T.List[str]:
    n = 2
    while len(units) >= 2 and time.time() < deadline:
        k = max(1, len(units) // n)
        changed = False
        for i in range(0, len(units), k):
            cand = units[:i] + units[i + k:]
            if cand and pred(cand):
                units = cand
                n = max(n - 1, 2)
                changed = True
                break
        if not changed:
            if k == 1:
                break
            n = min(len(units), n * 2)
    return units


def parses(text: str) -> bool:
    from mesonbuild import mparser
    try:
        R.parse(text)
        mparser.Parser(text, 'in').parse()
        return True
    except Exception:   # noqa: BLE001
        return False
    except RecursionError:
        return False


def minimise(text: str, ci: int, mech: str, budget: float = 6.0) -> str:
    deadline = time.time() + budget
    sink: T.Dict[str, int] = {}

    def pred(us: T.List[str]) -> bool:
        t = ''.join(us)
        if not parses(t):
            return False
        return any(m == mech for m, _c, _d in evaluate(t, ci, sink))

    try:
        lines = ddmin(text.splitlines(keepends=True), pred, deadline)
        text = ''.join(lines)
        toks = ddmin([t.text for t in R.tokenize(text, trivia=True)], pred, deadline)
        text = ''.join(toks)
        if len(text) < 400:
            text = ''.join(ddmin(list(text), pred, deadline))
    except Exception:   # noqa: BLE001 - minimisation is best effort
        pass
    return text


# --------------------------------------------------------------------------------------------------
# workers

class Acc:
    def __init__(self) -> None:
        self.counts: T.Dict[str, int] = {}
        self.feat: T.Counter[str] = collections.Counter()
        self.keys: T.List[str] = []
        self.mechs: T.Counter[str] = collections.Counter()
        self.witnesses: T.Dict[str, T.List[dict]] = {}
        self.samples: T.List[T.Any] = []
        self.cfg_used: T.Counter[int] = collections.Counter()

    def add(self, k: str, n: int = 1) -> None:
        self.counts[k] = self.counts.get(k, 0) + n

    def data(self) -> dict:
        self.counts.update({k: v + self.counts.get(k, 0) for k, v in _VISITS.items()})
        _VISITS.clear()
        return {'counts': self.counts, 'feat': dict(self.feat), 'keys': self.keys, 'mechs': dict(self.mechs),
                'witnesses': self.witnesses, 'samples': self.samples, 'cfg_used': dict(self.cfg_used)}


KNOWN: T.Set[str] = set()


def structural_key(text: str, ci: int) -> str:
    try:
        kinds = ' '.join(t.kind if t.kind not in ('ws',) else 'w' for t in R.tokenize(text, trivia=True))
    except R.RefError:
        kinds = text
    return common.digest([kinds, ci])


def one_case(acc: Acc, text: str, ci: int, origin: str, minimise_unknown: bool = True) -> None:
    assert ENV is not None
    acc.cfg_used[ci] += 1
    acc.keys.append(structural_key(text, ci))
    res = evaluate(text, ci, acc.counts)
    acc.add('cases:' + origin.split(':')[0])
    if not res:
        return
    seen: T.Set[str] = set()
    for mech, contract, detail in res:
        if mech in seen:
            continue
        seen.add(mech)
        acc.mechs[mech] += 1
        ws = acc.witnesses.setdefault(mech, [])
        if len(ws) < WITNESS_PER_MECH:
            t = text
            if mech not in KNOWN and minimise_unknown and len(text) < MAX_TEXT:
                t = minimise(text, ci, mech)
            ws.append({'text': t[:MAX_TEXT], 'text_truncated': len(t) > MAX_TEXT, 'config': cfg_brief(ENV.cfgs[ci]),
                       'written_keys': ENV.entries[ci]['written'], 'contract': contract,
                       'detail': detail, 'origin': origin, 'kind': 'format'})


def cfg_brief(cfg: T.Mapping[str, T.Any]) -> T.Dict[str, T.Any]:
    return {k: v for k, v in cfg.items() if v != G.DEFAULT_CONFIG.get(k)}


def pick_configs(i: int, n: int, ncfg: int) -> T.List[int]:
    return [(i * n + j) % ncfg for j in range(n)]


def worker_gen(task: T.Tuple[int, int, int, int]) -> dict:
    """task = (seed, first program index, count, configs per program)"""
    seed, first, count, per = task
    assert ENV is not None
    silence_mlog()
    instrument()
    acc = Acc()
    ncfg = len(ENV.cfgs)
    for i in range(first, first + count):
        rng = random.Random(f'{PID}:{seed}:gen:{i}')
        chunks = G.program(rng, acc.feat)
        text = ''.join(chunks)
        acc.add('generated')
        if not parses(text):
            acc.add('skipped:generated-program-rejected-by-a-parser')
            continue
        if i < first + 1 and len(text) < 600:
            acc.samples.append({'program': text, 'configs': pick_configs(i, per, ncfg)})
        for ci in pick_configs(i, per, ncfg):
            one_case(acc, text, ci, f'gen:{i}')
    return acc.data()


def worker_corpus(task: T.Tuple[int, T.List[str], int, int]) -> dict:
    """task = (seed, files, mutants per file, configs per text)"""
    seed, files, nmut, per = task
    assert ENV is not None
    silence_mlog()
    instrument()
    acc = Acc()
    ncfg = len(ENV.cfgs)
    for path in files:
        try:
            with open(path, encoding='utf-8') as f:
                text = f.read()
        except (OSError, UnicodeDecodeError):
            acc.add('skipped:corpus-unreadable')
            continue
        if len(text) > 60000:
            acc.add('skipped:corpus-too-large')
            continue
        if not parses(text):
            acc.add('skipped:corpus-file-rejected-by-a-parser')
            continue
        rng = random.Random(f'{PID}:{seed}:corpus:{os.path.relpath(path, common.REPO)}')
        rel = os.path.relpath(path, common.REPO)
        h = int(common.digest(rel), 16)
        for j in range(per):
            # first configuration of a corpus file: the default one for a third of the files
            ci = 0 if (j == 0 and h % 3 == 0) else (h + j * 7) % ncfg
            one_case(acc, text, ci, 'corpus:' + rel)
        toks = [(t.kind, t.text) for t in R.tokenize(text, trivia=True)]
        for m in range(nmut):
            mt = G.mutate_text(rng, text, toks)
            if mt == text:
                acc.add('skipped:mutation-was-identity')
                continue
            if not parses(mt):
                acc.add('skipped:mutant-rejected-by-a-parser')
                continue
            one_case(acc, mt, rng.randrange(ncfg), f'corpus-mutant:{rel}#{m}')
    return acc.data()


# ---- directed probes ---------------------------------------------------------------------------------

# (text, config overrides, mechanisms that MAY fire on this probe).  After a fix the same probe must simply pass.
PROBES: T.List[T.Tuple[str, T.Dict[str, T.Any], T.Tuple[str, ...]]] = [
    ("x = '''a\\nb'''\n", {}, ('multiline-string-simplified-changes-escapes',)),
    ("x = '''a\\\\b'''\n", {}, ('multiline-string-simplified-changes-escapes',)),
    ("x = '''c:\\temp\\x41'''\n", {}, ('multiline-string-simplified-changes-escapes',)),
    ("x = f'''@a@\\t'''\n", {}, ('multiline-string-simplified-changes-escapes',)),
    ("x = '''a\\'''\n", {}, ('multiline-string-simplified-changes-escapes',)),
    ("x = f'''@\\x41@'''\n", {}, ('multiline-string-simplified-changes-escapes',)),
    ("x = f'''a\\tb'''\n", {}, ('multiline-string-simplified-changes-escapes',)),
    ("x = files([['a.c']])\n", {}, ('files-nested-array-flattened-one-level-per-pass',)),
    ("x = files([[['a.c', 'b.c']]])\n", {}, ('files-nested-array-flattened-one-level-per-pass',)),
    ("x = files(['b.c', 'a.c'])\n", {'sort_files': True}, ('files-array-sorted-only-on-second-pass',)),
    ("x = files(['a.c'] # why\n)\n", {}, ('files-flattening-drops-comment-after-array',)),
    ("x = files(['a.c'], # why\n)\n", {}, ('files-flattening-drops-comment-after-array',)),
    ("x = ((very_long_identifier_number_one + very_long_identifier_number_two + very_long_identifier_number_three))\n", {},
     ('indentation-unstable-inside-multiline-parentheses',)),
    ("x = (a and (b or c))\n", {'max_line_length': 0}, ('indentation-unstable-inside-multiline-parentheses',)),
    # the shape the partial fix suggested in known_findings.d/C16.json does NOT repair (closer of an argument list)
    ("x = ({'k': 1})\n", {'max_line_length': 0, 'kwargs_force_multiline': True}, ('indentation-unstable-inside-multiline-parentheses',)),
    ("f(a,)\n", {'no_single_comma_function': True}, ('single-argument-call-relayouted-on-second-pass',)),
    ("x = o.m(a,\n)\n", {'no_single_comma_function': True}, ('single-argument-call-relayouted-on-second-pass',)),
    ("x = 1 \\\n", {}, ('continuation-at-end-of-statement-gains-a-line-per-pass',)),
    ("foreach x : d\nendforeach\\\n", {}, ('continuation-at-end-of-statement-gains-a-line-per-pass',)),
    ("f('''\\''', '''/#''' # c\n , [1])\n", {}, ('multiline-string-simplified-changes-escapes',)),
    ("x = f([ \\\n 'a'])\n", {}, ('continuation-after-open-bracket-relayouted-on-second-pass',)),
    ("x = f(g( \\\n 'a'))\n", {}, ('continuation-after-open-bracket-relayouted-on-second-pass',)),
    ("v = files([#c\n])[[srcs, 'aaaaaaaaaaaaaaaaaaaaaaaaaaaaaaaaaaaaaa']].e()\n", {'max_line_length': 30},
     ('files-trivia-only-array-flattened-on-later-pass',)),
    ("# a\x0cb\nx = 1\n", {}, ('comment-split-at-non-lf-line-boundary',)),
    ("f('--l' #\x1c\n, 'v')\n", {}, ('comment-split-at-non-lf-line-boundary',)),
    ("f(a # c\u2028\n, b)\n", {}, ('comment-split-at-non-lf-line-boundary',)),
    # fixed by f0fb219: with indent_by = '' dedent() did value[:-0] and erased the whitespace node before a closing bracket
    # together with the comment in it; the other extreme but legal indentation units as controls
    ("x = (a # c\n and b # d\n)\n", {'indent_by': ''}, ('comment-lost:empty-indent_by',)),
    ("x = [a, # c\n b # d\n]\nf(1, # e\n 2 # f\n)\nd = {'k': 1 # g\n}\n", {'indent_by': ''}, ('comment-lost:empty-indent_by',)),
    ("if a\n  x = (a # c\n   and b # d\n  )\n  foreach i : [1, # e\n    2 # f\n    ]\n  y = i\n  endforeach\nendif\n", {'indent_by': '', 'max_line_length': 20},
     ('comment-lost:empty-indent_by',)),
    ("x = (a # c\n and b # d\n)\n", {'indent_by': ' '}, ()),
    ("x = (a # c\n and b # d\n)\n", {'indent_by': '\t'}, ()),
    ("x = (a # c\n and b # d\n)\n", {'indent_by': '        '}, ()),
    # negative controls: a comment in EVERY gap between two tokens where a line break is blank space (inside brackets, or
    # after a continuation backslash) - also the gap inside the two-word operator `not in`, whose trivia lives in the
    # operator symbol itself
    ("x = (a # 1\n not # 2\n in # 3\n b # 4\n)\n", {}, ()),
    ("x = [a # 1\n not # 2\n in # 3\n b, # 4\n c # 5\n ? # 6\n d # 7\n : # 8\n e # 9\n , # 10\n - # 11\n g # 12\n]\n", {}, ()),
    ("f(a # 1\n . # 2\n m # 3\n ( # 4\n k # 5\n : # 6\n not # 7\n v # 8\n ) # 9\n [ # 10\n 0 # 11\n ] # 12\n)\n", {}, ()),
    ("d = { # 1\n 'k' # 2\n : # 3\n a # 4\n not # 5\n in # 6\n b # 7\n and # 8\n not # 9\n c # 10\n or # 11\n e # 12\n == # 13\n g # 14\n}\n", {}, ()),
    ("y = a not \\\n in b\nz = a not \\ # c\n in b\nif a not  \\ # d\n   in b\nendif\n", {}, ()),
    ("x = (a not # why\n in b)\n", {'max_line_length': 20, 'indent_by': ''}, ()),
    # negative controls: the documented simplifications that ARE meaning preserving, and plain programs
    ("x = '''abc'''\n", {}, ()),
    ("x = '''a\nb'''\n", {}, ()),
    ("x = '''it's'''\n", {}, ()),
    ("x = f'abc'\ny = f'@x@'\nz = f'''a@b'''\n", {}, ()),
    ("x = files(['a.c', 'b.c'])\n", {}, ()),
    ("x = files('b.c', 'a.c', 'a10.c', 'a2.c')\n", {'sort_files': True}, ()),
    ("x = files('b.c', # cb\n  'a.c', # ca\n)\n", {'sort_files': True}, ()),
    ("if a # c1\n  # c2\n  x = [1, # c3\n    2]\nendif # c4\n# c5", {}, ()),
    ("x = [\n  1,\n  2,\n]\n", {'max_line_length': 0}, ()),
    ("", {}, ()),
    ("# only a comment", {'insert_final_newline': False}, ()),
]


# documented effect of max_line_length ("When an array, a dict, a function or a method would be longer that this, it is
# formatted one argument per line"): unambiguous probes where every argument fits on its own line, so after formatting no
# line may exceed the limit.  The nested ones need 2 and 3 rounds of the formatter's regeneration loop.
SPLIT_PROBES: T.List[T.Tuple[str, T.Dict[str, T.Any], int]] = [
    ("x = ffff(" + ', '.join(f"'argument_number_{i}'" for i in range(8)) + ")\n", {}, 80),
    ("x = [" + ', '.join(f"'item_number_{i}'" for i in range(10)) + "]\n", {}, 80),
    ("x = {" + ', '.join(f"'key_{i}': 'value_number_{i}'" for i in range(6)) + "}\n", {}, 80),
    ("x = obj.method(" + ', '.join(f"'argument_number_{i}'" for i in range(8)) + ")\n", {}, 80),
    ("x = fffffffffffffff(gggggggggggggggg(aaaaaaaaaaaaaaaaaaaaaaaaaaaaaaaaaa, bbbbbbbbbbbbbbbbbbbbbbbbbbbbbbbbbbbbbb, "
     "ccccccccccccccccccccccccc), hhhhhhhhhhhhh(ddddddddddddddddddddd, eeeeeeeeeeeeeeeeeeeeeeeeeeeeeeeeeeeeeeeee, "
     "ffffffffffffffffffffffffffffffffffff))\n", {}, 80),
    ("x = f1(f2(f3(" + ', '.join(f"'argument_number_{i}'" for i in range(7)) + "), 'second_argument_of_f2_which_is_quite_long_too', "
     "'third_argument_of_f2_which_is_long'), 'second_argument_of_f1')\n", {}, 80),
    ("x = f(aaaaaaaa, bbbbbbbb, cccccccc)\n", {'max_line_length': 20}, 20),
]


def _nest(kinds: str, inner: str) -> str:
    """argument lists opened one inside the other on one line: c = call, m = method call, a = array, d = dict, k = kwarg call"""
    head, tail = '', ''
    for i, k in enumerate(kinds):
        o, c = {'c': (f'fn{i}(', ')'), 'm': (f'obj{i}.meth(', ')'), 'a': ('[', ']'), 'd': (f"{{'key{i}': ", '}'),
                'k': (f'fn{i}(first, kw{i}: ', ')')}[k]
        head += o
        tail = c + tail
    return 'r = ' + head + inner + tail + '\n'


# inputs that need as many or more successive splits than the regeneration loop has rounds (5): negative controls on the
# unchanged tree (the output of the last round must be a fixed point), for every shape of nested list
_LONG = "'" + 'x' * 70 + "', 'y'"
PROBES += [(_nest(kinds, inner), over, ()) for kinds in ('ccccc', 'cccccc', 'cccccccc', 'aaaaaa', 'dcdcdc', 'mamaca', 'kkkkkc', 'cacdkm', 'cccc')
           for inner, over in ((_LONG, {}), ("'" + 'x' * 30 + "', 'yyyyyyyyyy'", {'max_line_length': 40}))]


def worker_probes(_task: int) -> dict:
    assert ENV is not None
    silence_mlog()
    instrument()
    acc = Acc()
    for text, over, allowed in PROBES:
        cfg = dict(G.DEFAULT_CONFIG)
        cfg.update(over)
        ci = ENV.cfgs.index(cfg)
        before = dict(acc.mechs)
        one_case(acc, text, ci, 'probe', minimise_unknown=False)
        fired = {m for m in acc.mechs if acc.mechs[m] != before.get(m, 0)}
        acc.add('probe:run')
        if allowed:
            acc.add('probe:finding-' + ('reobserved' if fired & set(allowed) else 'not-observed(fixed?)'))
        for m in fired - set(allowed):
            acc.add('probe:unexpected')
            acc.witnesses.setdefault('probe-unexpected:' + m, []).append({'text': text, 'config': cfg_brief(cfg), 'kind': 'format', 'origin': 'probe',
                                                                           'detail': {'allowed': allowed}})
            acc.mechs['probe-unexpected:' + m] += 1
    for text, over, limit in SPLIT_PROBES:
        cfg = dict(G.DEFAULT_CONFIG)
        cfg.update(over)
        ci = ENV.cfgs.index(cfg)
        one_case(acc, text, ci, 'probe', minimise_unknown=False)
        out, _o2, _e, _e2, _rp = run_real(text, ci, {})
        acc.add('probe:split-run')
        acc.add('contract:long-argument-list-split')
        if out is None or max(len(line) for line in out.split('\n')) > limit:
            acc.mechs['long-argument-list-not-split'] += 1
            acc.witnesses.setdefault('long-argument-list-not-split', []).append(
                {'text': text, 'config': cfg_brief(cfg), 'kind': 'format', 'origin': 'probe', 'detail': {'output': out, 'limit': limit}})
    return acc.data()


# ---- command line ------------------------------------------------------------------------------------

def universal(b: bytes) -> str:
    """What Path.read_text(encoding='utf-8') (universal newlines) makes of file bytes - also what meson itself reads."""
    return b.decode('utf-8').replace('\r\n', '\n').replace('\r', '\n')


EOLS = {'lf': '\n', 'crlf': '\r\n', 'cr': '\r', 'native': os.linesep}


def cli_expected(ci: int, text: str) -> T.Tuple[T.Optional[str], str]:
    """(Formatter output for `text` under configuration ci, effective end_of_line name) - the real Formatter, in-process."""
    assert ENV is not None
    f = formatter(ci)
    try:
        out = f.format(text, Path(ENV.entries[ci]['src']))
    except Exception:   # noqa: BLE001
        return None, 'native'
    return out, f.current_config.end_of_line


def cli_case(acc: Acc, idx: int, seed: int, root: str) -> None:
    """One command-line scenario on a fresh directory.  The oracle for the text is the real Formatter run in-process
    with the same configuration files (the contracts on that text are evaluated by the in-process part); here the
    contracts are about the command: exit status, what is written where, byte-exact."""
    assert ENV is not None
    rng = random.Random(f'{PID}:{seed}:cli:{idx}')
    ncfg = len(ENV.cfgs)
    ci = rng.randrange(ncfg)
    e = ENV.entries[ci]
    cfg = ENV.cfgs[ci]
    d = e['dir']           # the configuration directory holds meson.format / .editorconfig; sources go next to them
    g = G.Gen(rng, noise=rng.choice((0.0, 0.3, 0.7)), size=3, ml_backslash=False)
    text = ''.join(g.program())
    if not parses(text):
        acc.add('skipped:generated-program-rejected-by-a-parser')
        return
    formatted, _ = cli_expected(ci, text)
    if formatted is None:
        return
    # file content variants: raw program / already formatted / formatted modulo leading-trailing blank / with CRLF or CR
    variant = rng.choice(('raw', 'formatted', 'formatted', 'formatted-no-final-newline', 'formatted-extra-final-newline',
                          'formatted-leading-newline', 'formatted-trailing-space', 'raw-crlf', 'formatted-crlf', 'formatted-cr'))
    content = {'raw': text, 'formatted': formatted, 'formatted-no-final-newline': formatted.rstrip('\n'),
               'formatted-extra-final-newline': formatted + '\n', 'formatted-leading-newline': '\n' + formatted,
               'formatted-trailing-space': formatted.rstrip('\n') + ' \n', 'raw-crlf': text, 'formatted-crlf': formatted,
               'formatted-cr': formatted}[variant]
    data = content.encode('utf-8')
    if variant.endswith('-crlf'):
        data = content.replace('\r\n', '\n').replace('\r', '\n').replace('\n', '\r\n').encode('utf-8')
    elif variant.endswith('-cr'):
        data = content.replace('\r\n', '\n').replace('\r', '\n').replace('\n', '\r').encode('utf-8')
    code = universal(data)
    if not parses(code):
        acc.add('skipped:cli-content-rejected-by-a-parser')
        return
    want, eol_name = cli_expected(ci, code)
    if want is None:
        acc.add('skipped:cli-formatter-raised')
        return
    eol = EOLS.get(eol_name, os.linesep)
    want_bytes = want.replace('\n', eol).encode('utf-8')
    would_change_text = want != code
    would_change_bytes = want_bytes != data
    mode = rng.choice(('q', 'q', 'd', 'i', 'i', 'o', 'stdout', 'stdin', 'qi'))
    name = f'case{idx}'
    sub = os.path.join(d, name)
    os.makedirs(sub, exist_ok=True)
    src = os.path.join(sub, 'meson.build')
    with open(src, 'wb') as f:
        f.write(data)
    # configuration: found automatically (meson.format in a parent directory) or given with -c; editorconfig by -e or key
    argv = ['format']
    if e['cfgfile'] and rng.random() < 0.5:
        argv += ['-c', e['cfgfile']]
    if e['use_ec']:
        argv += ['-e']
    src_arg = src if rng.random() < 0.5 else os.path.join(sub, '')  # a directory means <dir>/meson.build
    if src_arg.endswith('/'):
        src_arg = sub
    wit = {'kind': 'cli', 'variant': variant, 'mode': mode, 'config': cfg_brief(cfg), 'content': content[:MAX_TEXT], 'origin': f'cli:{idx}'}

    def fail(mech: str, detail: dict) -> None:
        acc.mechs[mech] += 1
        ws = acc.witnesses.setdefault(mech, [])
        if len(ws) < WITNESS_PER_MECH:
            ws.append(dict(wit, detail=detail, argv=argv))

    def run(args: T.List[str], stdin: T.Optional[str] = None) -> runner.Result:
        acc.add('cli:invocations')
        return runner.meson(argv + args, cwd=sub, timeout=60, stdin=stdin)

    def read(p: str) -> bytes:
        with open(p, 'rb') as f:
            return f.read()

    acc.add('cases:cli')
    acc.add('cli:mode-' + mode)
    acc.add('cli:variant-' + variant)
    acc.keys.append(common.digest(['cli', mode, variant, ci, would_change_text, would_change_bytes]))
    if mode in ('q', 'd', 'qi'):
        r = run(['-q' if mode != 'd' else '-d', src_arg])
        acc.add('contract:cli-check-status')
        if r.rc not in (0, 1) or r.traceback:
            fail('cli-check-crashed', r.brief())
        elif (r.rc == 1) != would_change_bytes:
            # "report a difference iff formatting would change the file": the file = its bytes after --inplace
            acc.add('contract:cli-check-vs-inplace-bytes')
            if r.rc == 0 and not would_change_text:
                # the text is already formatted, but --inplace would still rewrite the line endings
                fail('check-only-ignores-line-endings', {'rc': r.rc, 'end_of_line': eol_name, 'file_eol': variant})
            else:
                fail('cli-check-status-differs-from-formatter', {'rc': r.rc, 'formatter_would_change_text': would_change_text,
                                                                  'inplace_would_change_bytes': would_change_bytes})
        if read(src) != data:
            fail('cli-check-modified-the-file', {})
        if mode == 'd':
            acc.add('contract:cli-diff-output')
            if r.rc == 0 and r.out.strip():
                fail('cli-check-diff-prints-a-diff-but-reports-no-change', {'rc': r.rc, 'out': r.out[:300]})
            elif r.rc == 1 and not ('(original)' in r.out and '(reformatted)' in r.out):
                # e.g. only the final newline differs: difflib over splitlines() shows nothing.  The property is about
                # the reported status, the documents do not specify the diff text: counted, not judged.
                acc.add('observed:check-diff-status-1-with-empty-diff')
        elif r.out.strip():
            fail('cli-check-only-not-silent', {'out': r.out[:300]})
    if mode in ('i', 'qi'):
        r = run(['-i', src_arg])
        acc.add('contract:cli-inplace-bytes')
        got = read(src)
        if r.rc != 0 or r.traceback:
            fail('cli-inplace-failed', r.brief())
        elif got != want_bytes:
            fail('cli-inplace-bytes-differ-from-formatter', {'got': got[:400].decode('utf-8', 'replace'), 'want': want_bytes[:400].decode('utf-8', 'replace')})
    elif mode == 'o':
        outp = os.path.join(sub, 'out.build')
        r = run(['-o', outp, src_arg])
        acc.add('contract:cli-output-bytes')
        if r.rc != 0 or r.traceback or not os.path.exists(outp):
            fail('cli-output-failed', r.brief())
        elif read(outp) != want_bytes:
            fail('cli-output-bytes-differ-from-formatter', {'got': read(outp)[:400].decode('utf-8', 'replace')})
        if read(src) != data:
            fail('cli-output-modified-the-source', {})
    elif mode == 'stdout':
        r = run([src_arg])
        acc.add('contract:cli-stdout')
        if r.rc != 0 or r.traceback:
            fail('cli-stdout-failed', r.brief())
        elif r.out != want:
            fail('cli-stdout-differs-from-formatter', {'got': r.out[:400], 'want': want[:400]})
        if read(src) != data:
            fail('cli-stdout-modified-the-source', {})
    elif mode == 'stdin':
        r = run(['--source-file-path', src, '-'], stdin=code)
        acc.add('contract:cli-stdin')
        if r.rc != 0 or r.traceback:
            fail('cli-stdin-failed', r.brief())
        elif r.out != want:
            fail('cli-stdin-differs-from-formatter', {'got': r.out[:400], 'want': want[:400]})
    import shutil
    shutil.rmtree(sub, ignore_errors=True)


def cli_recursive(acc: Acc, idx: int, seed: int) -> None:
    """-r: meson.build files reachable through subdir() are visited; others are not."""
    assert ENV is not None
    rng = random.Random(f'{PID}:{seed}:clirec:{idx}')
    ci = rng.randrange(len(ENV.cfgs))
    e = ENV.entries[ci]
    sub = os.path.join(e['dir'], f'rec{idx}')
    g = G.Gen(rng, noise=0.5, size=2, ml_backslash=False)

    def prog() -> str:
        while True:
            t = universal(''.join(g.program()).encode('utf-8'))    # what meson reads from the file (universal newlines)
            if parses(t) and 'subdir' not in t:
                return t if t.endswith('\n') else t + '\n'

    files = {
        'meson.build': prog() + "subdir('a')\nsubdir('b/c')\n",
        'a/meson.build': prog() + "subdir('d')\n",
        'a/d/meson.build': prog(),
        'b/c/meson.build': prog(),
        'b/meson.build': prog(),            # not referenced: must not be touched
        'z/meson.build': prog(),            # not referenced
    }
    reachable = ['meson.build', 'a/meson.build', 'a/d/meson.build', 'b/c/meson.build']
    # make some of the reachable ones already formatted
    want: T.Dict[str, str] = {}
    for rel in list(files):
        f = formatter(ci)
        try:
            w = f.format(files[rel], Path(os.path.join(sub, rel)))
        except Exception:   # noqa: BLE001
            return
        if rel in reachable and rng.random() < 0.6:
            files[rel] = w
            try:
                w = f.format(w, Path(os.path.join(sub, rel)))
            except Exception:   # noqa: BLE001
                return
        want[rel] = w
    eol = EOLS.get(formatter(ci).current_config.end_of_line, os.linesep)
    runner.write_tree(sub, files)
    argv = ['format'] + (['-e'] if e['use_ec'] else [])
    acc.add('cases:cli')
    acc.add('cli:mode-recursive')
    any_change = any(want[r] != files[r] for r in reachable)
    any_change_bytes = any(want[r].replace('\n', eol).encode('utf-8') != files[r].encode('utf-8') for r in reachable)
    acc.keys.append(common.digest(['clirec', ci, [want[r] != files[r] for r in reachable]]))
    wit = {'kind': 'cli-recursive', 'config': cfg_brief(ENV.cfgs[ci]), 'files': {k: v[:3000] for k, v in files.items()}, 'origin': f'clirec:{idx}'}

    def fail(mech: str, detail: dict) -> None:
        acc.mechs[mech] += 1
        ws = acc.witnesses.setdefault(mech, [])
        if len(ws) < WITNESS_PER_MECH:
            ws.append(dict(wit, detail=detail))

    acc.add('cli:invocations', 2)
    r = runner.meson(argv + ['-r', '-q', 'meson.build'], cwd=sub, timeout=60)
    acc.add('contract:cli-recursive-check-status')
    if r.rc not in (0, 1) or r.traceback:
        fail('cli-recursive-check-crashed', r.brief())
    elif (r.rc == 1) != any_change_bytes:
        if r.rc == 0 and not any_change:
            fail('check-only-ignores-line-endings', {'rc': r.rc, 'recursive': True})
        else:
            fail('cli-recursive-check-status-differs-from-formatter', {'rc': r.rc, 'would_change': {k: want[k] != files[k] for k in reachable}})
    r = runner.meson(argv + ['-r', '-i'], cwd=sub, timeout=60)
    acc.add('contract:cli-recursive-inplace')
    if r.rc != 0 or r.traceback:
        fail('cli-recursive-inplace-failed', r.brief())
    else:
        for rel in files:
            with open(os.path.join(sub, rel), 'rb') as f:
                got = f.read()
            exp = (want[rel].replace('\n', eol) if rel in reachable else files[rel]).encode('utf-8')
            if got != exp:
                fail('cli-recursive-inplace-wrong-bytes' if rel in reachable else 'cli-recursive-touched-unreferenced-file', {'file': rel, 'got': got[:300].decode('utf-8', 'replace')})
                break
    import shutil
    shutil.rmtree(sub, ignore_errors=True)


# directed command-line probes: (file bytes, configuration overrides, would --inplace change the bytes?)
CLI_PROBES: T.List[T.Tuple[bytes, T.Dict[str, T.Any], str]] = [
    (b'x = 1\n', {'end_of_line': 'crlf'}, 'lf-file-crlf-configured'),
    (b'x = 1\r\n', {'end_of_line': 'lf'}, 'crlf-file-lf-configured'),
    (b'x = 1\r\n', {}, 'crlf-file-native'),
    (b'x = 1\n', {'end_of_line': 'lf'}, 'control-formatted-lf'),
    (b'x = 1\r\n', {'end_of_line': 'crlf'}, 'control-formatted-crlf'),
    (b'x = 1', {}, 'control-missing-final-newline'),
    (b'x  = 1\n', {}, 'control-unformatted'),
    (b'\nx = 1\n', {'end_of_line': 'lf'}, 'control-leading-blank-line'),
]


def cli_probes(acc: Acc) -> None:
    assert ENV is not None
    for k, (data, over, name) in enumerate(CLI_PROBES):
        cfg = dict(G.DEFAULT_CONFIG)
        cfg.update(over)
        ci = ENV.cfgs.index(cfg)
        e = ENV.entries[ci]
        sub = os.path.join(e['dir'], f'cliprobe{k}')
        os.makedirs(sub, exist_ok=True)
        src = os.path.join(sub, 'meson.build')
        with open(src, 'wb') as f:
            f.write(data)
        code = universal(data)
        want, eol_name = cli_expected(ci, code)
        assert want is not None
        want_bytes = want.replace('\n', EOLS.get(eol_name, os.linesep)).encode('utf-8')
        acc.add('cli:invocations', 2)
        acc.add('probe:cli-run')
        rq = runner.meson(['format', '-q', src], cwd=sub, timeout=60)
        before = data
        ri = runner.meson(['format', '-i', src], cwd=sub, timeout=60)
        with open(src, 'rb') as f:
            after = f.read()
        wit = {'kind': 'cli', 'origin': 'cli-probe:' + name, 'content': data.decode('utf-8'), 'config': cfg_brief(cfg),
               'detail': {'check_only_rc': rq.rc, 'inplace_rc': ri.rc, 'bytes_before': repr(before), 'bytes_after': repr(after)}}

        def fail(mech: str) -> None:
            acc.mechs[mech] += 1
            acc.witnesses.setdefault(mech, []).append(wit)

        acc.add('contract:cli-check-status')
        acc.add('contract:cli-inplace-bytes')
        if ri.rc != 0 or after != want_bytes:
            fail('cli-inplace-bytes-differ-from-formatter')
        if rq.rc not in (0, 1):
            fail('cli-check-crashed')
        elif (rq.rc == 1) != (after != before):
            acc.add('contract:cli-check-vs-inplace-bytes')
            fail('check-only-ignores-line-endings' if (want == code and rq.rc == 0) else 'cli-check-status-differs-from-inplace-effect')
        import shutil
        shutil.rmtree(sub, ignore_errors=True)


# ---- several files in one run: the result for a file must not depend on the files handled before it ----

SENSITIVE_TAIL = ("if true\n    xs = [1]\n    foreach i : xs\n        message(i)\n    endforeach\nendif\n"
                  "yy = long_function_name(argument_number_one, argument_number_two, argument_three)\n")

# per-file .editorconfig keys: what a "donor" section sets and an other file's section does not
EC_DONOR = (('indent_size = 2',), ('indent_size = 3', 'max_line_length = 40'), ('indent_style = tab',), ('indent_size = 8', 'tab_width = 8'),
            ('max_line_length = 40',), ('indent_style = space', 'indent_size = 1', 'max_line_length = 120'))
EC_OTHER = ((), (), ('end_of_line = lf',), ('insert_final_newline = true',), ('tab_width = 2',), ('end_of_line = lf', 'tab_width = 8'))


def fresh_format(cfgfile: T.Optional[str], text: str, path: str) -> T.Tuple[T.Optional[str], str]:
    """(output, effective end_of_line) of a NEW real Formatter that has seen no other file (editorconfig on)."""
    from mesonbuild import mformat
    try:
        f = mformat.Formatter(Path(cfgfile) if cfgfile else None, True, False)
        out = f.format(text, Path(path))
        return out, f.current_config.end_of_line
    except Exception:   # noqa: BLE001
        return None, 'native'


def fixed_point(cfgfile: T.Optional[str], text: str, path: str) -> T.Optional[str]:
    for _ in range(4):
        out, _e = fresh_format(cfgfile, text, path)
        if out is None:
            return None
        if out == text:
            return out
        text = out
    return None      # one of the listed idempotence findings is in the way: the caller skips the case


def multi_tree(rng: random.Random, root: str, directed: bool = False) -> T.Optional[dict]:
    """A project of 3-4 build files with FILE-SPECIFIC .editorconfig sections.  The files are visited in the order
    `order`; every file is a fixed point of the formatter under its own configuration, except the last one (victim), whose
    content is a fixed point under the configuration of an earlier file (donor)."""
    g = G.Gen(rng, noise=0.4, size=2, ml_backslash=False)

    def prog() -> str:
        for _ in range(20):
            t = universal(''.join(g.program()).encode('utf-8'))
            if parses(t) and 'subdir' not in t and 'subproject' not in t:
                return (t if t.endswith('\n') else t + '\n') + SENSITIVE_TAIL
        return SENSITIVE_TAIL

    if directed:
        rels = ['meson.build', 'lib/meson.build', 'tools/meson.build']
        sections = {'lib/meson.build': ('indent_size = 2', 'max_line_length = 40'), 'tools/meson.build': ('end_of_line = lf',)}
    else:
        names = rng.sample(['lib', 'tools', 'src', 'a/d', 'doc'], rng.choice((2, 3)))
        rels = ['meson.build'] + [n + '/meson.build' for n in names]
        sections = {}
        # the section [meson.build] of the root file matches every file (suffix search), so the donor is a sub-directory
        donor_i = rng.randrange(1, len(rels) - 1)
        for i, rel in enumerate(rels):
            if i == donor_i:
                sections[rel] = rng.choice(EC_DONOR)
            elif i == len(rels) - 1 or i == 0:
                sections[rel] = rng.choice(EC_OTHER)
            else:
                sections[rel] = rng.choice(EC_OTHER + EC_DONOR)
    ec = 'root = true\n'
    if not directed and rng.random() < 0.3:
        ec += '\n[*]\ncharset = utf-8\n'
    for rel, keys in sections.items():
        if keys or rng.random() < 0.5:
            ec += f'\n[{rel}]\n' + ''.join(k + '\n' for k in keys)
    cfgfile: T.Optional[str] = None
    files: T.Dict[str, str] = {'.editorconfig': ec}
    via_key = (not directed) and rng.random() < 0.4
    if via_key or ((not directed) and rng.random() < 0.3):
        lines = [f'{k} = true' for k in rng.sample(['space_array', 'wide_colon', 'kwargs_force_multiline'], rng.randint(0, 2))]
        if via_key:
            lines.append('use_editor_config = true')
        files['meson.format'] = '\n'.join(lines) + '\n'
        cfgfile = os.path.join(root, 'meson.format')
    runner.write_tree(root, files)
    texts: T.Dict[str, str] = {}
    for i, rel in enumerate(rels):
        body = prog()
        if i == 0:
            body += ''.join(f"subdir('{os.path.dirname(r)}')\n" for r in rels[1:])
        texts[rel] = body
    content: T.Dict[str, str] = {}
    for rel in rels:
        fp = fixed_point(cfgfile, texts[rel], os.path.join(root, rel))
        if fp is None:
            return None
        content[rel] = fp
    victim = rels[-1]
    donors = [r for r in rels[:-1] if sections.get(r)]
    if donors:
        donor = donors[-1] if directed else rng.choice(donors)
        fp = fixed_point(cfgfile, texts[victim], os.path.join(root, donor))
        # formatted as the donor's section wants it; text only (the bytes written below use the victim's own line ending)
        if fp is not None:
            content[victim] = fp
    return {'rels': rels, 'content': content, 'cfgfile': cfgfile, 'via_key': via_key, 'editorconfig': ec}


# ---- several files of ONE directory in one run: .editorconfig sections select files by NAME, not by directory ----------

SIBLINGS = ('meson.options', 'meson_options.txt')
# section headers that select one build-file name (the glob is searched in the path, so it holds in every directory)
NAME_PATTERNS = {'meson.build': ('meson.build', '*.build', '{meson.build,CMakeLists.txt}'),
                 'meson.options': ('meson.options', '*.options', '{meson.options,Makefile.am}'),
                 'meson_options.txt': ('meson_options.txt', '*.txt', 'meson_*.txt', '{meson_options.txt,CMakeLists.txt}')}
OPTIONS_TAIL = ("option('feature_x', type: 'feature', value: 'auto', description: 'a description that makes this line rather long')\n"
                "option('names', type: 'array', value: ['one', 'two', 'three'], choices: ['one', 'two', 'three', 'four', 'five'])\n")


def samedir_tree(rng: random.Random, root: str, directed: bool = False) -> T.Optional[dict]:
    """One or two directories, each holding meson.build AND one or two option files (all Meson DSL, all legal `meson format`
    sources).  The .editorconfig has one section per file NAME with different values.  `visit` is the order in which ONE
    invocation handles the files (explicit sources, optionally -r: then lib/meson.build is reached through subdir() after
    the named files).  Every file is a fixed point under its own configuration, except (in half of the cases) the victim,
    which is a fixed point under the configuration of a file of the same directory handled before it (donor)."""
    g = G.Gen(rng, noise=0.4, size=2, ml_backslash=False)

    def prog(rel: str) -> str:
        tail = SENSITIVE_TAIL + (OPTIONS_TAIL if not rel.endswith('meson.build') else '')
        for _ in range(20):
            t = universal(''.join(g.program()).encode('utf-8'))
            if parses(t) and 'subdir' not in t and 'subproject' not in t:
                return (t if t.endswith('\n') else t + '\n') + tail
        return tail

    if directed:
        dirs = ['']
        by_dir = {'': ['meson.build', 'meson.options']}
        recursive = False
    else:
        dirs = [''] + ([rng.choice(('lib', 'src', 'a/d'))] if rng.random() < 0.5 else [])
        by_dir = {d: ['meson.build'] + rng.sample(SIBLINGS, rng.choice((1, 1, 2))) for d in dirs}
        recursive = rng.random() < 0.4
    rel_of = lambda d, n: (d + '/' + n) if d else n    # noqa: E731
    rels = [rel_of(d, n) for d in dirs for n in by_dir[d]]
    # the order of one invocation
    if directed:
        visit = ['meson.options', 'meson.build']
        srcs = list(visit)
    elif recursive:
        # -r: the named files first, lib/meson.build afterwards through subdir() of the root file (named once only)
        named = [r for r in rels if not (os.path.dirname(r) and r.endswith('meson.build'))]
        rng.shuffle(named)
        visit = named + [r for r in rels if r not in named]
        srcs = ['-r'] + named
    else:
        visit = list(rels)
        rng.shuffle(visit)
        # a directory named as a source stands for its meson.build
        srcs = [(os.path.dirname(r) if (os.path.dirname(r) and r.endswith('/meson.build') and rng.random() < 0.3) else r) for r in visit]
    pairs = [(a, b) for i, a in enumerate(visit) for b in visit[i + 1:] if os.path.dirname(a) == os.path.dirname(b)]
    donor, victim = pairs[0] if directed else rng.choice(pairs)
    dn, vn = os.path.basename(donor), os.path.basename(victim)
    keys_of: T.Dict[str, T.Tuple[str, ...]] = {}
    for n in sorted({os.path.basename(r) for r in rels}):
        keys_of[n] = rng.choice(EC_OTHER + EC_DONOR)
    keys_of[dn] = ('indent_size = 2',) if directed else rng.choice(EC_DONOR)
    keys_of[vn] = ('indent_size = 4',) if directed else rng.choice(tuple(k for k in EC_OTHER + EC_DONOR if k != keys_of[dn]))
    ec = 'root = true\n'
    if not directed and rng.random() < 0.3:
        ec += '\n[*]\ncharset = utf-8\n' + rng.choice(('', 'indent_size = 6\n', 'max_line_length = 60\n', 'end_of_line = crlf\n'))
    names = list(keys_of)
    rng.shuffle(names)
    for n in names:
        if keys_of[n] or rng.random() < 0.5:
            pat = n if directed else rng.choice(NAME_PATTERNS[n])
            ec += f'\n[{pat}]\n' + ''.join(k + '\n' for k in keys_of[n])
    cfgfile: T.Optional[str] = None
    files: T.Dict[str, str] = {'.editorconfig': ec}
    via_key = (not directed) and rng.random() < 0.3
    if via_key or ((not directed) and rng.random() < 0.2):
        lines = [f'{k} = true' for k in rng.sample(['space_array', 'wide_colon', 'kwargs_force_multiline'], rng.randint(0, 2))]
        if via_key:
            lines.append('use_editor_config = true')
        files['meson.format'] = '\n'.join(lines) + '\n'
        cfgfile = os.path.join(root, 'meson.format')
    runner.write_tree(root, files)
    texts: T.Dict[str, str] = {}
    for rel in rels:
        body = prog(rel)
        if rel == 'meson.build':
            body += ''.join(f"subdir('{d}')\n" for d in dirs if d)
        texts[rel] = body
    content: T.Dict[str, str] = {}
    for rel in rels:
        fp = fixed_point(cfgfile, texts[rel], os.path.join(root, rel))
        if fp is None:
            return None
        content[rel] = fp
    if directed or rng.random() < 0.5:
        fp = fixed_point(cfgfile, texts[victim], os.path.join(root, donor))
        if fp is not None:
            content[victim] = fp
    return {'rels': rels, 'content': content, 'cfgfile': cfgfile, 'via_key': via_key, 'editorconfig': ec, 'order': visit, 'srcs': srcs,
            'recursive': recursive, 'victim': victim, 'donor': donor}


def cli_multifile(acc: Acc, idx: int, seed: int, directed: bool = False, samedir: bool = False) -> None:
    """Several files handled by ONE formatter: (1) in-process, one Formatter object formatting the files in sequence must
    give what a fresh Formatter gives for each file; (2) `meson format -e -q` over all files exits non-zero iff a
    single-file run would change one of them; (3) after `meson format -e -i` over all files every file holds exactly what
    a single-file run writes.  Runs are recursive (-r from the root file) or with all files as explicit sources."""
    assert ENV is not None
    from mesonbuild import mformat
    rng = random.Random(f'{PID}:{seed}:climulti:{idx}')
    root = os.path.join(ENV.root, f'multi{seed}-{idx}' + ('d' if directed else '') + ('s' if samedir else ''))
    os.makedirs(root, exist_ok=True)
    import shutil
    try:
        tree = samedir_tree(rng, root, directed) if samedir else multi_tree(rng, root, directed)
        if tree is None:
            acc.add('skipped:multi-file-case-without-fixed-point')
            return
        rels, content, cfgfile = tree['rels'], tree['content'], tree['cfgfile']
        if samedir:
            recursive, order, victim = tree['recursive'], tree['order'], tree['victim']
        else:
            recursive = directed or rng.random() < 0.5
            order = list(rels) if recursive else [rels[0]] + rng.sample(rels[1:-1], len(rels) - 2) + [rels[-1]]
            victim = rels[-1]
        # expectation per file: a fresh Formatter (= a single-file run)
        want: T.Dict[str, bytes] = {}
        data: T.Dict[str, bytes] = {}
        for rel in rels:
            own, eol_name = fresh_format(cfgfile, content[rel], os.path.join(root, rel))
            if own is None:
                acc.add('skipped:multi-file-formatter-raised')
                return
            eol = EOLS.get(eol_name, os.linesep)
            want[rel] = own.replace('\n', eol).encode('utf-8')
            data[rel] = content[rel].replace('\n', eol).encode('utf-8')
        runner.write_tree(root, data)
        would_change = {rel: want[rel] != data[rel] for rel in rels}
        acc.add('cases:cli')
        acc.add('cli:mode-multi-' + ('samedir-' if samedir else '') + ('recursive' if recursive else 'sources'))
        acc.add(('cli:samedir-victim-would-change' if would_change[victim] else 'cli:samedir-victim-clean') if samedir else
                ('cli:multi-victim-would-change' if would_change[victim] else 'cli:multi-victim-clean'))
        if samedir:
            acc.add('cli:samedir-files-in-one-invocation', len(order))
            acc.add('cli:samedir-victim-' + os.path.basename(victim))
            if any(a != b for a, b in zip(tree['srcs'], (['-r'] if recursive else []) + order)):
                acc.add('cli:samedir-directory-named-as-source')
        acc.keys.append(common.digest(['climulti', samedir, recursive, tree['editorconfig'], sorted(would_change.items())]))
        wit = {'kind': 'cli-multi', 'origin': f'climulti:{idx}', 'editorconfig': tree['editorconfig'], 'order': order,
               'recursive': recursive, 'meson.format': open(cfgfile).read() if cfgfile else None,
               'files': {k: v[:3000] for k, v in content.items()}}

        def fail(mech: str, detail: dict) -> None:
            acc.mechs[mech] += 1
            ws = acc.witnesses.setdefault(mech, [])
            if len(ws) < WITNESS_PER_MECH:
                ws.append(dict(wit, detail=detail))

        # (1) in-process: one Formatter object, several files
        acc.add('contract:formatter-stateless')
        try:
            f = mformat.Formatter(Path(cfgfile) if cfgfile else None, True, False)
            for rel in order:
                out = f.format(content[rel], Path(os.path.join(root, rel)))
                eol = EOLS.get(f.current_config.end_of_line, os.linesep)
                if out.replace('\n', eol).encode('utf-8') != want[rel]:
                    fail('formatter-result-depends-on-previously-formatted-files',
                         {'file': rel, 'after': order[:order.index(rel)], 'got': out[:600], 'fresh_formatter': want[rel][:600].decode('utf-8', 'replace')})
                    break
        except Exception as e:   # noqa: BLE001
            fail('formatter-exception:' + type(e).__name__, {'exception': str(e)[:300]})
        # (2)+(3) the command
        argv = ['format'] + ([] if tree['via_key'] else ['-e'])
        srcs = tree['srcs'] if samedir else (['-r', 'meson.build'] if recursive else order)
        wit['argv_sources'] = srcs
        acc.add('cli:invocations', 2)
        r = runner.meson(argv + ['-q'] + srcs, cwd=root, timeout=60)
        acc.add('contract:cli-multi-file-check-status')
        if r.rc not in (0, 1) or r.traceback:
            fail('cli-multi-file-check-crashed', r.brief())
        elif (r.rc == 1) != any(would_change.values()):
            fail('cli-multi-file-check-status-differs-from-single-file-runs', {'rc': r.rc, 'single_file_would_change': would_change})
        r = runner.meson(argv + ['-i'] + srcs, cwd=root, timeout=60)
        acc.add('contract:cli-multi-file-inplace')
        if r.rc != 0 or r.traceback:
            fail('cli-multi-file-inplace-failed', r.brief())
        else:
            for rel in rels:
                with open(os.path.join(root, rel), 'rb') as fh:
                    got = fh.read()
                if got != want[rel]:
                    fail('cli-multi-file-inplace-differs-from-single-file-result',
                         {'file': rel, 'got': got[:600].decode('utf-8', 'replace'), 'single_file_run': want[rel][:600].decode('utf-8', 'replace')})
                    break
            else:
                # formatting is idempotent at the command level: right after --inplace, --check-only over the same sources
                # reports nothing - provided each file (now = the single-file result) is a fixed point of a single-file run
                stable = True
                for rel in rels:
                    again, _e = fresh_format(cfgfile, universal(want[rel]), os.path.join(root, rel))
                    stable = stable and again is not None and again == universal(want[rel])
                if not stable:
                    acc.add('skipped:multi-file-result-not-a-fixed-point-of-a-single-file-run')
                else:
                    acc.add('cli:invocations')
                    r = runner.meson(argv + ['-q'] + srcs, cwd=root, timeout=60)
                    acc.add('contract:cli-multi-file-check-after-inplace')
                    if r.rc not in (0, 1) or r.traceback:
                        fail('cli-multi-file-check-crashed', r.brief())
                    elif r.rc != 0:
                        fail('cli-multi-file-check-reports-change-right-after-inplace', {'rc': r.rc, 'out': (r.out or '')[:300]})
    finally:
        shutil.rmtree(root, ignore_errors=True)


def worker_cli(task: T.Tuple[int, int, int]) -> dict:
    seed, first, count = task
    assert ENV is not None
    silence_mlog()
    # multiprocessing replaced sys.stdin of this worker by /dev/null on another descriptor; runner.meson(stdin=...)
    # redirects descriptor 0 in the forked child, so give the child a sys.stdin that reads descriptor 0
    try:
        sys.stdin = open(0, 'r', encoding='utf-8', closefd=False)
    except OSError:
        pass
    acc = Acc()
    if first == 0:
        cli_probes(acc)
        cli_multifile(acc, 0, 0, directed=True)
        cli_multifile(acc, 0, 0, directed=True, samedir=True)
    for i in range(first, first + count):
        if i % 8 == 7:
            cli_recursive(acc, i, seed)
        elif i % 8 == 3:
            cli_multifile(acc, i, seed)
        elif i % 8 == 5:
            cli_multifile(acc, i, seed, samedir=True)
        else:
            cli_case(acc, i, seed, ENV.root)
    return acc.data()


DEADLINE = [0.0, 0.0]     # generated batches / corpus batches (the corpus gets 30% more: it is finite and wanted once)


def dispatch(task: T.Tuple[str, T.Any]) -> dict:
    kind, payload = task
    t0 = time.time()
    c0 = time.process_time()
    if (kind == 'gen' and time.time() > DEADLINE[0]) or (kind == 'corpus' and time.time() > DEADLINE[1]):
        # the time budget of the tier is used up: the batch is counted, not run
        d = Acc().data()
        d['counts']['budget:' + kind + '-batches-not-run'] = 1
    elif kind == 'gen':
        d = worker_gen(payload)
    elif kind == 'corpus':
        d = worker_corpus(payload)
    elif kind == 'probes':
        d = worker_probes(payload)
    else:
        d = worker_cli(payload)
    d['kind'] = kind
    d['wall'] = time.time() - t0
    d['cpu'] = time.process_time() - c0
    return d


# --------------------------------------------------------------------------------------------------

# ---- the output is a function of (text, configuration) only: not of what the PROCESS formatted before ----------------

HISTORY_TAIL = ("if true\n    exe = executable('t', 'main.c',\n        # a comment on its own line\n        # and a second one\n"
                "        gen, install: true, sources: [1,\n          # inner comment\n          2],\n    )\n"
                "    foreach i : [1]\n        d = {'k': i,\n            # comment in a dict\n            'l': (i\n                # comment in parentheses\n"
                "                + 1)}\n    endforeach\nendif\n")


def in_pristine_child(fn: T.Callable[[T.Any], T.Any], arg: T.Any, timeout: float = 120.0) -> T.Any:
    """Run fn(arg) in a child forked from THIS process and return its JSON-able result (None if it died).  Called from
    the main process, which never formats anything itself, so the child starts with no formatter state at all."""
    r, w = os.pipe()
    pid = os.fork()
    if pid == 0:
        rc = 1
        try:
            os.close(r)
            data = json.dumps(fn(arg)).encode('utf-8')
            while data:
                n = os.write(w, data[:65536])
                data = data[n:]
            rc = 0
        finally:
            os._exit(rc)
    os.close(w)
    chunks = []
    t_end = time.time() + timeout
    import select
    while True:
        ready, _, _ = select.select([r], [], [], max(0.0, t_end - time.time()))
        if not ready:
            try:
                os.kill(pid, 9)
            except ProcessLookupError:
                pass
            break
        b = os.read(r, 1 << 16)
        if not b:
            break
        chunks.append(b)
    os.close(r)
    os.waitpid(pid, 0)
    try:
        return json.loads(b''.join(chunks).decode('utf-8'))
    except ValueError:
        return None


def _format_sequence(cases: T.Sequence[T.Tuple[str, int]]) -> T.List[T.Tuple[T.Optional[str], str]]:
    """child side: format the cases in order with the real Formatter; -> [(output or None, effective indent_by), ...]"""
    assert ENV is not None
    silence_mlog()
    out: T.List[T.Tuple[T.Optional[str], str]] = []
    for text, ci in cases:
        try:
            f = formatter(ci)
            o = f.format(text, Path(ENV.entries[ci]['src']))
            out.append((o, f.current_config.indent_by))
        except Exception as e:   # noqa: BLE001
            out.append((None, f'{type(e).__name__}: {e}'[:200]))
    return out


def history_probe(chk: common.Check, n: int) -> None:
    """n (text, configuration) cases.  Reference: each case formatted as the FIRST thing a process ever formats (one
    pristine child per case).  Observed: the same cases formatted one after the other in ONE process, in two different
    orders arranged so that neighbours differ in indent_by (and, the configurations coming from the pairwise set, in
    most other keys).  Contract: same output - the formatted text depends on the file and its configuration only, so
    `meson format -q` in a new process agrees with what an earlier multi-file `meson format -i` wrote."""
    assert ENV is not None
    rng = random.Random(f'{PID}:{chk.seed}:history')
    by_indent: T.Dict[str, T.List[int]] = {}
    for ci, c in enumerate(ENV.cfgs):
        by_indent.setdefault(c['indent_by'], []).append(ci)
    cases: T.List[T.Tuple[str, int]] = []
    keys = sorted(by_indent)
    g = G.Gen(rng, noise=0.5, size=3, ml_backslash=False)
    while len(cases) < n:
        for k in keys:                       # round-robin over the indentation units: neighbours always differ
            t = ''.join(g.program())
            if not parses(t):
                continue
            t = (t if t.endswith('\n') else t + '\n') + HISTORY_TAIL
            if not parses(t):
                continue
            cases.append((t, rng.choice(by_indent[k])))
    cases = cases[:n]
    ref = [in_pristine_child(_format_sequence, [c]) for c in cases]
    orders = [list(range(len(cases))), list(reversed(range(len(cases))))]
    shuffled = list(range(len(cases)))
    rng.shuffle(shuffled)
    orders.append(shuffled)
    for order in orders:
        got = in_pristine_child(_format_sequence, [cases[i] for i in order])
        if got is None:
            chk.inconclusive_case('history-child-died')
            continue
        prev_indent: T.Optional[str] = None
        for pos, i in enumerate(order):
            r0 = ref[i][0] if ref[i] else None
            if r0 is None or r0[0] is None or got[pos][0] is None:
                chk.count('skipped:history-case-formatter-raised')
                prev_indent = got[pos][1]
                continue
            chk.count('contract:output-independent-of-process-history')
            if pos > 0:
                chk.count('history:cases-formatted-after-another-configuration')
                if prev_indent is not None and prev_indent != got[pos][1]:
                    chk.count('history:cases-formatted-after-a-different-indent_by')
            prev_indent = got[pos][1]
            chk.case(common.digest(['history', i, pos, order[pos - 1] if pos else None]))
            if got[pos][0] != r0[0]:
                text, ci = cases[i]
                chk.count('violations:formatter-output-depends-on-process-history')
                if chk.counters['violations:formatter-output-depends-on-process-history'] > WITNESS_PER_MECH:
                    continue
                chk.violation('formatter-output-depends-on-process-history',
                              {'kind': 'history', 'text': text[:MAX_TEXT], 'config': cfg_brief(ENV.cfgs[ci]),
                               'written_keys': ENV.entries[ci]['written'],
                               'formatted_before_in_this_process': [cfg_brief(ENV.cfgs[cases[j][1]]) for j in order[max(0, pos - 3):pos]],
                               'first_in_process': r0[0][:3000], 'after_other_files': got[pos][0][:3000]})


def build_env(chk: common.Check, extra_random: int) -> Env:
    rng = random.Random(f'{PID}:{chk.seed}:configs')
    cfgs = G.configs(rng, 2, extra_random)
    # configurations the directed probes need
    for over in [p[1] for p in PROBES] + [p[1] for p in CLI_PROBES] + [p[1] for p in SPLIT_PROBES]:
        c = dict(G.DEFAULT_CONFIG)
        c.update(over)
        if c not in cfgs:
            cfgs.append(c)
    root = common.scratch_dir('c16')
    # an .editorconfig with root=true at the top so that nothing outside the scratch tree is ever read
    with open(os.path.join(root, '.editorconfig'), 'w', encoding='utf-8') as f:
        f.write('root = true\n')
    return Env(root, cfgs, rng)


def replay(chk: common.Check, path: str) -> int:
    global ENV
    silence_mlog()
    with open(path, encoding='utf-8') as f:
        w = json.load(f)
    if w.get('kind', 'format') != 'format' or not isinstance(w.get('text'), str) or w.get('text_truncated'):
        print(f'[{PID}] replay: this witness (kind={w.get("kind")}) is not a single format case; re-run the tier with seed {w.get("seed")}')
        return 3
    cfg = dict(G.DEFAULT_CONFIG)
    cfg.update(w.get('config') or {})
    root = common.scratch_dir('c16')
    with open(os.path.join(root, '.editorconfig'), 'w', encoding='utf-8') as f:
        f.write('root = true\n')
    ENV = Env(root, [dict(G.DEFAULT_CONFIG), cfg], random.Random(0), [None, w.get('written_keys')])
    counts: T.Dict[str, int] = {}
    res = evaluate(w['text'], 1, counts)
    out, out2, exc, exc2, rpe = run_real(w['text'], 1, {})
    print(f'[{PID}] replay {path}')
    print('  input   ' + repr(w['text'])[:1500])
    print('  output  ' + repr(out)[:1500])
    if out2 != out:
        print('  output2 ' + repr(out2)[:1500])
    for mech, contract, detail in res:
        print(f'  mechanism={mech} contract={contract} ' + json.dumps(detail, default=repr, ensure_ascii=True)[:500])
    want = w.get('mechanism')
    still = any(m == want for m, _c, _d in res) if want else bool(res)
    print(f'[{PID}] replay: ' + ('STILL FAILS' if still else ('other violation' if res else 'no longer fails')))
    return 1 if res else 0


def main() -> int:
    global ENV, KNOWN
    chk = common.Check(PID)
    if os.environ.get('VERIF_REPLAY'):
        return replay(chk, os.environ['VERIF_REPLAY'])
    silence_mlog()
    runner.preload()
    quick = chk.tier == 'quick'
    ENV = build_env(chk, 0 if quick else 60)
    KNOWN = set(chk.known)
    n_prog = 3000 if quick else 40000
    per = 6 if quick else 30
    batch = 25 if quick else 50
    budget = 70.0 if quick else 16 * 60.0
    if os.environ.get('VERIF_C16_BUDGET'):      # development aid on an overloaded machine (seconds of wall clock)
        budget = float(os.environ['VERIF_C16_BUDGET'])
    # before any worker exists: the main process formats nothing itself, so children forked from it are pristine
    history_probe(chk, 30 if quick else 150)
    tasks: T.List[T.Tuple[str, T.Any]] = [('probes', 0)]
    corpus = G.corpus_files(common.REPO)
    n_cli = 160 if quick else 1200
    cli_batch = 10
    for first in range(0, n_cli, cli_batch):
        tasks.append(('cli', (chk.seed, first, cli_batch)))
    cb = 40
    for i in range(0, len(corpus), cb):
        tasks.append(('corpus', (chk.seed, corpus[i:i + cb], 1 if quick else 8, 1 if quick else 6)))
    for first in range(0, n_prog, batch):
        tasks.append(('gen', (chk.seed, first, batch, per)))

    # one pool; probes and CLI first, then generated batches interleaved with corpus batches.  Batches that start after
    # the deadline return immediately and are counted (budget:*), so the tier is capped by count AND time.
    DEADLINE[0] = chk.t0 + budget
    DEADLINE[1] = chk.t0 + budget * 1.3
    fixed = [t for t in tasks if t[0] in ('probes', 'cli')]
    gen = [t for t in tasks if t[0] == 'gen']
    cor = [t for t in tasks if t[0] == 'corpus']
    queue: T.List[T.Tuple[str, T.Any]] = list(fixed)
    step = max(1, len(gen) // max(1, len(cor)))
    gi = 0
    for c in cor:
        queue.append(c)
        queue += gen[gi:gi + step]
        gi += step
    queue += gen[gi:]
    results: T.List[dict] = common.pmap(dispatch, queue, chk.jobs)

    feats: T.Counter[str] = collections.Counter()
    mechs: T.Counter[str] = collections.Counter()
    witnesses: T.Dict[str, T.List[dict]] = {}
    cfg_used: T.Counter[int] = collections.Counter()
    walls: T.Dict[str, float] = collections.defaultdict(float)
    for d in results:
        walls[d['kind']] += d['cpu']
        chk.merge_counts(d['counts'])
        feats.update(d['feat'])
        mechs.update(d['mechs'])
        for k in d['keys']:
            chk.case(k)
        for s in d['samples']:
            chk.sample(s)
        for m, ws in d['witnesses'].items():
            witnesses.setdefault(m, [])
            witnesses[m] += ws
        cfg_used.update({int(k): v for k, v in d['cfg_used'].items()})
    for m, n in sorted(mechs.items()):
        chk.count('violations:' + m, n)
        ws = sorted(witnesses.get(m, []), key=lambda w: len(w.get('text', w.get('content', ''))))[:WITNESS_PER_MECH]
        for w in ws:
            chk.violation(m, dict(w, occurrences=n))
    for name in ('contract:no-internal-error', 'contract:output-parses-real', 'contract:output-parses-ref', 'contract:same-tree',
                 'contract:same-comments-nonempty', 'contract:idempotent', 'contract:cli-check-status', 'contract:cli-inplace-bytes',
                 'contract:cli-output-bytes', 'contract:cli-stdout', 'contract:cli-diff-output', 'contract:cli-recursive-inplace',
                 'contract:cli-multi-file-inplace', 'contract:cli-multi-file-check-status', 'contract:formatter-stateless',
                 'cli:multi-victim-would-change', 'contract:cli-multi-file-check-after-inplace',
                 'cli:mode-multi-samedir-sources', 'cli:mode-multi-samedir-recursive', 'cli:samedir-victim-would-change', 'cli:samedir-victim-clean',
                 'probe:run', 'probe:cli-run', 'probe:split-run', 'contract:final-newline', 'cases:corpus', 'cases:gen', 'accepted:literal-respelled',
                 'pass:TrimWhitespaces.visit_StringNode', 'pass:TrimWhitespaces.visit_FunctionNode',
                 'pass:ArgumentFormatter.visit_ArgumentNode', 'pass:ComputeLineLengths.visit_ArgumentNode', 'rounds:2', 'rounds:5',
                 'rounds:limit-hit-still-wanting-more', 'contract:output-independent-of-process-history'):
        chk.require(name, 1)
    chk.require('cases:gen', 600 if quick else 10000)
    chk.require('history:cases-formatted-after-a-different-indent_by', 40 if quick else 200)
    chk.notes['cpu_seconds_by_workload'] = {k: round(v, 1) for k, v in walls.items()}
    cells = {
        'configurations': len(ENV.cfgs),
        'configurations_exercised': len(cfg_used),
        'min_cases_per_configuration': min(cfg_used.values()) if cfg_used else 0,
        'generator_features': dict(sorted(feats.items())),
        'corpus_files': len(corpus),
    }
    return chk.finish(
        rule='a case = (program text, configuration); programs come from the trivia-decorating grammar generator, the repository '
             'corpus (+ trivia/literal mutants that still parse) and directed probes; distinct = distinct (sequence of token kinds '
             'including trivia kinds, configuration index); CLI cases are distinct by (mode, file variant, configuration, '
             'would-change flags)',
        assumptions=['the independent reader vf.ref.refmeson decides what "the same program" is; strings are compared by decoded value',
                     'a generated/corpus/mutant text is a case only if both the real parser and refmeson accept it (others are counted as skipped)',
                     'with sort_files on, comments attached to arguments of files() may travel with the sorted arguments (multiset equality '
                     'inside files(...), sequence equality elsewhere)',
                     'comments are compared after stripping trailing blanks',
                     'CLI: the expected text is the in-process Formatter output under the same configuration files; expected bytes apply '
                     'the configured end_of_line',
                     'invalid configuration values (tab_width 0, non-blank indent_by) are not explored; the empty indent_by is explored'],
        extra=cells)


if __name__ == '__main__':
    sys.exit(main())
